SPECIFICATION TSpec
CONSTANT Mode = "all"
