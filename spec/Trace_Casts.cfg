SPECIFICATION Spec
