-------------------------------- MODULE Ops --------------------------------
(***************************************************************************)
(* Property C16: operators on tainted numbers compute exactly what the     *)
(* plain operators compute.  By the property's own wording the reference   *)
(* is the same C++ expression on the underlying plain values, which the    *)
(* harness evaluates next to the wrapped expression in one translation     *)
(* unit; this module states the relation between the two observations.     *)
(*                                                                         *)
(*  op    : a single evaluated operand pair (values as exact Wide bits)     *)
(*  opsum : summary of an exhaustively enumerated combination (all 8-bit    *)
(*          operand pairs): every pair's agreement was counted              *)
(*  upd   : an operator that updates its operand (compound assignment,      *)
(*          ++ / --) or a unary operator: value returned and operand after  *)
(***************************************************************************)
EXTENDS Wide

OpAllowed(ev) ==
  /\ ev.out = "ok"                       \* value operators never abort
  /\ ev.same_type                        \* wrapped result has the C++ type of the plain expression
  /\ Eq(ev.wrapped, ev.plain)            \* ... and its value, bit for bit

OpSumAllowed(ev) ==
  /\ ev.disagree = 0 /\ ev.agree = ev.pairs /\ ev.same_type

\* OperandUpdate: x' = x op y, value returned = new (pre forms, compound) / old (post forms);
\* an update of a value stored in sandbox memory may instead abort when the plain result does
\* not fit the stored sandbox type
UpdAllowed(ev) ==
  IF ev.out = "ok"
    THEN /\ Eq(ev.after, ev.plain_after)
         /\ Eq(ev.ret, ev.plain_ret)
         /\ ("same_type" \in DOMAIN ev => ev.same_type)
    ELSE /\ ev.out = "abort" /\ ev.volatile_target /\ ~ev.fits
         \* ... INSTEAD of updating: the operand of a refused (single) update still holds its value
         /\ ("left" \in DOMAIN ev => ev.left_ok /\ Eq(ev.left, ev.left_want))
=============================================================================
