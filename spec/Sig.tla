-------------------------------- MODULE Sig --------------------------------
(***************************************************************************)
(* Enumeration of the signature family of C11 / C12 ("for every            *)
(* signature"): a signature is built by appending parameters; what the     *)
(* conversion of a parameter can depend on - its kind, its position, the   *)
(* kind of the parameter before it (pack expansion, index sequences,       *)
(* first/last special cases) - is the state.  TLC explores the machine     *)
(* completely and emits every transition; covering walks become the        *)
(* generated signatures (gen/sig_family.py), each executed as an           *)
(* invocation and as a callback under every guest ABI and judged by        *)
(* Invoke.tla (CallAllowed / CbAllowed).                                   *)
(*   View "pos"  : state = number of parameters so far  (quick tier)       *)
(*   View "pair" : state = <<number, kind of the last parameter>>          *)
(***************************************************************************)
EXTENDS Naturals, TLC, Json

CONSTANTS Kinds, MaxLen, Pairs     \* Pairs: TRUE = adjacency-sensitive view

VARIABLES n, last
svars == <<n, last>>
SView == IF Pairs THEN <<n, last>> ELSE <<n, "">>

SInit == n = 0 /\ last = ""
AppendParam(k) == n < MaxLen /\ n' = n + 1 /\ last' = k
SNext == \E k \in Kinds : AppendParam(k)
SSpec == SInit /\ [][SNext]_svars
STypeOK == n \in 0..MaxLen /\ last \in Kinds \cup {""}

Proj(cnt, k) == [n |-> cnt, l |-> (IF Pairs THEN k ELSE "")]
SEmit == PrintT(<<"EDGE", ToJson([src |-> Proj(n, last), dst |-> Proj(n', last'),
                                  ev |-> [kind |-> last', pos |-> n']])>>)
=============================================================================
