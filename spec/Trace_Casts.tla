----------------------------- MODULE Trace_Casts -----------------------------
(* Oracle for C20: constant-level evaluation of the Casts Contract on every recorded event. *)
EXTENDS Casts, TLC, Json, IOUtils
T == ndJsonDeserialize(IOEnv.TRACE)
VARIABLE x
Spec == x = 0 /\ [][x' = x]_x
Ok(i) == LET ev == T[i] IN
         CASE ev.e = "opaque" -> OpaqueAllowed(ev)
           [] ev.e = "cast" -> CastAllowed(ev)
           [] ev.e = "boundary" -> ev.form = "tainted" \/ (i > 1 /\ BoundaryAllowed(T[i - 1], ev))
           [] ev.e = "formpair" -> FormPairAllowed(ev)
           [] ev.e = "cbptr" -> CbPtrAllowed(ev)
           [] OTHER -> FALSE
Bad == {i \in 1..Len(T) : ~Ok(i)}
ASSUME PrintT(<<"RESULT", ToJson([bad |-> Bad, n |-> Len(T)])>>)
=============================================================================
