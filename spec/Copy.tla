------------------------------- MODULE Copy -------------------------------
(***************************************************************************)
(* Property C09: verified copies are application-memory snapshots; there   *)
(* is no window between RLBox's checks/reads and the verifier's use in     *)
(* which the sandbox can change what the verifier sees.                    *)
(*                                                                         *)
(* Model: the copier performs the steps of one copy_and_verify variant     *)
(* (transcribed from rlbox.hpp) between which an adversarial sandbox       *)
(* thread may rewrite the source cells; every yield point of the Model     *)
(* corresponds to one RLBOX_VERIF_YIELD hook in the code.                  *)
(*   string_up : strlen; Y; per element (Y; read); force NUL; Y; verifier  *)
(*   string_std: strlen; Y; range check; Y; copy all; Y; verifier          *)
(*   range     : per element (Y; read); Y; verifier                        *)
(*   single    : read; Y; verifier        (fundamental / pointer / struct) *)
(* TLC explores every interleaving (history variable: each schedule is a   *)
(* distinct behaviour), checks the invariants, and prints every complete   *)
(* schedule for replay on the real code through the hook.                  *)
(*                                                                         *)
(* Contract on a recorded execution (CopyAllowed): the buffer handed to    *)
(* the verifier lies in application memory, every element is a value its   *)
(* source cell held between the start of the call and the verifier, later  *)
(* writes do not change it, and a string is NUL-terminated inside its own  *)
(* buffer and not longer than the length that was range-checked.           *)
(***************************************************************************)
EXTENDS Integers, Sequences, FiniteSets, TLC, Json

CONSTANTS Variant, N, MaxWrites, Vals     \* N source cells, values Vals (0 = NUL)

VARIABLES mem, mem0, pc, i, len, buf, seen, held, nw, hist, done

vars == <<mem, mem0, pc, i, len, buf, seen, held, nw, hist, done>>

IsString == Variant \in {"string_up", "string_std"}

\* first NUL at or after cell 1 (N + 1 if none: the real strlen would leave the region)
FirstNul(m) == IF \E k \in 1..N : m[k] = 0 THEN CHOOSE k \in 1..N : m[k] = 0 /\ \A j \in 1..(k - 1) : m[j] # 0
               ELSE N + 1

Init ==
  /\ mem \in [1..N -> Vals]
  /\ (IsString => \E k \in 1..N : mem[k] = 0)      \* terminated inside the region when the call starts
  /\ mem0 = mem
  /\ pc = IF IsString THEN "strlen" ELSE IF Variant = "range" THEN "yield_elem" ELSE "readall"
  /\ i = 1
  /\ len = IF IsString THEN 0 ELSE N
  /\ buf = <<>>
  /\ seen = <<>>
  /\ held = [k \in 1..N |-> {mem[k]}]
  /\ nw = 0
  /\ hist = <<>>
  /\ done = FALSE

\* the adversary rewrites one source cell while the copier is parked at a yield point
AtYield == pc \in {"y_after_strlen", "y_after_check", "yield_elem", "y_before_verifier", "y_after"}
YieldName == CASE pc = "y_after_strlen" -> "string:after-strlen"
               [] pc = "y_after_check" -> "string:after-check"
               [] pc = "yield_elem" -> "range:elem"
               [] pc = "y_before_verifier" -> "before-verifier"
               [] OTHER -> "after"
Write(c, v) ==
  /\ AtYield /\ nw < MaxWrites /\ mem[c] # v
  /\ mem' = [mem EXCEPT ![c] = v]
  /\ held' = IF pc = "y_after" THEN held ELSE [held EXCEPT ![c] = @ \cup {v}]
  /\ nw' = nw + 1
  /\ hist' = Append(hist, [pt |-> YieldName, idx |-> (IF pc = "yield_elem" THEN i - 1 ELSE 0), cell |-> c, val |-> v])
  /\ UNCHANGED <<pc, i, len, buf, seen, done>>

Strlen ==
  /\ pc = "strlen"
  /\ len' = FirstNul(mem)              \* characters + terminator = the length that is range-checked
  /\ pc' = "y_after_strlen"
  /\ UNCHANGED <<mem, i, buf, seen, held, nw, hist, done>>

AfterStrlen ==
  /\ pc = "y_after_strlen"
  /\ pc' = IF Variant = "string_up" THEN "yield_elem" ELSE "y_after_check"
  /\ UNCHANGED <<mem, i, len, buf, seen, held, nw, hist, done>>

\* string_std: std::string copy(checked_start, str_len - 1) - one step
AfterCheck ==
  /\ pc = "y_after_check"
  /\ buf' = [k \in 1..(len - 1) |-> mem[k]] \o <<0>>
  /\ pc' = "y_before_verifier"
  /\ UNCHANGED <<mem, i, len, seen, held, nw, hist, done>>

ReadElem ==
  /\ pc = "yield_elem"
  /\ IF i <= len
       THEN /\ buf' = Append(buf, mem[i])
            /\ i' = i + 1
            /\ pc' = "yield_elem"
       ELSE \* all elements copied: strings get their forced terminator
            /\ buf' = IF IsString THEN [buf EXCEPT ![len] = 0] ELSE buf
            /\ i' = i
            /\ pc' = "y_before_verifier"
  /\ UNCHANGED <<mem, len, seen, held, nw, hist, done>>

ReadAll ==
  /\ pc = "readall"
  /\ buf' = [k \in 1..N |-> mem[k]]
  /\ pc' = "y_before_verifier"
  /\ UNCHANGED <<mem, i, len, seen, held, nw, hist, done>>

Verifier ==
  /\ pc = "y_before_verifier"
  /\ seen' = buf
  /\ pc' = "y_after"
  /\ UNCHANGED <<mem, i, len, buf, held, nw, hist, done>>

Finish ==
  /\ pc = "y_after" /\ ~done
  /\ done' = TRUE
  /\ UNCHANGED <<mem, pc, i, len, buf, seen, held, nw, hist>>

Next ==
  /\ UNCHANGED mem0
  /\ \/ \E c \in 1..N, v \in Vals : Write(c, v)
     \/ Strlen \/ AfterStrlen \/ AfterCheck \/ ReadElem \/ ReadAll \/ Verifier \/ Finish

Spec == Init /\ [][Next]_vars

(***************************************************************************)
(* Contract on a recorded execution of the real code (trace validation)    *)
(*  ev.mem0    source cells when the call started                           *)
(*  ev.writes  adversary writes [pt, idx, cell, val] in the order performed *)
(*  ev.checked length that was range-checked (strings), else element count  *)
(*  ev.seen    content of the object the verifier received                  *)
(*  ev.seen_after  the same object after the post-call writes and after     *)
(*             overwriting the whole source region                          *)
(*  ev.in_app  the object lies outside every sandbox region                 *)
(***************************************************************************)
HeldBy(ev, k) == {ev.mem0[k]} \cup {ev.writes[j].val : j \in {x \in 1..Len(ev.writes) :
                                        ev.writes[x].cell = k /\ ev.writes[x].pt # "after"}}
CopyAllowed(ev) ==
  /\ ev.out = "ok"
  /\ ev.in_app                                   \* snapshot lives in application memory
  /\ ev.seen_after = ev.seen                      \* later sandbox writes cannot change it
  /\ IF ev.string
       THEN /\ Len(ev.seen) >= 1 /\ Len(ev.seen) <= ev.checked   \* not longer than what was range-checked
            /\ ev.seen[Len(ev.seen)] = 0                          \* NUL-terminated inside its own buffer
            /\ \A k \in 1..(Len(ev.seen) - 1) : ev.seen[k] \in HeldBy(ev, k)
       ELSE /\ Len(ev.seen) = ev.checked
            /\ \A k \in 1..Len(ev.seen) : ev.seen[k] \in HeldBy(ev, k)

\* The source pointer itself lives in sandbox memory and is redirected (src -> alt) during RLBox's
\* first range check: the snapshot comes from the string whose address was read before that, or
\* from the new one provided the new address was range-checked too; never check one, use the other.
PCellAllowed(ev) ==
  \/ ev.out = "abort"
  \/ ev.out = "ok" /\ ev.region = "src"
  \/ ev.out = "ok" /\ ev.region = "alt" /\ \E j \in 1..Len(ev.checks_after) : ev.checks_after[j] = "alt"

(***************************************************************************)
(* Invariants of the Model (the design has no check/use window)            *)
(***************************************************************************)
Started == pc = "y_after"
\* every delivered element is a value its cell held before the verifier started
TakenBefore == Started => \A k \in 1..Len(seen) :
                 (IsString /\ k = Len(seen)) \/ (k <= N /\ seen[k] \in held[k])
\* strings: terminated inside the buffer, not longer than the range-checked length
Terminated == (Started /\ IsString) => (Len(seen) = len /\ seen[len] = 0)
\* nothing the sandbox writes after the verifier got the buffer changes it (seen is a copy)
Stable == [][Started => seen' = seen]_vars

\* one SCHED line per complete schedule (initial memory + writes at yield points)
EmitSched == (done' /\ ~done) =>
  PrintT(<<"SCHED", ToJson([variant |-> Variant, mem0 |-> mem0, writes |-> hist])>>)
=============================================================================
