------------------------------ MODULE Layout ------------------------------
(***************************************************************************)
(* Property C08: struct marshalling follows the sandbox ABI layout and     *)
(* round-trips every field.                                                *)
(*                                                                         *)
(* A field descriptor is a record                                          *)
(*   [k |-> "prim", gs, ga, sg, cls]       primitive / pointer slot         *)
(*   [k |-> "arr",  el, n]                 array of n elements `el`         *)
(*   [k |-> "struct", fs]                  nested struct with fields `fs`   *)
(* with gs/ga the size / alignment under the SANDBOX ABI, sg signedness,   *)
(* cls in {"i","b","f","p","c"} (integer, bool, float bits, data pointer,  *)
(* function pointer).  Layout follows the natural-alignment rule.          *)
(*                                                                         *)
(* (1) Layout state machine: state = <<offset mod 8, max alignment>>,      *)
(*     action AppendField(kind).  TLC explores it completely and emits     *)
(*     every transition; a covering family of structs (every field kind    *)
(*     after every layout state) is generated from the edges.              *)
(* (2) Contracts on recorded events: the offsets / size / alignment RLBox   *)
(*     uses equal Layout(fields); the sandbox image of a stored or passed  *)
(*     struct holds exactly Encode(value) in every slot; loading returns   *)
(*     exactly Decode of every slot; a non-representable field aborts.     *)
(***************************************************************************)
EXTENDS Mem, Sequences, TLC, Json

RoundUp(x, a) == ((x + a - 1) \div a) * a
Max2(a, b) == IF a > b THEN a ELSE b

RECURSIVE SizeOf(_), AlignOf(_), StructEnd(_, _), StructAlign(_)
AlignOf(f) ==
  CASE f.k = "prim" -> f.ga
    [] f.k = "arr" -> AlignOf(f.el)
    [] OTHER -> StructAlign(f.fs)
StructAlign(fs) == IF fs = <<>> THEN 1 ELSE Max2(AlignOf(Head(fs)), StructAlign(Tail(fs)))
\* end offset after laying out fields fs starting at offset `at`
StructEnd(fs, at) ==
  IF fs = <<>> THEN at
  ELSE StructEnd(Tail(fs), RoundUp(at, AlignOf(Head(fs))) + SizeOf(Head(fs)))
SizeOf(f) ==
  CASE f.k = "prim" -> f.gs
    [] f.k = "arr" -> f.n * SizeOf(f.el)
    [] OTHER -> RoundUp(StructEnd(f.fs, 0), StructAlign(f.fs))

\* offsets of the top-level fields
RECURSIVE OffsetsFrom(_, _)
OffsetsFrom(fs, at) ==
  IF fs = <<>> THEN <<>>
  ELSE LET o == RoundUp(at, AlignOf(Head(fs))) IN <<o>> \o OffsetsFrom(Tail(fs), o + SizeOf(Head(fs)))
Offsets(fs) == OffsetsFrom(fs, 0)
TotalSize(fs) == RoundUp(StructEnd(fs, 0), StructAlign(fs))

\* flattened primitive slots [off, gs, sg, cls] in declaration order
RECURSIVE SlotsOf(_, _), SlotsOfFields(_, _), ArrSlots(_, _, _)
SlotsOf(f, at) ==
  CASE f.k = "prim" -> <<[off |-> at, gs |-> f.gs, sg |-> f.sg, cls |-> f.cls]>>
    [] f.k = "arr" -> ArrSlots(f.el, at, f.n)
    [] OTHER -> SlotsOfFields(f.fs, at)
ArrSlots(el, at, n) == IF n = 0 THEN <<>> ELSE SlotsOf(el, at) \o ArrSlots(el, at + SizeOf(el), n - 1)
SlotsOfFields(fs, at) ==
  IF fs = <<>> THEN <<>>
  ELSE LET o == RoundUp(at, AlignOf(Head(fs))) IN
       SlotsOf(Head(fs), o) \o SlotsOfFields(Tail(fs), o + SizeOf(Head(fs)))
Slots(fs) == SlotsOfFields(fs, 0)

(***************************************************************************)
(* Contracts on recorded events                                            *)
(***************************************************************************)
LayoutAllowed(ev) ==
  /\ ev.offsets = Offsets(ev.fields)        \* field offsets as the ABI prescribes
  /\ ev.size = TotalSize(ev.fields)
  /\ ev.align = StructAlign(ev.fields)

SlotFits(s, v) ==
  CASE s.cls = "i" -> InType(v, s.gs * 8, s.sg)
    [] s.cls = "b" -> InType(v, 1, FALSE)
    [] OTHER -> TRUE
\* value a slot must hold: data pointers are region offsets (-1 = null -> 0)
SlotExpected(s, v) == IF s.cls = "p" /\ IsNeg(v) THEN WZero ELSE v
SlotBytes(image, s) == SubSeq(image, s.off + 1, s.off + s.gs)
SlotDecoded(image, s) == Decode(SlotBytes(image, s), s.sg /\ s.cls = "i")

\* a tainted struct written to sandbox memory / passed by value: ev.vals[i] per slot
SStoreAllowed(ev) ==
  LET sl == Slots(ev.fields) IN
  /\ Len(ev.vals) = Len(sl)
  /\ IF \A i \in 1..Len(sl) : SlotFits(sl[i], ev.vals[i])
       THEN /\ ev.out = "ok"
            /\ Len(ev.image) = TotalSize(ev.fields)
            /\ \A i \in 1..Len(sl) : Eq(SlotDecoded(ev.image, sl[i]), SlotExpected(sl[i], ev.vals[i]))
       ELSE ev.out = "abort"

\* a struct image read back / received by value: ev.got[i] per slot
SLoadAllowed(ev) ==
  LET sl == Slots(ev.fields) IN
  /\ ev.out = "ok"
  /\ Len(ev.got) = Len(sl)
  /\ Len(ev.image) = TotalSize(ev.fields)       \* the image has the size the ABI prescribes
  /\ \A i \in 1..Len(sl) :
       LET d == SlotDecoded(ev.image, sl[i]) IN
       IF sl[i].cls = "p" /\ IsZero(d) THEN Eq(ev.got[i], FromInt(-1)) ELSE Eq(ev.got[i], d)

(***************************************************************************)
(* Layout state machine (enumeration of the struct family)                 *)
(***************************************************************************)
CONSTANT Kinds      \* set of [name, gs, ga] : field kinds of the family
VARIABLES off8, maxa, last
lvars == <<off8, maxa>>
LView == lvars
LInit == off8 = 0 /\ maxa = 1 /\ last = [name |-> "", gs |-> 0, ga |-> 1]
AppendField(kd) ==
  /\ off8' = (RoundUp(off8, kd.ga) + kd.gs) % 8
  /\ maxa' = Max2(maxa, kd.ga)
  /\ last' = kd
LNext == \E kd \in Kinds : AppendField(kd)
LSpec == LInit /\ [][LNext]_<<lvars, last>>
LTypeOK == off8 \in 0..7 /\ maxa \in {1, 2, 4, 8}
\* alignment invariant of the rule itself: every field starts at a multiple of its alignment
LEmit == PrintT(<<"EDGE", ToJson([src |-> [o |-> off8, a |-> maxa], dst |-> [o |-> off8', a |-> maxa'],
                                  ev |-> [kind |-> last'.name, gs |-> last'.gs, ga |-> last'.ga]])>>)
=============================================================================
