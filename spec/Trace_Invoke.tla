---------------------------- MODULE Trace_Invoke ----------------------------
(* Oracle for the argument/result clause of C11: constant-level evaluation   *)
(* of CallAllowed on every recorded call.                                    *)
EXTENDS Invoke, TLC, Json, IOUtils
T == ndJsonDeserialize(IOEnv.TRACE)
VARIABLE x
Spec == x = 0 /\ [][x' = x]_x
CONSTANT Kind    \* "call": C11's invocations | "cbcall": C12's callback calls
Bad == {i \in 1..Len(T) : T[i].e = Kind /\ ~(IF Kind = "call" THEN CallAllowed(T[i]) ELSE CbAllowed(T[i]))}
ASSUME PrintT(<<"RESULT", ToJson([bad |-> Bad, n |-> Len(T)])>>)
=============================================================================
