---------------------------- MODULE Trace_Invoke ----------------------------
(* Oracle for the argument/result clause of C11: constant-level evaluation   *)
(* of CallAllowed on every recorded call.                                    *)
EXTENDS Invoke, TLC, Json, IOUtils
T == ndJsonDeserialize(IOEnv.TRACE)
VARIABLE x
Spec == x = 0 /\ [][x' = x]_x
Bad == {i \in 1..Len(T) : T[i].e = "call" /\ ~CallAllowed(T[i])}
ASSUME PrintT(<<"RESULT", ToJson([bad |-> Bad, n |-> Len(T)])>>)
=============================================================================
