------------------------------ MODULE MC_Taint ------------------------------
(* Enumeration of the program space of C01/C02 (constant level) and the closure lemma. *)
EXTENDS Taint
ASSUME ClosureLemma
ASSUME PrintT(<<"COUNT", ToJson([programs |-> Cardinality(Programs), operands |-> Cardinality(Operands),
                                 forms |-> Cardinality(UnaryForms) + Cardinality(BinaryForms) +
                                           Cardinality(EnterForms) + Cardinality(LegalForms)])>>)
ASSUME PrintT(<<"PROGRAMS", ToJson(Programs)>>)
=============================================================================
