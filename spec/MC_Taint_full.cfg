SPECIFICATION Spec
CONSTANT FullRhs = TRUE
