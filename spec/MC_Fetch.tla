------------------------------ MODULE MC_Fetch ------------------------------
(* Instances of FetchModel: an accepted interval 0..3 inside a cell that can hold values below,  *)
(* inside and above it, among them values that alias an accepted one after truncation modulo 8. *)
EXTENDS FetchModel
MCVals == {-2, -1, 0, 1, 2, 3, 4, 5, 9, 10, 17}
ReadOnce == {1}
ReadAtEveryMention == {1, 2, 3}      \* D22
ReadAgainAtTheUse == {1, 3}          \* C17-m7
=============================================================================
