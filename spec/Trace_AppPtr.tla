--------------------------- MODULE Trace_AppPtr ---------------------------
(***************************************************************************)
(* Trace validation for C15: folds the Contract (AppPtrContract) over the  *)
(* events the harness recorded from the real app_pointer_map / app_pointer *)
(* objects.  Every event carries its result, so the fold is deterministic. *)
(* An event outside the Contract is recorded in `bad` and the rest of that *)
(* execution (up to the next "reset") is skipped; all other executions are *)
(* still checked.                                                          *)
(***************************************************************************)
EXTENDS AppPtrContract, TLC, Json, IOUtils

T == ndJsonDeserialize(IOEnv.TRACE)
N == Len(T)

VARIABLES st, l, bad, done

tvars == <<st, l, bad, done>>

NextReset(i) ==
  LET S == {j \in (i + 1)..N : T[j].e = "reset"}
  IN IF S = {} THEN N + 1 ELSE CHOOSE j \in S : \A k \in S : j <= k

ToSet(s) == {s[i] : i \in 1..Len(s)}

\* observed owner projection (tokens read through UNSAFE_sandboxed / is_unregistered)
OwnMatches(s2, ev) ==
  "own" \in DOMAIN ev => \A o \in DOMAIN s2.own : ev.own[o] = s2.own[o]

Accept(ev) == Allowed(st, ev) /\ LET s2 == Apply(st, ev) IN CInv(s2) /\ OwnMatches(s2, ev)

TInit == /\ st = CInit(1, {})
         /\ l = 1
         /\ bad = <<>>
         /\ done = FALSE

TNext ==
  \/ /\ l <= N
     /\ LET ev == T[l] IN
        IF ev.e = "reset"
          THEN /\ st' = CInit(ev.max, ToSet(ev.owners))
               /\ l' = l + 1
               /\ UNCHANGED <<bad, done>>
        ELSE IF ev.e = "skip"
          THEN /\ l' = l + 1
               /\ UNCHANGED <<st, bad, done>>
        ELSE IF Accept(ev)
          THEN /\ st' = Apply(st, ev)
               /\ l' = l + 1
               /\ UNCHANGED <<bad, done>>
        ELSE /\ bad' = Append(bad, l)
             /\ l' = NextReset(l)
             /\ UNCHANGED <<st, done>>
  \/ /\ l = N + 1 /\ ~done
     /\ done' = TRUE
     /\ PrintT(<<"RESULT", ToJson([bad |-> bad, n |-> N])>>)
     /\ UNCHANGED <<st, l, bad>>

TSpec == TInit /\ [][TNext]_tvars
=============================================================================
