SPECIFICATION Spec
CONSTANT Kind = "cbcall"
