---------------------------- MODULE Trace_Fetch ----------------------------
(* Oracle for the single-fetch events of harness/fetch_driver.cpp: constant-level *)
(* evaluation of Fetch.FetchAllowed on every recorded operation.                  *)
EXTENDS Fetch, Json, IOUtils
T == ndJsonDeserialize(IOEnv.TRACE)
VARIABLE x
Spec == x = 0 /\ [][x' = x]_x
Bad == {i \in 1..Len(T) : ~(T[i].e = "fetch" /\ FetchAllowed(T[i]))}
ASSUME PrintT(<<"RESULT", ToJson([bad |-> Bad, n |-> Len(T)])>>)
=============================================================================
