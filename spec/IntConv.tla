----------------------------- MODULE IntConv -----------------------------
(***************************************************************************)
(* Property C06: integers crossing the ABI boundary keep their value or    *)
(* the operation aborts.                                                   *)
(*                                                                         *)
(* Contract (two-sided, from the property text): converting value v of     *)
(* integer type `from` to integer type `to`                                *)
(*    - yields exactly v          when v is representable in `to`,         *)
(*    - aborts                    when it is not;                          *)
(* it never truncates, wraps or changes sign, and never aborts on a        *)
(* representable value.  A type is [b |-> bits, s |-> signed].             *)
(*                                                                         *)
(* Model: ImplConv transcribes detail::convert_type_fundamental            *)
(* (rlbox_conversion.hpp) branch by branch on a scaled family of types     *)
(* (1..6 bit wide), where TLC checks Model in Contract for EVERY ordered   *)
(* pair and EVERY source value.  The same Contract, over Wide values,      *)
(* judges the events recorded from the real headers (runs of consecutive   *)
(* source values with one outcome class).                                  *)
(***************************************************************************)
EXTENDS Wide, TLC, FiniteSets

(***************************************************************************)
(* Contract over wide values (used on recorded events)                     *)
(***************************************************************************)
\* ev: [from, to : [b, s], lo, hi : Wide, cls \in {"preserved", "abort", "changed"}]
\* a run [lo, hi] of consecutive source values that all had outcome class cls
ConvAllowed(ev) ==
  /\ Le(ev.lo, ev.hi)
  /\ InType(ev.lo, ev.from.b, ev.from.s) /\ InType(ev.hi, ev.from.b, ev.from.s)
  /\ CASE ev.cls = "preserved" ->
            \* representable values form an interval: both ends inside suffices
            InType(ev.lo, ev.to.b, ev.to.s) /\ InType(ev.hi, ev.to.b, ev.to.s)
       [] ev.cls = "abort" ->
            \* the whole run lies outside the target range
            Lt(ev.hi, TMin(ev.to.b, ev.to.s)) \/ Lt(TMax(ev.to.b, ev.to.s), ev.lo)
       [] OTHER -> FALSE          \* "changed": silent truncation / wrap / sign change

(***************************************************************************)
(* Scaled Contract and Model over plain integers (design check)            *)
(***************************************************************************)
Pow(j) == SmallPow2(j)
RMin(t) == IF t.s THEN 0 - Pow(t.b - 1) ELSE 0
RMax(t) == IF t.s THEN Pow(t.b - 1) - 1 ELSE Pow(t.b) - 1
Rng(t) == RMin(t)..RMax(t)

\* two's-complement reinterpretation of v in type t (what static_cast does)
Wrap(v, t) == LET m == v % Pow(t.b) IN IF t.s /\ m >= Pow(t.b - 1) THEN m - Pow(t.b) ELSE m

SAllowed(from, to, v, outcome) ==
  IF v \in Rng(to) THEN outcome = [k |-> "val", v |-> v] ELSE outcome = [k |-> "abort", v |-> 0]

Abort == [k |-> "abort", v |-> 0]
Val(v) == [k |-> "val", v |-> v]

\* convert_type_fundamental, integral branch (sizeof scaled to bits)
ImplConv(from, to, v) ==
  IF to.s = from.s /\ to.b >= from.b THEN Val(Wrap(v, to))
  ELSE IF ~to.s /\ ~from.s THEN
    IF v <= RMax(to) THEN Val(Wrap(v, to)) ELSE Abort
  ELSE IF to.s /\ from.s THEN
    IF v >= RMin(to) /\ v <= RMax(to) THEN Val(Wrap(v, to)) ELSE Abort
  ELSE IF ~to.s /\ from.s THEN
    IF to.b < from.b
      THEN (IF v >= 0 /\ v <= Wrap(RMax(to), from) THEN Val(Wrap(v, to)) ELSE Abort)
      ELSE (IF v >= 0 THEN Val(Wrap(v, to)) ELSE Abort)
  ELSE \* to signed, from unsigned
    IF to.b <= from.b
      THEN (IF v <= Wrap(RMax(to), from) THEN Val(Wrap(v, to)) ELSE Abort)
      ELSE Val(Wrap(v, to))

Family == [b : {1, 2, 3, 4, 6}, s : BOOLEAN] \ {[b |-> 1, s |-> TRUE]}

ModelInContract ==
  \A from \in Family, to \in Family : \A v \in Rng(from) : SAllowed(from, to, v, ImplConv(from, to, v))

\* lemma used by the run summaries: representable values are convex
Convex == \A t \in Family : \A a, b \in Rng(t), c \in RMin(t)..RMax(t) : (a <= c /\ c <= b) => c \in Rng(t)

\* boundary vectors for 64-bit sources: 2^k + d and -(2^k) + d
Vectors == {[k |-> k, d |-> d, neg |-> n] : k \in {0, 1, 7, 8, 15, 16, 31, 32, 33, 47, 62, 63, 64},
                                             d \in {-1, 0, 1}, n \in BOOLEAN}
=============================================================================
