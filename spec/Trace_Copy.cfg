SPECIFICATION Spec
CONSTANTS
  Variant = "single"
  N = 1
  MaxWrites = 0
  Vals = {0}
