----------------------------- MODULE Trace_Addr -----------------------------
(* Oracle for C05 / C17 / C10: evaluates the Addr Contracts on every recorded *)
(* event (single operations and run summaries) at constant level.             *)
EXTENDS Addr, Json, IOUtils
T == ndJsonDeserialize(IOEnv.TRACE)
VARIABLE x
Spec == x = 0 /\ [][x' = x]_x
Ok(ev) == CASE ev.e = "ptrop" -> PtrOpAllowed(ev)
            [] ev.e = "ptrrun" -> PtrRunAllowed(ev)
            [] ev.e = "idxrun" -> IndexRunAllowed(ev)
            [] ev.e = "row" -> RowAllowed(ev)
            [] ev.e = "bulk" -> RangeOpAllowed(ev)
            [] OTHER -> FALSE
CONSTANT OpenFindings     \* ids of the open entries of known_findings.json
\* Named deviations: what the code is known to do outside the Contract (DESIGN.md section 7).
\* D17: copy_and_verify_string measures the string with strlen before any range check, so an
\*      unterminated string that runs to the end of sandbox memory is read past the sandbox.
Deviation(ev) ==
  IF "D17" \in OpenFindings /\ ev.e = "bulk" /\ ev.op = "copy_and_verify_string" /\ ev.out = "fault"
     /\ ~AllLegal(ev) /\ ev.tcount = 0
    THEN "D17" ELSE ""
Known == {i \in 1..Len(T) : ~Ok(T[i]) /\ Deviation(T[i]) # ""}
Bad == {i \in 1..Len(T) : ~Ok(T[i]) /\ Deviation(T[i]) = ""}
ASSUME PrintT(<<"RESULT", ToJson([bad |-> Bad, known |-> {[i |-> i, id |-> Deviation(T[i])] : i \in Known}, n |-> Len(T)])>>)
=============================================================================
