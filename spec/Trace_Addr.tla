----------------------------- MODULE Trace_Addr -----------------------------
(* Oracle for C05 / C17 / C10: evaluates the Addr Contracts on every recorded *)
(* event (single operations and run summaries) at constant level.             *)
EXTENDS Addr, Json, IOUtils
T == ndJsonDeserialize(IOEnv.TRACE)
VARIABLE x
Spec == x = 0 /\ [][x' = x]_x
Ok(ev) == CASE ev.e = "ptrop" -> PtrOpAllowed(ev)
            [] ev.e = "ptrrun" -> PtrRunAllowed(ev)
            [] ev.e = "idxrun" -> IndexRunAllowed(ev)
            [] OTHER -> FALSE
Bad == {i \in 1..Len(T) : ~Ok(T[i])}
ASSUME PrintT(<<"RESULT", ToJson([bad |-> Bad, n |-> Len(T)])>>)
=============================================================================
