SPECIFICATION Spec
CONSTANTS Threads = {t1, t2} Sandboxes = {s1, s2} Scope = "process"
INVARIANTS AloneResults Exact
