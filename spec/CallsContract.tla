-------------------------- MODULE CallsContract --------------------------
(***************************************************************************)
(* Contract for boundary crossings (properties C12, C19 and the dispatch   *)
(* clauses of C11): nested invoke / callback / invoke chains.              *)
(*                                                                         *)
(* Observed events, in program order of ONE thread (all carry results):    *)
(*   reg / unreg        a callback got / lost an entry point of a sandbox  *)
(*   inv_begin          the application is about to invoke (node, poison)  *)
(*   hook               a transition notification (dir, kind, who, state)  *)
(*   guest_run          the sandboxed function body started (cur sandbox)  *)
(*   guest_throw        the sandboxed function body aborts                 *)
(*   guest_call         sandboxed code is about to call entry point e      *)
(*   cb_run             an application callback body started (fn, sbref)   *)
(*   cb_ret             the callback body ends: ok | poison | throw        *)
(*   guest_call_ret     sandboxed code got the result | trap | unwound     *)
(*   guest_ret          the sandboxed function body returns                *)
(*   inv_end            the invocation returned to the application         *)
(*   setstate           the application set a sandbox's transition state   *)
(*   tmpsbx             a callback body created + destroyed one more sandbox*)
(*   timing             the timing records collected since the last one    *)
(*                                                                         *)
(* Abstract state: entry[s][e] = function registered behind entry point e; *)
(* stack of open crossings; closed = crossings completed so far (for the   *)
(* timing records); unw = an abort is propagating.                         *)
(*                                                                         *)
(* C12 Dispatch: cb_run is allowed only for the function registered behind *)
(* the entry point called, with the sandbox of the innermost guest frame,  *)
(* exactly once per guest_call; guest_run sees its own sandbox as current. *)
(* C19 WellNested: a hook event is allowed only at its grammar position,   *)
(* with the kind / identity / state of the crossing on top of the stack;   *)
(* every crossing is closed exactly once, also when unwinding.             *)
(***************************************************************************)
EXTENDS Integers, Sequences, FiniteSets

CONSTANT Mode   \* "all" | "dispatch" (hook and timing events are ignored) | "hooks" (dispatch identity ignored)

Frame(k, s, node, e, fn, poison) ==
  [k |-> k, s |-> s, node |-> node, e |-> e, fn |-> fn, ran |-> FALSE, hook |-> "none", poison |-> poison,
   ret |-> "none"]

CInit(sandboxes, hooks, longfits, libs) ==
  [entry  |-> [s \in sandboxes |-> [x \in {} |-> ""]],
   stack  |-> <<>>,
   closed |-> [s \in sandboxes |-> <<>>],   \* completed crossings per sandbox (timing is per sandbox)
   unw    |-> FALSE,
   tstate |-> [s \in sandboxes |-> s],   \* current per-sandbox transition state (a label)
   libs   |-> libs,         \* library each sandbox instance was created from (0 = not tracked)
   hooks  |-> hooks,        \* are transition hooks compiled in?
   fits   |-> longfits]     \* does a 2^40 "poison" value fit the sandbox ABI's long?

Top(st) == st.stack[Len(st.stack)]
Pop(st) == SubSeq(st.stack, 1, Len(st.stack) - 1)
SetTop(st, f) == [st EXCEPT !.stack = Append(Pop(st), f)]
HooksOn(st) == st.hooks /\ Mode # "dispatch"
DispatchOn == Mode # "hooks"

\* has the bracket of frame f been closed (or is there nothing to close)?
HookClosed(st, f) == ~HooksOn(st) \/ f.hook = "closed"
HookOpen(st, f) == ~HooksOn(st) \/ f.hook = "open"

Registered(st, s, e) == e \in DOMAIN st.entry[s]

Allowed(st, ev) ==
  CASE ev.e = "reg" ->
         /\ Len(st.stack) = 0 \/ Top(st).k = "cb"
         \* a registration is refused only for a function that is registered already (the harness
         \* never exceeds the backend's number of entry points)
         /\ ("out" \in DOMAIN ev =>
               (\/ ev.out = "ok"
                \/ \E x \in DOMAIN st.entry[ev.s] : st.entry[ev.s][x] = ev.f
                \/ ("full" \in DOMAIN ev /\ ev.full)))
         \* ... and when every entry point is in use the registration IS refused
         /\ (("full" \in DOMAIN ev /\ ev.full) => ev.out = "abort")
    \* the harness occupies all but two entry points of the backend with callbacks nobody calls
    [] ev.e = "fill" -> ev.out = "ok"
    [] ev.e = "unreg" -> TRUE
    \* the sandbox object is destroyed and created again (owners of the old incarnation live on):
    \* no registration of the earlier incarnation is visible in the new one
    [] ev.e = "fnaddr" -> ev.out = "ok"
    [] ev.e = "recreate" -> Len(st.stack) = 0 /\ ev.out = "ok"
    \* ... and when those owners end, nothing of the new incarnation changes
    [] ev.e = "dropstale" -> ev.out = "ok"
    [] ev.e = "inv_begin" ->
         /\ ~st.unw
         /\ Len(st.stack) = 0 \/ (Top(st).k = "cb" /\ Top(st).ran /\ Top(st).ret = "none")
    [] ev.e = "hook" ->
         IF ~HooksOn(st) THEN TRUE
         ELSE /\ Len(st.stack) > 0
              /\ LET f == Top(st) IN
                 /\ ev.state = st.tstate[f.s]                    \* the CURRENT per-sandbox transition state
                 /\ ("ptrok" \in DOMAIN ev => ev.ptrok)          \* the function identity of an invocation
                 /\ CASE f.k = "inv" /\ ev.kind = "INVOKE" /\ ev.dir = "in" ->
                           f.hook = "none" /\ ~f.ran /\ ev.who = "tree_fn"
                      [] f.k = "inv" /\ ev.kind = "INVOKE" /\ ev.dir = "out" ->
                           f.hook = "open" /\ (f.ret # "none" \/ st.unw \/ (f.poison /\ ~st.fits))
                           /\ ev.who = "tree_fn"
                      [] f.k = "cb" /\ ev.kind = "CALLBACK" /\ ev.dir = "out" ->
                           f.hook = "none" /\ ~f.ran /\ ev.who = f.fn
                      [] f.k = "cb" /\ ev.kind = "CALLBACK" /\ ev.dir = "in" ->
                           f.hook = "open" /\ (f.ret # "none" \/ st.unw) /\ ev.who = f.fn
                      [] OTHER -> FALSE
    [] ev.e = "guest_run" ->
         /\ Len(st.stack) > 0 /\ Top(st).k = "inv"
         /\ LET f == Top(st) IN
            /\ ~f.ran /\ HookOpen(st, f) /\ ev.node = f.node
            /\ ~(f.poison /\ ~st.fits)            \* an unrepresentable argument never arrives
            /\ (DispatchOn => ev.cur = f.s)       \* the executing sandbox is this one
            /\ ((DispatchOn /\ "lib" \in DOMAIN ev /\ st.libs[f.s] # 0) => ev.lib = st.libs[f.s])
                                                  \* ... running the function of ITS library (C11)
            /\ ev.argok                           \* arguments arrived with their values
    [] ev.e = "setstate" ->
         \* the application changes the transition state of a sandbox (from a callback body)
         Len(st.stack) > 0 /\ Top(st).k = "cb" /\ Top(st).ran /\ ev.s \in DOMAIN st.tstate
    [] ev.e = "tmpsbx" ->
         \* the application creates and destroys one more sandbox of the same type (from a callback
         \* body): allowed there, and it changes nothing about the crossings in progress
         Len(st.stack) > 0 /\ Top(st).k = "cb" /\ Top(st).ran /\ ev.out \in {"ok", "abort"}
    [] ev.e = "guest_throw" ->
         Len(st.stack) > 0 /\ Top(st).k = "inv" /\ Top(st).ran /\ ~st.unw
    [] ev.e = "guest_call" ->
         Len(st.stack) > 0 /\ Top(st).k = "inv" /\ Top(st).ran /\ ~st.unw /\ Top(st).ret = "none"
    [] ev.e = "cb_run" ->
         /\ Len(st.stack) > 0 /\ Top(st).k = "cb"
         /\ LET f == Top(st) IN
            /\ ~f.ran /\ HookOpen(st, f) /\ f.fn # ""
            /\ ev.node = f.node
            /\ (DispatchOn => ev.fn = f.fn /\ ev.sbref = f.s)
    [] ev.e = "cb_ret" ->
         Len(st.stack) > 0 /\ Top(st).k = "cb" /\ Top(st).ran /\ Top(st).ret = "none" /\ ~st.unw
    [] ev.e = "guest_call_ret" ->
         /\ Len(st.stack) > 0 /\ Top(st).k = "cb"
         /\ LET f == Top(st) IN
            CASE ev.out = "trap" -> f.fn = "" /\ ~f.ran /\ f.hook = "none"
              [] ev.out = "ok" -> f.ran /\ f.ret = "ok" /\ HookClosed(st, f) /\ ~st.unw /\ ev.valok
              [] ev.out = "unwound" -> st.unw /\ HookClosed(st, f) /\ f.ran
              [] OTHER -> FALSE
    [] ev.e = "guest_ret" ->
         Len(st.stack) > 0 /\ Top(st).k = "inv" /\ Top(st).ran /\ ~st.unw /\ Top(st).ret = "none"
    [] ev.e = "inv_end" ->
         /\ Len(st.stack) > 0 /\ Top(st).k = "inv"
         /\ LET f == Top(st) IN
            /\ ev.node = f.node
            /\ (f.hook = "none" \/ HookClosed(st, f))
            /\ CASE ev.out = "ok" -> f.ran /\ f.ret = "ok" /\ ~st.unw /\ ev.valok /\ HookClosed(st, f)
                 [] ev.out = "abort" -> st.unw \/ (f.poison /\ ~st.fits /\ ~f.ran)
                 [] OTHER -> FALSE
    [] ev.e = "caught" ->
         \* the application catches, in a callback body, the abort of an invocation it made there:
         \* that invocation's crossing is closed, the callback goes on
         /\ st.unw /\ Len(st.stack) > 0
         /\ LET f == Top(st) IN f.k = "cb" /\ f.ran /\ f.ret = "none" /\ ev.node = f.node
    [] ev.e = "timing" ->
         \* exactly one record per completed crossing, inner before outer
         ~HooksOn(st) \/ (Len(st.stack) = 0 /\ \A s \in DOMAIN st.closed : ev.records[s] = st.closed[s])
    [] OTHER -> FALSE

Apply(st, ev) ==
  CASE ev.e = "reg" ->
         IF "out" \in DOMAIN ev /\ ev.out = "abort" THEN st      \* a refused registration changes nothing
         ELSE [st EXCEPT !.entry[ev.s] = [x \in (DOMAIN @) \cup {ev.slot} |->
                                            IF x = ev.slot THEN ev.f ELSE @[x]]]
    [] ev.e = "unreg" -> [st EXCEPT !.entry[ev.s] = [x \in {y \in DOMAIN @ : @[y] # ev.f} |-> @[x]]]
    [] ev.e = "recreate" -> [st EXCEPT !.entry[ev.s] = [x \in {} |-> ""]]
    [] ev.e = "inv_begin" ->
         [st EXCEPT !.stack = Append(@, Frame("inv", ev.s, ev.node, 0, "tree_fn", ev.poison))]
    [] ev.e = "hook" ->
         IF ~HooksOn(st) THEN st
         ELSE LET f == Top(st) IN
              IF f.hook = "none" THEN SetTop(st, [f EXCEPT !.hook = "open"])
              ELSE [SetTop(st, [f EXCEPT !.hook = "closed"])
                      EXCEPT !.closed[f.s] = Append(@, <<ev.kind, ev.who>>)]
    [] ev.e = "guest_run" -> SetTop(st, [Top(st) EXCEPT !.ran = TRUE])
    [] ev.e = "setstate" -> [st EXCEPT !.tstate[ev.s] = ev.state]
    [] ev.e = "guest_throw" -> [st EXCEPT !.unw = TRUE]
    [] ev.e = "guest_call" ->
         LET g == Top(st) IN
         [st EXCEPT !.stack = Append(@, Frame("cb", g.s, ev.node, ev.entry,
                                              IF Registered(st, g.s, ev.entry) THEN st.entry[g.s][ev.entry] ELSE "",
                                              FALSE))]
    [] ev.e = "cb_run" -> SetTop(st, [Top(st) EXCEPT !.ran = TRUE])
    [] ev.e = "cb_ret" ->
         IF ev.how = "ok" \/ (ev.how = "poison" /\ st.fits)
           THEN SetTop(st, [Top(st) EXCEPT !.ret = "ok"])
           ELSE [SetTop(st, [Top(st) EXCEPT !.ret = ev.how]) EXCEPT !.unw = TRUE]
    [] ev.e = "guest_call_ret" -> [st EXCEPT !.stack = Pop(st)]
    [] ev.e = "guest_ret" -> SetTop(st, [Top(st) EXCEPT !.ret = "ok"])
    [] ev.e = "inv_end" ->
         LET s2 == [st EXCEPT !.stack = Pop(st)] IN
         IF Len(s2.stack) = 0 THEN [s2 EXCEPT !.unw = FALSE]
         ELSE IF ev.out = "abort" THEN [s2 EXCEPT !.unw = TRUE] ELSE s2
    [] ev.e = "caught" -> [st EXCEPT !.unw = FALSE]
    [] ev.e = "timing" -> [st EXCEPT !.closed = [s \in DOMAIN @ |-> <<>>]]
    [] OTHER -> st

\* state invariant: brackets on the stack are opened from the outside in
CInv(st) ==
  \A i \in 1..Len(st.stack) : \A j \in 1..Len(st.stack) :
     (i < j /\ HooksOn(st) /\ st.stack[j].hook # "none") => st.stack[i].hook = "open"
=============================================================================
