SPECIFICATION LSpec
CONSTANT Kinds <- KindsDef
VIEW LView
INVARIANT LTypeOK
ACTION_CONSTRAINT LEmit
