----------------------------- MODULE MC_Addr -----------------------------
(* Design check of the pointer-arithmetic Model against the C05 Contract on a scaled    *)
(* address space (constant-level evaluation).                                           *)
EXTENDS Addr, Json
VARIABLE x
Spec == x = 0 /\ [][x' = x]_x
ASSUME PrintT(<<"CHECK", ToJson([PtrModelInContract |-> PtrModelInContract, PtrConvex |-> PtrConvex,
                                 noGuardCounterexamples |-> Cardinality(NoGuardCounterexamples),
                                 cases |-> 16 * 2 * 601 * 4])>>)
=============================================================================
