------------------------------- MODULE Abort -------------------------------
(***************************************************************************)
(* "Aborts" in the library's DEFAULT failure configuration.                *)
(*                                                                         *)
(* The properties say that an operation which would break them aborts.     *)
(* How an abort surfaces is a build-time choice of the embedder:           *)
(* RLBOX_USE_EXCEPTIONS (std::runtime_error), RLBOX_CUSTOM_ABORT (the      *)
(* embedder's handler), or neither - then the process must end.  All other *)
(* drivers use the first two (they have to observe many refusals in one    *)
(* process); harness/abort_driver.cpp is built with neither and runs one   *)
(* refused operation per forked child.  The Contract: a refused operation  *)
(* ends the child with SIGABRT - a refusal that prints a message and       *)
(* carries on is none - and the controls (operations every Contract        *)
(* accepts) end it normally.                                               *)
(***************************************************************************)
AbortProbeAllowed(ev) ==
  IF ev.expect = "abort" THEN ev.outcome = "SIGABRT" ELSE ev.outcome = "exit 0"
=============================================================================
