--------------------------- MODULE Trace_Threads ---------------------------
(* Trace validation for C18: folds the Threads Contract over the totally ordered  *)
(* step log written by the cooperative scheduler of harness/thr_driver.cpp.       *)
EXTENDS ThreadsContract, TLC, Json, IOUtils

T == ndJsonDeserialize(IOEnv.TRACE)
NT == Len(T)
VARIABLES st, l, bad, fin
tvars == <<st, l, bad, fin>>
ToSetQ(q) == {q[j] : j \in 1..Len(q)}
NextReset(j) ==
  LET S == {x \in (j + 1)..NT : T[x].e = "reset"}
  IN IF S = {} THEN NT + 1 ELSE CHOOSE x \in S : \A y \in S : x <= y

TInit == st = CInit({}) /\ l = 1 /\ bad = <<>> /\ fin = FALSE
TNext ==
  \/ /\ l <= NT
     /\ LET ev == T[l] IN
        IF ev.e = "reset"
          THEN st' = CInitR(ToSetQ(ev.threads), ev.allready) /\ l' = l + 1 /\ UNCHANGED <<bad, fin>>
        ELSE IF ev.e = "summary"
          THEN l' = l + 1 /\ UNCHANGED <<st, bad, fin>>
        ELSE IF ev.e \in {"lockprobe", "lockfree", "handoff"}
          THEN /\ l' = l + 1 /\ UNCHANGED <<st, fin>>
               /\ bad' = IF ProbeAllowed(ev) THEN bad ELSE Append(bad, l)
        ELSE IF ThAllowed(st, ev)
          THEN st' = ThApply(st, ev) /\ l' = l + 1 /\ UNCHANGED <<bad, fin>>
        ELSE bad' = Append(bad, l) /\ l' = NextReset(l) /\ UNCHANGED <<st, fin>>
  \/ /\ l = NT + 1 /\ ~fin
     /\ fin' = TRUE
     /\ PrintT(<<"RESULT", ToJson([bad |-> bad, n |-> NT])>>)
     /\ UNCHANGED <<st, l, bad>>
TSpec == TInit /\ [][TNext]_tvars
=============================================================================
