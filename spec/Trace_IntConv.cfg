SPECIFICATION Spec
