------------------------------- MODULE Casts -------------------------------
(***************************************************************************)
(* Property C20: opaque wrappers and sandbox casts preserve bits,          *)
(* designation and taint.  The reference for a cast is the corresponding   *)
(* C++ cast on the unwrapped value, evaluated by the harness next to the   *)
(* sandbox cast; pointers are recorded as offsets in the sandbox region    *)
(* (-1 = null), so "designates the same sandbox address" is equality.      *)
(***************************************************************************)
EXTENDS Wide

\* to_opaque / from_opaque: identical object representation and value
OpaqueAllowed(ev) == ev.same_bytes /\ Eq(ev.back, ev.in)

\* sandbox_static_cast / _reinterpret_cast / _const_cast on tainted or tainted_volatile
CastAllowed(ev) == ev.out = "ok" /\ Eq(ev.wrapped, ev.plain)

\* an opaque value crossing the boundary behaves exactly like the tainted value it came from:
\* prev is the same call made with the tainted form
BoundaryAllowed(prev, ev) ==
  /\ prev.what = ev.what /\ prev.form = "tainted" /\ Eq(prev.in, ev.in)
  /\ prev.out = ev.out /\ Eq(prev.guest_saw, ev.guest_saw)

\* a pointer returned by a callback (declared with either wrapper form) reaches the guest as the
\* representation of the address the wrapper designated (null: 0)
CbPtrAllowed(ev) == ev.out = "ok" /\ Eq(ev.guest_saw, ev.want)

\* compile-time side of the same sentence: a program that differs from an accepted one only in
\* passing / returning the opaque form of the same values is accepted too (and vice versa)
FormPairAllowed(ev) == ev.tainted = ev.opaque
=============================================================================
