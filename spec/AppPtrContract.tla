-------------------------- MODULE AppPtrContract --------------------------
(***************************************************************************)
(* Contract of property C15 (app-pointer tokens): what the property allows, *)
(* written as Allowed(st, ev) / Apply(st, ev) over the abstract state       *)
(*   st = [max  : token limit,                                              *)
(*         live : token -> pointer id,                                      *)
(*         own  : owner -> -1 (no object) | 0 (empty object) | token]       *)
(* where ev is one observed API call INCLUDING its result.  The Contract is *)
(* non-deterministic in the token a registration returns.  Used by the     *)
(* Model check (AppPtr.tla, Model => Contract) and by trace validation      *)
(* (Trace_AppPtr.tla) of what the real headers did.                         *)
(***************************************************************************)
EXTENDS Integers, FiniteSets, Sequences

None == -1   \* no owner object in that slot

Tokens(st) == 1..st.max
Owners_(st) == DOMAIN st.own

(***************************************************************************)
(* Contract                                                                *)
(***************************************************************************)
EmptyFn == [x \in {} |-> 0]
CInit(max, owners) == [max |-> max, live |-> EmptyFn, own |-> [o \in owners |-> None]]

Held(st) == {st.own[o] : o \in {x \in Owners_(st) : st.own[x] \notin {None, 0}}}

Without(f, t) == [x \in (DOMAIN f) \ {t} |-> f[x]]

With(f, t, p) == [x \in (DOMAIN f) \cup {t} |-> IF x = t THEN p ELSE f[x]]

\* ev.e in: get, remove, lookup (map level); oget, ounreg, odestroy, omovec, omovea,
\* olookup, lookupt (owner level).  ev.out in {"ok","abort"}.
Allowed(st, ev) ==
  CASE ev.e = "get" ->
         \/ ev.out = "ok" /\ ev.t \in Tokens(st) /\ ev.t \notin DOMAIN st.live
         \/ ev.out = "abort" /\ DOMAIN st.live = Tokens(st)
    [] ev.e = "remove" ->
         \/ ev.out = "ok" /\ ev.t \in DOMAIN st.live
         \/ ev.out = "abort" /\ ev.t \notin DOMAIN st.live
    [] ev.e \in {"lookup", "lookupt"} ->
         \/ ev.out = "ok" /\ ev.t \in DOMAIN st.live /\ ev.p = st.live[ev.t]
         \/ ev.out = "abort" /\ ev.t \notin DOMAIN st.live
    [] ev.e = "oget" ->
         /\ st.own[ev.o] = None
         /\ \/ ev.out = "ok" /\ ev.t \in Tokens(st) /\ ev.t \notin DOMAIN st.live
            \/ ev.out = "abort" /\ DOMAIN st.live = Tokens(st)
    [] ev.e \in {"ounreg", "odestroy"} ->
         st.own[ev.o] # None /\ ev.out = "ok"
    [] ev.e = "omovec" ->
         st.own[ev.o] # None /\ st.own[ev.o2] = None /\ ev.out = "ok"
    [] ev.e = "omovea" ->
         st.own[ev.o] # None /\ st.own[ev.o2] # None /\ ev.out = "ok"
    \* the token presented to ANOTHER live sandbox of the same type, which has registered nothing:
    \* tokens are per sandbox
    [] ev.e = "xlookup" -> ev.out = "abort"
    \* an owner whose scope was left by an exception (destructor run during stack unwinding) has
    \* released its token like any other destroyed owner: looking the token up aborts
    [] ev.e = "unwound" -> ev.lookup = "abort" \/ ev.t \in DOMAIN st.live
    \* destroy_sandbox + create_sandbox with owners alive: neither "its owner unregisters" nor "is
    \* destroyed" - every token stays issued, taken and resolvable (Apply leaves the state alone)
    [] ev.e = "sbxcycle" -> ev.out \in {"ok", "abort"}   \* (refusing is inside the Contract: the history ends there)
    [] ev.e = "olookup" ->
         /\ st.own[ev.o] \notin {None, 0}
         /\ ev.out = "ok" /\ ev.p = st.live[st.own[ev.o]] /\ ev.t = st.own[ev.o]
    [] OTHER -> FALSE

Apply(st, ev) ==
  CASE ev.e = "get" /\ ev.out = "ok" -> [st EXCEPT !.live = With(@, ev.t, ev.p)]
    [] ev.e = "remove" /\ ev.out = "ok" -> [st EXCEPT !.live = Without(@, ev.t)]
    [] ev.e = "oget" /\ ev.out = "ok" ->
         [st EXCEPT !.live = With(@, ev.t, ev.p), !.own[ev.o] = ev.t]
    [] ev.e = "ounreg" ->
         IF st.own[ev.o] = 0 THEN st
         ELSE [st EXCEPT !.live = Without(@, st.own[ev.o]), !.own[ev.o] = 0]
    [] ev.e = "odestroy" ->
         IF st.own[ev.o] = 0 THEN [st EXCEPT !.own[ev.o] = None]
         ELSE [st EXCEPT !.live = Without(@, st.own[ev.o]), !.own[ev.o] = None]
    [] ev.e = "omovec" ->
         [st EXCEPT !.own = [@ EXCEPT ![ev.o2] = st.own[ev.o], ![ev.o] = 0]]
    [] ev.e = "omovea" ->
         IF ev.o = ev.o2 THEN st
         ELSE [st EXCEPT !.live = IF st.own[ev.o2] = 0 THEN @ ELSE Without(@, st.own[ev.o2]),
                         !.own = [@ EXCEPT ![ev.o2] = st.own[ev.o], ![ev.o] = 0]]
    [] OTHER -> st

\* What every Contract state guarantees (checked by TLC on the abstraction of every
\* reachable Model state, and by trace validation on every recorded state).
CInv(st) ==
  /\ DOMAIN st.live \subseteq Tokens(st)                                   \* non-zero, bounded
  /\ \A o1, o2 \in Owners_(st) :                                            \* unique
       (o1 # o2 /\ st.own[o1] \notin {None, 0}) => st.own[o1] # st.own[o2]
  /\ Held(st) \subseteq DOMAIN st.live                                  \* resolvable
  /\ (Owners_(st) # {} => DOMAIN st.live = Held(st))                         \* released when owner ends

=============================================================================
