SPECIFICATION LSpec
CONSTANT Kinds = {}
