----------------------------- MODULE FetchModel -----------------------------
(***************************************************************************)
(* Design level of the single-fetch rule (Fetch.tla is its Contract on     *)
(* recorded operations).  A checked use of an operand that lives in sandbox *)
(* memory - index an array, offset a pointer, narrow an integer - is three  *)
(* steps of the application: compare with the lower bound, compare with the *)
(* upper bound, use the value.  The sandbox (Adversary) may rewrite the     *)
(* cell between any two of them.  FreshReads says which steps load the cell *)
(* again instead of using the local copy made by step 1:                    *)
(*   {1}      the code as it is (operator[], BinaryOpValAndPtr, and         *)
(*            convert_type_fundamental since fix d16dcab);                  *)
(*   {1,2,3}  convert_type_fundamental before that fix (D22: every mention  *)
(*            of the volatile source was a load);                           *)
(*   {1,3}    a re-read at the use (seeded change C17-m7).                  *)
(* Explained is the Contract: when the operation is over, ONE value the     *)
(* cell held explains the outcome.  TLC checks that {1} satisfies it under  *)
(* every adversary schedule, and exhibits the violating schedule for the    *)
(* other two (the checks expect exactly that).                              *)
(***************************************************************************)
EXTENDS Integers, FiniteSets, TLC

CONSTANTS Vals,        \* values the cell can hold
          Lo, Hi,      \* the accepted interval
          Mod,         \* the use truncates modulo Mod (a narrowing cast); 0 = no truncation
          FreshReads   \* subset of {1,2,3}, 1 \in FreshReads

VARIABLES cell, held, pc, x, out, res
vars == <<cell, held, pc, x, out, res>>

Trunc(v) == IF Mod = 0 THEN v ELSE v % Mod
InRange(v) == Lo <= v /\ v <= Hi
Load(step) == IF step \in FreshReads THEN cell ELSE x     \* value the step works on

Init == /\ cell \in Vals /\ held = {cell}
        /\ pc = 1 /\ x = 0 /\ out = "running" /\ res = 0

Adversary == /\ pc \in 1..3
             /\ \E v \in Vals : cell' = v /\ held' = held \cup {v}
             /\ UNCHANGED <<pc, x, out, res>>

CheckLower == /\ pc = 1
              /\ x' = cell                                   \* step 1 always loads
              /\ IF cell >= Lo THEN pc' = 2 /\ out' = out ELSE pc' = 4 /\ out' = "abort"
              /\ UNCHANGED <<cell, held, res>>
CheckUpper == /\ pc = 2
              /\ LET v == Load(2) IN
                 /\ x' = v
                 /\ IF v <= Hi THEN pc' = 3 /\ out' = out ELSE pc' = 4 /\ out' = "abort"
              /\ UNCHANGED <<cell, held, res>>
Use == /\ pc = 3
       /\ res' = Trunc(Load(3)) /\ out' = "ok" /\ pc' = 4
       /\ UNCHANGED <<cell, held, x>>

Next == Adversary \/ CheckLower \/ CheckUpper \/ Use
Spec == Init /\ [][Next]_vars

TypeOK == pc \in 1..4 /\ held \subseteq Vals /\ cell \in held

\* the Contract of Fetch.tla, on the Model's own history of the cell
Explained ==
  pc = 4 =>
    IF out = "abort" THEN \E v \in held : ~InRange(v)
                     ELSE \E v \in held : InRange(v) /\ res = v
=============================================================================
