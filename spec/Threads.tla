------------------------------ MODULE Threads ------------------------------
(***************************************************************************)
(* Property C18: distinct sandboxes can be used from distinct threads      *)
(* without interference.                                                   *)
(*                                                                         *)
(* Contract (ThAllowed / ThApply) over the totally ordered sequence of     *)
(* synchronisation events of an execution (one event per step of one       *)
(* thread; the harness runs exactly one thread at a time, so the order is  *)
(* the real order):                                                        *)
(*   lock discipline   acquisitions respect reader/writer exclusion;       *)
(*   guarded accesses  the live list is pushed / erased only by the holder *)
(*                     of the unique lock and visited only under a shared  *)
(*                     lock - there is no unguarded access to shared state;*)
(*   no racy read      a list element is only ever visited while its       *)
(*                     sandbox is fully created and not yet being torn     *)
(*                     down (pushed after backend creation, erased before  *)
(*                     backend destruction);                               *)
(*   isolation         every thread observes what it would observe alone:  *)
(*                     example lookups in its own region find its own      *)
(*                     sandbox, its callbacks get its own sandbox, its     *)
(*                     invocations run its own library's function.         *)
(*                                                                         *)
(* Model: each thread runs create; lookup; invoke (with a yield inside the *)
(* guest and a callback); lookup; destroy on its own sandbox, at the       *)
(* granularity of the code's synchronisation points (transcribed from      *)
(* rlbox_sandbox.hpp: create_sandbox, destroy_sandbox,                     *)
(* find_sandbox_from_example, and the backend's thread-local "current      *)
(* sandbox").  TLC explores all interleavings, checks Model => Contract    *)
(* and emits every edge as a schedule step.                                *)
(***************************************************************************)
EXTENDS ThreadsContract, TLC, Json

(***************************************************************************)
(* Model                                                                   *)
(***************************************************************************)
CONSTANTS Threads, EmitEdges

VARIABLES pc,      \* per thread: <<operation index, step label>>
          lockw, lockr, lst,   \* list as a sequence (push_back / erase)
          ready, tls, scan,    \* scan[t]: position in the list while looking up
          found,               \* result of the running lookup
          cst, okv, last       \* Contract state, ghost: step allowed, ghost: emitted event

mvars == <<pc, lockw, lockr, lst, ready, tls, scan, found>>
MView == mvars

Program == <<"create", "lookup", "invoke", "lookup", "destroy">>

MInit ==
  /\ pc = [t \in Threads |-> <<1, "begin">>]
  /\ lockw = "" /\ lockr = {} /\ lst = <<>>
  /\ ready = [t \in Threads |-> FALSE]
  /\ tls = [t \in Threads |-> ""]
  /\ scan = [t \in Threads |-> 0]
  /\ found = [t \in Threads |-> ""]
  /\ cst = CInit(Threads)
  /\ okv = TRUE
  /\ last = [t |-> "", k |-> "init"]

Op(t) == Program[pc[t][1]]
Lbl(t) == pc[t][2]
Goto(t, l) == pc' = [pc EXCEPT ![t] = <<pc[t][1], l>>]
NextOp(t) == pc' = [pc EXCEPT ![t] = <<pc[t][1] + 1, "begin">>]
Emit(ev) == /\ last' = ev
            /\ okv' = ThAllowed(cst, ev)
            /\ cst' = ThApply(cst, ev)
E(t, k) == [t |-> t, k |-> k, s |-> t]
InList(s) == \E j \in 1..Len(lst) : lst[j] = s
Remove(q, s) == SelectSeq(q, LAMBDA x : x # s)

Running(t) == pc[t][1] <= Len(Program)

Step(t) ==
  /\ Running(t)
  /\ CASE Lbl(t) = "begin" ->
            /\ Goto(t, CASE Op(t) = "create" -> "backend"
                         [] Op(t) = "lookup" -> "acq"
                         [] Op(t) = "destroy" -> "acq"
                         [] OTHER -> "guest")
            /\ tls' = IF Op(t) = "invoke" THEN [tls EXCEPT ![t] = t] ELSE tls   \* backend sets the current sandbox
            /\ UNCHANGED <<lockw, lockr, lst, ready, scan, found>>
            /\ Emit([t |-> t, k |-> "begin", s |-> t, op |-> Op(t)])
       \* ---- create_sandbox: backend creation, publish, push under the unique lock
       [] Op(t) = "create" /\ Lbl(t) = "backend" ->
            /\ ready' = [ready EXCEPT ![t] = TRUE]
            /\ Goto(t, "acq")
            /\ UNCHANGED <<lockw, lockr, lst, tls, scan, found>>
            /\ Emit(E(t, "backend_created"))
       [] Op(t) = "create" /\ Lbl(t) = "acq" ->
            /\ lockw = "" /\ lockr = {}
            /\ lockw' = t
            /\ Goto(t, "push")
            /\ UNCHANGED <<lockr, lst, ready, tls, scan, found>>
            /\ Emit(E(t, "acq_unique"))
       [] Op(t) = "create" /\ Lbl(t) = "push" ->
            /\ lst' = Append(lst, t)
            /\ Goto(t, "rel")
            /\ UNCHANGED <<lockw, lockr, ready, tls, scan, found>>
            /\ Emit(E(t, "push"))
       [] Op(t) \in {"create", "destroy"} /\ Lbl(t) = "rel" ->
            /\ lockw' = ""
            /\ Goto(t, IF Op(t) = "create" THEN "end" ELSE "backend")
            /\ UNCHANGED <<lockr, lst, ready, tls, scan, found>>
            /\ Emit(E(t, "rel_unique"))
       \* ---- destroy_sandbox: erase under the unique lock, then backend destruction
       [] Op(t) = "destroy" /\ Lbl(t) = "acq" ->
            /\ lockw = "" /\ lockr = {}
            /\ lockw' = t
            /\ Goto(t, "erase")
            /\ UNCHANGED <<lockr, lst, ready, tls, scan, found>>
            /\ Emit(E(t, "acq_unique"))
       [] Op(t) = "destroy" /\ Lbl(t) = "erase" ->
            /\ lst' = Remove(lst, t)
            /\ Goto(t, "rel")
            /\ UNCHANGED <<lockw, lockr, ready, tls, scan, found>>
            /\ Emit(E(t, "erase"))
       [] Op(t) = "destroy" /\ Lbl(t) = "backend" ->
            /\ ready' = [ready EXCEPT ![t] = FALSE]
            /\ Goto(t, "end")
            /\ UNCHANGED <<lockw, lockr, lst, tls, scan, found>>
            /\ Emit(E(t, "backend_destroying"))
       \* ---- find_sandbox_from_example under the shared lock
       [] Op(t) = "lookup" /\ Lbl(t) = "acq" ->
            /\ lockw = ""
            /\ lockr' = lockr \cup {t}
            /\ scan' = [scan EXCEPT ![t] = 1]
            /\ found' = [found EXCEPT ![t] = ""]
            /\ Goto(t, "visit")
            /\ UNCHANGED <<lockw, lst, ready, tls>>
            /\ Emit(E(t, "acq_shared"))
       [] Op(t) = "lookup" /\ Lbl(t) = "visit" ->
            IF scan[t] <= Len(lst) /\ found[t] = ""
              THEN /\ found' = [found EXCEPT ![t] = IF lst[scan[t]] = t THEN t ELSE ""]
                   /\ scan' = [scan EXCEPT ![t] = @ + 1]
                   /\ Goto(t, "visit")
                   /\ UNCHANGED <<lockw, lockr, lst, ready, tls>>
                   /\ Emit([t |-> t, k |-> "visit", s |-> lst[scan[t]]])
              ELSE /\ lockr' = lockr \ {t}
                   /\ Goto(t, "end")
                   /\ UNCHANGED <<lockw, lst, ready, tls, scan, found>>
                   /\ Emit(E(t, "rel_shared"))
       \* ---- invoke with a yield inside the guest and one callback
       [] Op(t) = "invoke" /\ Lbl(t) = "guest" ->
            /\ Goto(t, "cb")
            /\ UNCHANGED <<lockw, lockr, lst, ready, tls, scan, found>>
            /\ Emit([t |-> t, k |-> "guest", s |-> t, cur |-> tls[t]])
       [] Op(t) = "invoke" /\ Lbl(t) = "cb" ->
            /\ Goto(t, "end")
            /\ UNCHANGED <<lockw, lockr, lst, ready, tls, scan, found>>
            /\ Emit([t |-> t, k |-> "cb", s |-> t, sbref |-> tls[t]])
       [] Lbl(t) = "end" ->
            /\ NextOp(t)
            /\ tls' = IF Op(t) = "invoke" THEN [tls EXCEPT ![t] = ""] ELSE tls
            /\ UNCHANGED <<lockw, lockr, lst, ready, scan, found>>
            /\ Emit([t |-> t, k |-> "end", s |-> t, op |-> Op(t),
                     res |-> CASE Op(t) = "lookup" -> found[t] [] Op(t) = "invoke" -> t [] OTHER -> "ok"])

MNext == \E t \in Threads : Step(t)
MSpec == MInit /\ [][MNext]_<<mvars, cst, okv, last>>

(***************************************************************************)
(* Checked by TLC                                                          *)
(***************************************************************************)
StepOK == okv                                         \* Model => Contract at every step
Exclusion == (lockw # "" => lockr = {}) /\ (lockw = "" \/ lockw \in Threads)
NoRacyRead == \A t \in Threads : (Running(t) /\ Op(t) = "lookup" /\ Lbl(t) = "visit" /\ scan[t] <= Len(lst) /\ found[t] = "")
                                    => ready[lst[scan[t]]]
ListExact == \A t \in Threads : InList(t) => ready[t]
Refines == [][okv']_<<mvars, cst, okv, last>>

Emitter == EmitEdges => PrintT(<<"EDGE", ToJson([src |-> [pc |-> pc, w |-> lockw, r |-> lockr, l |-> lst, rd |-> ready,
                                                          tl |-> tls, sc |-> scan, f |-> found],
                                                 dst |-> [pc |-> pc', w |-> lockw', r |-> lockr', l |-> lst', rd |-> ready',
                                                          tl |-> tls', sc |-> scan', f |-> found'],
                                                 ev |-> last'])>>)
=============================================================================
