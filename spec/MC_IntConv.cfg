SPECIFICATION Spec
