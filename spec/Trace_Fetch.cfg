SPECIFICATION Spec
CONSTANT A = 8
