--------------------------- MODULE SbxContract ---------------------------
(***************************************************************************)
(* Contract for the stateful part of RLBox (properties C13, C14 and the    *)
(* per-instance / per-incarnation clauses of C11): sandbox lifecycle, the  *)
(* live-sandbox registry as observed through example-based translation,    *)
(* callback registrations and their owner objects, symbol lookup.          *)
(*                                                                         *)
(* The Contract is a relation over an abstract state and ONE observed API  *)
(* call including its result:  Allowed(st, ev)  and  Apply(st, ev).        *)
(*                                                                         *)
(*  st.cfg.slots   : entry points the backend offers per sandbox            *)
(*  st.status[s]   : "nc" not created | "cr" created | "failed" (a create   *)
(*                   attempt failed; the object is not created)             *)
(*  st.inc[s]      : incarnation number = successful creates so far (ghost) *)
(*  st.lib[s]      : library the current incarnation was created from       *)
(*  st.own[o]      : owner object slot: [k: "none"|"empty"|"live", sb, fn,  *)
(*                   inc]  (inc = incarnation the registration was made in) *)
(***************************************************************************)
EXTENDS Integers, FiniteSets, Sequences

NoOwner == [k |-> "none", sb |-> "", fn |-> "", inc |-> 0]
EmptyOwner == [k |-> "empty", sb |-> "", fn |-> "", inc |-> 0]
LiveOwner(s, f, i) == [k |-> "live", sb |-> s, fn |-> f, inc |-> i]

CInit(sandboxes, owners, slots) ==
  [slots  |-> slots,
   status |-> [s \in sandboxes |-> "nc"],
   inc    |-> [s \in sandboxes |-> 0],
   lib    |-> [s \in sandboxes |-> 0],
   own    |-> [o \in owners |-> NoOwner]]

Sandboxes(st) == DOMAIN st.status
OwnersOf(st) == DOMAIN st.own

\* Is owner record r a registration of the CURRENT incarnation of a created sandbox?
Current(st, r) == r.k = "live" /\ st.status[r.sb] = "cr" /\ st.inc[r.sb] = r.inc

\* The functions that must be reachable from sandbox s as callbacks (C13)
Registered(st, s) ==
  {st.own[o].fn : o \in {x \in OwnersOf(st) : Current(st, st.own[x]) /\ st.own[x].sb = s}}

ToSet(q) == {q[i] : i \in 1..Len(q)}
NoDup(q) == \A i, j \in 1..Len(q) : i # j => q[i] # q[j]

Release(st, o) == [st EXCEPT !.own[o] = EmptyOwner]

(***************************************************************************)
(* Allowed(st, ev): is the observed call + result inside the Contract?     *)
(***************************************************************************)
Allowed(st, ev) ==
  CASE ev.e = "create" ->
         \* succeeds only on a sandbox that is not created; any other order aborts
         CASE st.status[ev.s] = "cr" -> ev.out = "abort"
           [] st.status[ev.s] = "nc" -> ev.out = (IF ev.fail THEN "false" ELSE "ok")
           [] OTHER -> ev.out \in {"abort", "ok", "false"}   \* after a failed create
    [] ev.e = "destroy" ->
         IF st.status[ev.s] = "cr" THEN ev.out = "ok" ELSE ev.out = "abort"
    [] ev.e = "malloc" ->
         \* in the window: a pointer inside the region, or null; outside: null
         IF st.status[ev.s] = "cr" THEN ev.out \in {"in", "null"} ELSE ev.out = "null"
    \* outside the create..destroy window a free is ignored: it never reaches the backend's allocator
    [] ev.e = "free" -> ev.out = "ok" /\ (("reached" \in DOMAIN ev /\ ~ev.live) => ~ev.reached)
    [] ev.e = "register" ->
         /\ st.own[ev.o].k = "none"
         /\ IF st.status[ev.s] # "cr" THEN ev.out = "abort"
            ELSE IF ev.f \in Registered(st, ev.s) THEN ev.out = "abort"
            ELSE IF Cardinality(Registered(st, ev.s)) >= st.slots
                   THEN ev.out \in {"abort", "refused"}    \* never a live owner w/o entry
            ELSE ev.out = "ok"
    [] ev.e \in {"unregister", "odestroy"} ->
         st.own[ev.o].k # "none" /\ ev.out = "ok"
    [] ev.e = "omovec" ->
         st.own[ev.o].k # "none" /\ st.own[ev.o2].k = "none" /\ ev.o # ev.o2 /\ ev.out = "ok"
    [] ev.e = "omovea" ->
         st.own[ev.o].k # "none" /\ st.own[ev.o2].k # "none" /\ ev.out = "ok"
    [] ev.e = "probe" ->
         \* the guest tries every entry point it could ever have been given
         /\ st.status[ev.s] = "cr"
         /\ ev.out = "ok"
         \* (a function may be reached through several stale entry points of a native
         \*  backend; what the property fixes is the SET of reachable functions)
         /\ ToSet(ev.ran) = Registered(st, ev.s)
         /\ \A i \in 1..Len(ev.sbrefs) : ev.sbrefs[i] = ev.s
    [] ev.e = "xlate" ->
         \* example-based translation with an address of incarnation ev.k of sandbox ev.s
         IF st.status[ev.s] = "cr" /\ st.inc[ev.s] = ev.k
           THEN ev.out = "ok" /\ ev.found = ev.s
           ELSE ev.out = "abort"
    [] ev.e = "ptrrt" ->
         \* storing / loading pointers through sandbox memory of a live sandbox translates
         \* relative to THAT sandbox, whatever else is on the live list (C04)
         st.status[ev.s] = "cr" /\ ev.out = "ok"
    [] ev.e = "invoke" ->
         \* by-name invocation runs, exactly once, the function of that name in the
         \* library of the current incarnation; a name the library does not export aborts
         \* (every time: a failed lookup leaves nothing behind) and nothing runs
         /\ st.status[ev.s] = "cr"
         /\ IF ev.name = "nope" THEN ev.out = "abort" /\ ev.count = 0
            ELSE ev.out = "ok" /\ ev.ranlib = st.lib[ev.s] /\ ev.ranfn = ev.name /\ ev.count = 1
    [] ev.e = "fnaddr" ->
         \* the tainted address of a sandbox function is the backend's representation
         /\ st.status[ev.s] = "cr"
         /\ ev.out = "ok" /\ ev.idx = ev.want /\ ev.idx # 0
    [] OTHER -> FALSE

Apply(st, ev) ==
  CASE ev.e = "create" /\ ev.out = "ok" ->
         [st EXCEPT !.status[ev.s] = "cr", !.inc[ev.s] = @ + 1, !.lib[ev.s] = ev.lib]
    [] ev.e = "create" /\ ev.out = "false" -> [st EXCEPT !.status[ev.s] = "failed"]
    [] ev.e = "destroy" /\ ev.out = "ok" -> [st EXCEPT !.status[ev.s] = "nc"]
    [] ev.e = "register" /\ ev.out = "ok" ->
         [st EXCEPT !.own[ev.o] = LiveOwner(ev.s, ev.f, st.inc[ev.s])]
    [] ev.e = "register" /\ ev.out = "refused" -> [st EXCEPT !.own[ev.o] = EmptyOwner]
    [] ev.e = "unregister" -> Release(st, ev.o)
    [] ev.e = "odestroy" -> [st EXCEPT !.own[ev.o] = NoOwner]
    [] ev.e = "omovec" -> [st EXCEPT !.own[ev.o2] = st.own[ev.o], !.own[ev.o] = EmptyOwner]
    [] ev.e = "omovea" ->
         IF ev.o = ev.o2 THEN st
         ELSE [st EXCEPT !.own[ev.o2] = st.own[ev.o], !.own[ev.o] = EmptyOwner]
    [] OTHER -> st

(***************************************************************************)
(* Observed projection after the call (public observers only):             *)
(*   ev.own[o] = -1 no object | 0 is_unregistered() | 1 registered          *)
(* An owner whose sandbox was destroyed still reports "registered"; that   *)
(* is not observable misbehaviour, so only none/empty/live is compared.    *)
(***************************************************************************)
OwnCode(r) == IF r.k = "none" THEN -1 ELSE IF r.k = "empty" THEN 0 ELSE 1
\* ev.listed[s] = entries for object s on the process-wide list of live sandboxes (pushes
\* minus erases reported from inside the guarded scopes): the registry is exact
ProjMatches(st, ev) ==
  /\ "own" \in DOMAIN ev => \A o \in OwnersOf(st) : ev.own[o] = OwnCode(st.own[o])
  \* an owner that reports is_unregistered() is inert: it hands null (0) to the sandbox, not the
  \* entry point it had (ev.stale[o] = 1: unregistered and still carrying a representation)
  /\ "stale" \in DOMAIN ev => \A o \in OwnersOf(st) : ev.stale[o] = 0
  /\ "listed" \in DOMAIN ev =>
        \A s \in Sandboxes(st) : ev.listed[s] = (IF st.status[s] = "cr" THEN 1 ELSE 0)

\* Invariants of every Contract state
CInv(st) ==
  /\ \A s \in Sandboxes(st) : Cardinality(Registered(st, s)) <= st.slots
  /\ \A o1, o2 \in OwnersOf(st) :      \* exactly one owner per registration
       (o1 # o2 /\ Current(st, st.own[o1]) /\ Current(st, st.own[o2]) /\
        st.own[o1].sb = st.own[o2].sb) => st.own[o1].fn # st.own[o2].fn
=============================================================================
