SPECIFICATION Spec
