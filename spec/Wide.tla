------------------------------- MODULE Wide -------------------------------
(***************************************************************************)
(* Exact integers beyond TLC's 32-bit range.  A wide value is a record     *)
(*    [n |-> 0 | 1 (negative), d |-> little-endian base-256 digits]         *)
(* normalised: no most-significant zero digits, zero = [n |-> 0, d |-> <<>>].*)
(* The harness logs every value that may exceed 31 bits in this form       *)
(* (harness/trace.hpp, tr::Ev::wide), so TLC never sees a wrapped integer. *)
(***************************************************************************)
EXTENDS Integers, Sequences

WZero == [n |-> 0, d |-> <<>>]

IsNeg(a) == a.n = 1 /\ a.d # <<>>
IsZero(a) == a.d = <<>>

\* magnitude comparison: -1, 0, 1
RECURSIVE MagCmpFrom(_, _, _)
MagCmpFrom(x, y, i) ==      \* x, y same length, compare from digit i downwards
  IF i = 0 THEN 0
  ELSE IF x[i] < y[i] THEN -1 ELSE IF x[i] > y[i] THEN 1 ELSE MagCmpFrom(x, y, i - 1)

MagCmp(x, y) ==
  IF Len(x) < Len(y) THEN -1 ELSE IF Len(x) > Len(y) THEN 1 ELSE MagCmpFrom(x, y, Len(x))

Cmp(a, b) ==
  CASE IsNeg(a) /\ ~IsNeg(b) -> -1
    [] ~IsNeg(a) /\ IsNeg(b) -> 1
    [] ~IsNeg(a) /\ ~IsNeg(b) -> MagCmp(a.d, b.d)
    [] OTHER -> MagCmp(b.d, a.d)

Le(a, b) == Cmp(a, b) <= 0
Lt(a, b) == Cmp(a, b) < 0
Eq(a, b) == Cmp(a, b) = 0

\* small conversions (|value| < 2^24 so that products with small strides stay in range)
IsSmall(a) == Len(a.d) <= 3
RECURSIVE MagToInt(_, _)
MagToInt(x, i) == IF i > Len(x) THEN 0 ELSE x[i] + 256 * MagToInt(x, i + 1)
ToInt(a) == IF IsNeg(a) THEN 0 - MagToInt(a.d, 1) ELSE MagToInt(a.d, 1)

RECURSIVE MagOfInt(_)
MagOfInt(i) == IF i = 0 THEN <<>> ELSE <<i % 256>> \o MagOfInt(i \div 256)
FromInt(i) == IF i < 0 THEN [n |-> 1, d |-> MagOfInt(0 - i)] ELSE [n |-> 0, d |-> MagOfInt(i)]

\* 2^k and 2^k - 1 as wide values
RECURSIVE Zeros(_), Ones(_)
Zeros(k) == IF k = 0 THEN <<>> ELSE <<0>> \o Zeros(k - 1)
Ones(k) == IF k = 0 THEN <<>> ELSE <<255>> \o Ones(k - 1)
RECURSIVE SmallPow2(_)
SmallPow2(j) == IF j = 0 THEN 1 ELSE 2 * SmallPow2(j - 1)     \* j < 8
Pow2(k) == [n |-> 0, d |-> Zeros(k \div 8) \o <<SmallPow2(k % 8)>>]
Pow2m1(k) ==   \* 2^k - 1
  IF k % 8 = 0 THEN [n |-> 0, d |-> Ones(k \div 8)]
  ELSE [n |-> 0, d |-> Ones(k \div 8) \o <<SmallPow2(k % 8) - 1>>]
Neg(a) == IF IsZero(a) THEN a ELSE [n |-> 1 - a.n, d |-> a.d]

\* value range of a C integer type with `bits` bits
TMin(bits, signed) == IF signed THEN Neg(Pow2(bits - 1)) ELSE WZero
TMax(bits, signed) == IF signed THEN Pow2m1(bits - 1) ELSE Pow2m1(bits)
InType(a, bits, signed) == Le(TMin(bits, signed), a) /\ Le(a, TMax(bits, signed))

\* bool is a 1-bit unsigned type for range purposes
=============================================================================
