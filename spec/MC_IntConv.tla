---------------------------- MODULE MC_IntConv ----------------------------
(* Design check of C06 on the scaled type family + emission of the 64-bit  *)
(* boundary vectors.  Everything is evaluated at constant level.           *)
EXTENDS IntConv, Json
VARIABLE x
Spec == x = 0 /\ [][x' = x]_x
ASSUME PrintT(<<"CHECK", ToJson([ModelInContract |-> ModelInContract, Convex |-> Convex,
                                 pairs |-> Cardinality(Family) * Cardinality(Family),
                                 cases |-> Cardinality({<<f, t, v>> \in Family \X Family \X (-32..63) : v \in Rng(f)})])>>)
ASSUME PrintT(<<"VECTORS", ToJson(Vectors)>>)
=============================================================================
