SPECIFICATION Spec
CONSTANT A = 8
CONSTANT OpenFindings = {}
