SPECIFICATION MSpec
CONSTANTS
  Max = 4
  Owners = {}
  EmitEdges = TRUE
VIEW View
INVARIANTS TypeOK ContractInv
PROPERTY Refines
ACTION_CONSTRAINT Emit
