--------------------------- MODULE RegistryScope ---------------------------
(* Design-level question behind C18's hand-off clause: WHERE does the list of *)
(* live sandboxes live?  Threads create sandboxes, hand them to other threads  *)
(* (one user at a time), look a sandbox up from an example address and destroy  *)
(* it.  With a process-wide list (the library's design) every lookup by the    *)
(* current user finds the sandbox and every destroy finds its entry; with a    *)
(* list per thread (Scope = "thread") a sandbox that changed hands is unknown  *)
(* to its new user.  TLC proves the first and refutes the second.              *)
EXTENDS Naturals, FiniteSets
CONSTANTS Threads, Sandboxes, Scope        \* Scope \in {"process", "thread"}
VARIABLES created,    \* sandboxes that exist
          user,       \* sandbox -> thread that uses it now
          listed,     \* list id -> set of sandboxes on that list
          failed      \* a lookup or destroy by the current user did not find the sandbox
vars == <<created, user, listed, failed>>
ListOf(t) == IF Scope = "process" THEN "all" ELSE t
Lists == IF Scope = "process" THEN {"all"} ELSE Threads
Init == /\ created = {} /\ user = [s \in Sandboxes |-> CHOOSE t \in Threads : TRUE]
        /\ listed = [l \in Lists |-> {}] /\ failed = FALSE
Create(t, s) == /\ s \notin created /\ created' = created \cup {s}
                /\ user' = [user EXCEPT ![s] = t]
                /\ listed' = [listed EXCEPT ![ListOf(t)] = @ \cup {s}]
                /\ UNCHANGED failed
HandOver(s, t) == /\ s \in created /\ user' = [user EXCEPT ![s] = t]
                  /\ UNCHANGED <<created, listed, failed>>
Lookup(s) == /\ s \in created
             /\ failed' = (failed \/ s \notin listed[ListOf(user[s])])
             /\ UNCHANGED <<created, user, listed>>
Destroy(s) == /\ s \in created
              /\ IF s \in listed[ListOf(user[s])]
                   THEN /\ listed' = [listed EXCEPT ![ListOf(user[s])] = @ \ {s}]
                        /\ created' = created \ {s} /\ UNCHANGED failed
                   ELSE failed' = TRUE /\ UNCHANGED <<created, listed>>
              /\ UNCHANGED user
Next == \/ \E t \in Threads, s \in Sandboxes : Create(t, s) \/ HandOver(s, t)
        \/ \E s \in Sandboxes : Lookup(s) \/ Destroy(s)
Spec == Init /\ [][Next]_vars
\* every thread observes what it would observe running alone
AloneResults == ~failed
\* the registry is exact: a sandbox is on exactly one list iff it exists
Exact == \A s \in Sandboxes : (s \in created) <=> (Cardinality({l \in Lists : s \in listed[l]}) = 1)
=============================================================================
