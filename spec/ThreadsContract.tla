-------------------------- MODULE ThreadsContract --------------------------
(***************************************************************************)
(* Contract of property C18 over the totally ordered sequence of           *)
(* synchronisation events of a multi-threaded execution (see Threads.tla   *)
(* for the reading of each clause).  Used by the Model check (Threads.tla, *)
(* Model => Contract) and by trace validation (Trace_Threads.tla).         *)
(***************************************************************************)
EXTENDS Integers, Sequences, FiniteSets

(***************************************************************************)
(* Contract                                                                *)
(***************************************************************************)
\* allready: the backend reports no creation / destruction events of its own (no-op backend)
CInitR(threads, allready) ==
  [w     |-> "",                            \* holder of the unique lock
   r     |-> {},                            \* holders of the shared lock
   list  |-> {},                            \* sandboxes on the live list
   ready |-> [t \in threads |-> allready]]  \* backend memory of t's sandbox exists
CInit(threads) == CInitR(threads, FALSE)

\* ev = [t, k, s, ...]; the sandbox of thread t is named t
ThAllowed(st, ev) ==
  CASE ev.k = "acq_unique" -> st.w = "" /\ st.r = {}
    [] ev.k = "rel_unique" -> st.w = ev.t
    [] ev.k = "acq_shared" -> st.w = ""
    [] ev.k = "rel_shared" -> ev.t \in st.r
    [] ev.k = "backend_created" -> ~st.ready[ev.s] /\ ev.s = ev.t
    [] ev.k = "backend_destroying" -> st.ready[ev.s] /\ ev.s = ev.t /\ ev.s \notin st.list
    [] ev.k = "push" -> st.w = ev.t /\ ev.s = ev.t /\ st.ready[ev.s] /\ ev.s \notin st.list
    [] ev.k = "erase" -> st.w = ev.t /\ ev.s = ev.t /\ ev.s \in st.list /\ st.ready[ev.s]
    [] ev.k = "visit" -> ev.t \in st.r /\ ev.s \in st.list /\ st.ready[ev.s]
    [] ev.k = "ilock" -> TRUE                        \* an operation on a per-instance lock (a scheduling point only)
    [] ev.k = "begin" -> TRUE
    [] ev.k = "guest" -> ev.cur = ev.t               \* the executing sandbox is the thread's own
    [] ev.k = "cb" -> ev.sbref = ev.t                \* the callback receives the thread's own sandbox
    [] ev.k = "end" ->
         CASE ev.op = "create" -> ev.res = "ok"
           [] ev.op = "destroy" -> ev.res = "ok"
           [] ev.op = "lookup" -> ev.res = ev.t        \* found its own sandbox
           [] ev.op = "invoke" -> ev.res = ev.t        \* ran its own library's function
           [] OTHER -> TRUE
    [] OTHER -> FALSE

\* The library's own locks (harness/lock_driver.cpp: no scheduler, the default lock macros): at
\* the reported accesses to the live list other threads that need the list exclusively are kept
\* out (a helper thread creating a sandbox of its own did not get through while the reporting
\* thread was inside its guarded scope), and nothing is locked between operations.
ProbeAllowed(ev) ==
  CASE ev.e = "lockprobe" -> ev.held
    [] ev.e = "lockfree" -> ev.free
    \* a sandbox created by one thread and then used and destroyed by another thread (each sandbox
    \* by one thread at a time): the results are those of a thread running alone
    [] ev.e = "handoff" -> ev.use = "ok" /\ ev.destroy = "ok" /\ ("warm" \in DOMAIN ev => ev.warm \in {"ok", "-"})
    [] OTHER -> FALSE

ThApply(st, ev) ==
  CASE ev.k = "acq_unique" -> [st EXCEPT !.w = ev.t]
    [] ev.k = "rel_unique" -> [st EXCEPT !.w = ""]
    [] ev.k = "acq_shared" -> [st EXCEPT !.r = @ \cup {ev.t}]
    [] ev.k = "rel_shared" -> [st EXCEPT !.r = @ \ {ev.t}]
    [] ev.k = "backend_created" -> [st EXCEPT !.ready[ev.s] = TRUE]
    [] ev.k = "backend_destroying" -> [st EXCEPT !.ready[ev.s] = FALSE]
    [] ev.k = "push" -> [st EXCEPT !.list = @ \cup {ev.s}]
    [] ev.k = "erase" -> [st EXCEPT !.list = @ \ {ev.s}]
    [] OTHER -> st

=============================================================================
