------------------------------ MODULE Calls ------------------------------
(***************************************************************************)
(* Model of boundary crossings, transcribing INTERNAL_invoke_with_func_ptr, *)
(* sandbox_callback_interceptor (rlbox_sandbox.hpp) and the backends'       *)
(* impl_invoke_with_func_ptr / callback trampolines:                        *)
(*   invoke:   ACTION_IN, scope-exit(ACTION_OUT), convert params (may       *)
(*             abort), backend: save tls.sandbox, set it, scope-exit        *)
(*             (restore), call                                              *)
(*   callback: trampoline records the slot, interceptor resolves            *)
(*             (tls.sandbox, key), ACTION_OUT, scope-exit(ACTION_IN),       *)
(*             convert args, run, convert result (may abort)                *)
(* A behaviour of this Model is the depth-first traversal of one tree of    *)
(* nested invocations and callbacks with at most one abort; the history     *)
(* variable makes every traversal a distinct state, so TLC enumerates ALL   *)
(* trees up to the depth / width bounds, checks every one against           *)
(* CallsContract (invariant StepOK) and prints each complete tree (TREE     *)
(* lines) for replay on the real code.                                      *)
(***************************************************************************)
EXTENDS CallsContract, TLC, Json

CONSTANTS SandboxSet, FuncSet,
          MaxDepth,     \* max number of open crossings
          MaxWidth,     \* max children per crossing
          MaxNodes,     \* max crossings per tree
          Fits,         \* does the poison value fit the ABI's long?
          Aborts,       \* subset of {"arg", "cbthrow", "cbret", "gthrow", "catch"} ("catch": callback
                        \* bodies may catch the abort of an invocation they made and go on)
          StaleCalls    \* TRUE: the guest may also call an entry point that is not registered

VARIABLES mstack,   \* frames [k, s, node, fn, saved, kids, catches]
          tls,      \* thread-local "current sandbox" ("" = none)
          unw,      \* an abort is propagating
          aborted,  \* an abort was already injected in this tree
          nn,       \* nodes used
          hist,     \* the tree so far (sequence of abstract actions)
          mclosed,  \* crossings completed so far
          mts,      \* per-sandbox transition state label
          cst,      \* Contract state
          okv,      \* ghost: the last step's events were all allowed by the Contract
          done

vars == <<mstack, tls, unw, aborted, nn, hist, mclosed, mts, cst, okv, done>>

RECURSIVE FoldOK(_, _), FoldSt(_, _)
FoldOK(st, es) == IF es = <<>> THEN TRUE
                  ELSE Allowed(st, Head(es)) /\ CInv(Apply(st, Head(es))) /\ FoldOK(Apply(st, Head(es)), Tail(es))
FoldSt(st, es) == IF es = <<>> THEN st ELSE FoldSt(Apply(st, Head(es)), Tail(es))

Emit(es) == /\ okv' = FoldOK(cst, es)
            /\ cst' = FoldSt(cst, es)

NoClosed == [s \in SandboxSet |-> <<>>]
Close(cl, s, kind, who) == [cl EXCEPT ![s] = Append(@, <<kind, who>>)]

InitCst ==
  LET c0 == CInit(SandboxSet, TRUE, Fits, [s \in SandboxSet |-> 0]) IN
  [c0 EXCEPT !.entry = [s \in SandboxSet |-> [f \in FuncSet |-> f]]]

MInit ==
  /\ mstack = <<>>
  /\ tls = ""
  /\ unw = FALSE
  /\ aborted = FALSE
  /\ nn = 0
  /\ hist = <<>>
  /\ mclosed = NoClosed
  /\ mts = [s \in SandboxSet |-> s]
  /\ cst = InitCst
  /\ okv = TRUE
  /\ done = FALSE

MTop == mstack[Len(mstack)]
MPop == SubSeq(mstack, 1, Len(mstack) - 1)
Bump == [mstack EXCEPT ![Len(mstack)].kids = @ + 1]

HookEv(dir, kind, who, s) == [e |-> "hook", dir |-> dir, kind |-> kind, who |-> who, state |-> mts[s]]
Toggle(s) == IF mts[s] = s THEN s \o "*" ELSE s

\* does the frame on top of stk belong to a callback body that catches aborts?
CatchTop(stk) == Len(stk) > 0 /\ stk[Len(stk)].k = "cb" /\ stk[Len(stk)].catches
CaughtEv(stk) == [e |-> "caught", node |-> stk[Len(stk)].node]

CanGrow == ~done /\ ~unw /\ nn < MaxNodes /\ Len(mstack) < MaxDepth /\
           (IF Len(mstack) > 0 THEN MTop.kids < MaxWidth ELSE TRUE)

InvokeEnter(s, poison) ==
  /\ CanGrow
  /\ IF Len(mstack) = 0 THEN TRUE ELSE MTop.k = "cb"
  /\ (Len(mstack) = 0 => hist = <<>>)       \* one top-level invocation per tree
  /\ poison => ("arg" \in Aborts /\ ~aborted)
  /\ nn' = nn + 1
  /\ LET node == nn + 1
         begin == [e |-> "inv_begin", s |-> s, node |-> node, poison |-> poison]
         h1 == Append(hist, [a |-> "inv", s |-> s, poison |-> poison]) IN
     IF poison /\ ~Fits
       THEN \* parameter conversion aborts after ACTION_IN; the scope exit runs ACTION_OUT
            /\ aborted' = TRUE
            /\ unw' = (Len(mstack) > 0 /\ ~CatchTop(mstack))
            /\ hist' = IF CatchTop(mstack) THEN Append(h1, [a |-> "caught"]) ELSE h1
            /\ mstack' = IF Len(mstack) > 0 THEN Bump ELSE mstack
            /\ mclosed' = Close(mclosed, s, "INVOKE", "tree_fn")
            /\ UNCHANGED <<tls, done>>
            /\ Emit(<<begin, HookEv("in", "INVOKE", "tree_fn", s), HookEv("out", "INVOKE", "tree_fn", s),
                      [e |-> "inv_end", node |-> node, out |-> "abort", valok |-> TRUE]>> \o
                    (IF CatchTop(mstack) THEN <<CaughtEv(mstack)>> ELSE <<>>))
       ELSE /\ aborted' = (aborted \/ poison)
            /\ hist' = h1
            /\ mstack' = Append(IF Len(mstack) > 0 THEN Bump ELSE mstack,
                                [k |-> "inv", s |-> s, node |-> node, fn |-> "tree_fn", saved |-> tls, kids |-> 0,
                                 catches |-> FALSE])
            /\ tls' = s
            /\ UNCHANGED <<unw, done, mclosed>>
            /\ Emit(<<begin, HookEv("in", "INVOKE", "tree_fn", s),
                      [e |-> "guest_run", node |-> node, cur |-> s, argok |-> TRUE]>>)

\* the guest calls the entry it was given for callback f (on the sandbox it runs in)
GuestCall(f, c) ==
  /\ CanGrow
  /\ Len(mstack) > 0 /\ MTop.k = "inv"
  /\ c => ("catch" \in Aborts /\ f \in FuncSet /\ ~aborted)
  /\ nn' = nn + 1
  /\ hist' = Append(hist, [a |-> "call", f |-> f, catch |-> c])
  /\ LET node == nn + 1
         call == [e |-> "guest_call", node |-> node, entry |-> f] IN
     IF f \notin FuncSet
       THEN \* stale / empty entry point: the call traps, nothing runs
            /\ mstack' = Bump
            /\ UNCHANGED <<tls, unw, aborted, done, mclosed, mts>>
            /\ Emit(<<call, [e |-> "guest_call_ret", node |-> node, out |-> "trap", valok |-> TRUE]>>)
       ELSE \* the interceptor resolves (tls.sandbox, key of the slot)
            /\ mstack' = Append(Bump, [k |-> "cb", s |-> tls, node |-> node, fn |-> f, saved |-> tls, kids |-> 0,
                                       catches |-> c])
            /\ UNCHANGED <<tls, unw, aborted, done, mclosed>>
            /\ IF node % 2 = 1
                 THEN \* this callback body changes the transition state of its sandbox
                      /\ mts' = [mts EXCEPT ![tls] = Toggle(tls)]
                      /\ Emit(<<call, HookEv("out", "CALLBACK", f, tls),
                                [e |-> "cb_run", node |-> node, fn |-> f, sbref |-> tls],
                                [e |-> "setstate", s |-> tls, state |-> Toggle(tls)],
                                [e |-> "tmpsbx", node |-> node, out |-> "ok"]>>)
                 ELSE /\ mts' = mts
                      /\ Emit(<<call, HookEv("out", "CALLBACK", f, tls),
                                [e |-> "cb_run", node |-> node, fn |-> f, sbref |-> tls],
                                [e |-> "tmpsbx", node |-> node, out |-> "ok"]>>)

CbReturn(how) ==
  /\ ~done /\ ~unw
  /\ Len(mstack) > 0 /\ MTop.k = "cb"
  /\ how # "ok" => (~aborted /\ ((how = "throw" /\ "cbthrow" \in Aborts) \/ (how = "poison" /\ "cbret" \in Aborts)))
  /\ hist' = Append(hist, [a |-> "cbret", how |-> how])
  /\ LET f == MTop
         ret == [e |-> "cb_ret", node |-> f.node, how |-> how]
         hk == HookEv("in", "CALLBACK", f.fn, f.s) IN
     IF how = "ok" \/ (how = "poison" /\ Fits)
       THEN /\ mstack' = MPop
            /\ aborted' = (aborted \/ how # "ok")
            /\ mclosed' = Close(mclosed, f.s, "CALLBACK", f.fn)
            /\ UNCHANGED <<tls, unw, nn, done>>
            /\ Emit(<<ret, hk, [e |-> "guest_call_ret", node |-> f.node, out |-> "ok", valok |-> TRUE]>>)
       ELSE /\ mstack' = MPop
            /\ aborted' = TRUE
            /\ unw' = TRUE
            /\ mclosed' = Close(mclosed, f.s, "CALLBACK", f.fn)
            /\ UNCHANGED <<tls, nn, done>>
            /\ Emit(<<ret, hk, [e |-> "guest_call_ret", node |-> f.node, out |-> "unwound", valok |-> TRUE]>>)

GuestThrow ==
  /\ ~done /\ ~unw /\ ~aborted /\ "gthrow" \in Aborts
  /\ Len(mstack) > 0 /\ MTop.k = "inv"
  /\ hist' = Append(hist, [a |-> "gthrow"])
  /\ aborted' = TRUE
  /\ unw' = TRUE
  /\ UNCHANGED <<mstack, tls, nn, done, mclosed>>
  /\ Emit(<<[e |-> "guest_throw", node |-> MTop.node]>>)

TimingEv(cl) == [e |-> "timing", records |-> cl]

GuestReturn ==
  /\ ~done /\ ~unw
  /\ Len(mstack) > 0 /\ MTop.k = "inv"
  /\ hist' = Append(hist, [a |-> "gret"])
  /\ LET f == MTop
         cl == Close(mclosed, f.s, "INVOKE", "tree_fn")
         evs == <<[e |-> "guest_ret", node |-> f.node], HookEv("out", "INVOKE", "tree_fn", f.s),
                  [e |-> "inv_end", node |-> f.node, out |-> "ok", valok |-> TRUE]>> IN
     /\ mstack' = MPop
     /\ tls' = f.saved                       \* scope exit restores the previous sandbox
     /\ UNCHANGED <<unw, aborted, nn>>
     /\ IF Len(mstack) = 1
          THEN done' = TRUE /\ mclosed' = NoClosed /\ Emit(Append(evs, TimingEv(cl)))
          ELSE done' = FALSE /\ mclosed' = cl /\ Emit(evs)

\* an abort propagates: scope exits close every open crossing, innermost first
Unwind ==
  /\ ~done /\ unw
  /\ UNCHANGED <<aborted, nn>>
  /\ IF Len(mstack) = 0
       THEN /\ done' = TRUE /\ unw' = FALSE /\ mclosed' = NoClosed
            /\ UNCHANGED <<mstack, tls, hist>>
            /\ Emit(<<TimingEv(mclosed)>>)
     ELSE LET f == MTop IN
       IF f.k = "inv"
         THEN /\ mstack' = MPop
              /\ tls' = f.saved                 \* the scope exit restores the previous sandbox on this path too
              /\ mclosed' = Close(mclosed, f.s, "INVOKE", "tree_fn")
              \* the callback body that made this invocation may catch the abort and go on
              /\ unw' = ~CatchTop(MPop)
              /\ hist' = IF CatchTop(MPop) THEN Append(hist, [a |-> "caught"]) ELSE hist
              /\ UNCHANGED done
              /\ Emit(<<HookEv("out", "INVOKE", "tree_fn", f.s),
                        [e |-> "inv_end", node |-> f.node, out |-> "abort", valok |-> TRUE]>> \o
                      (IF CatchTop(MPop) THEN <<CaughtEv(MPop)>> ELSE <<>>))
         ELSE /\ mstack' = MPop
              /\ mclosed' = Close(mclosed, f.s, "CALLBACK", f.fn)
              /\ UNCHANGED <<tls, unw, done, hist>>
              /\ Emit(<<HookEv("in", "CALLBACK", f.fn, f.s),
                        [e |-> "guest_call_ret", node |-> f.node, out |-> "unwound", valok |-> TRUE]>>)

\* a poison argument at top level finishes the tree at once
TopAbortDone ==
  /\ ~done /\ ~unw /\ Len(mstack) = 0 /\ hist # <<>>
  /\ done' = TRUE
  /\ mclosed' = NoClosed
  /\ UNCHANGED <<mstack, tls, unw, aborted, nn, hist>>
  /\ Emit(<<TimingEv(mclosed)>>)

CallTargets == FuncSet \cup (IF StaleCalls THEN {"stale"} ELSE {})

MNext ==
  \/ (\E s \in SandboxSet, p \in BOOLEAN : InvokeEnter(s, p)) /\ UNCHANGED mts
  \/ \E f \in CallTargets, c \in BOOLEAN : GuestCall(f, c)
  \/ (\E h \in {"ok", "throw", "poison"} : CbReturn(h)) /\ UNCHANGED mts
  \/ GuestThrow /\ UNCHANGED mts
  \/ GuestReturn /\ UNCHANGED mts
  \/ Unwind /\ UNCHANGED mts
  \/ TopAbortDone /\ UNCHANGED mts

MSpec == MInit /\ [][MNext]_vars

StepOK == okv
TlsRestored == done => tls = ""
Balanced == done => (cst.stack = <<>> /\ ~cst.unw)

\* one TREE line per complete tree
EmitTree == (done' /\ ~done) => PrintT(<<"TREE", ToJson(hist')>>)
=============================================================================
