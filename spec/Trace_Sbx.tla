----------------------------- MODULE Trace_Sbx -----------------------------
(***************************************************************************)
(* Trace validation for C13 / C14 / C11(lookup): folds SbxContract over    *)
(* the events recorded by harness/sbx_driver.cpp from real rlbox_sandbox   *)
(* and sandbox_callback objects.  Every event carries its result, so the   *)
(* fold is deterministic.  An event outside the Contract is recorded in    *)
(* `bad`; the rest of that execution (up to the next "reset") is skipped.  *)
(***************************************************************************)
EXTENDS SbxContract, TLC, Json, IOUtils

T == ndJsonDeserialize(IOEnv.TRACE)
N == Len(T)

VARIABLES st, l, bad, done
tvars == <<st, l, bad, done>>

NextReset(i) ==
  LET S == {j \in (i + 1)..N : T[j].e = "reset"}
  IN IF S = {} THEN N + 1 ELSE CHOOSE j \in S : \A k \in S : j <= k

Accept(ev) == Allowed(st, ev) /\ LET s2 == Apply(st, ev) IN CInv(s2) /\ ProjMatches(s2, ev)

TInit == /\ st = CInit({}, {}, 0)
         /\ l = 1
         /\ bad = <<>>
         /\ done = FALSE

TNext ==
  \/ /\ l <= N
     /\ LET ev == T[l] IN
        IF ev.e = "reset"
          THEN /\ st' = CInit(ToSet(ev.sandboxes), ToSet(ev.owners), ev.slots)
               /\ l' = l + 1
               /\ UNCHANGED <<bad, done>>
        ELSE IF ev.e = "skip"
          THEN /\ l' = l + 1
               /\ UNCHANGED <<st, bad, done>>
        ELSE IF Accept(ev)
          THEN /\ st' = Apply(st, ev)
               /\ l' = l + 1
               /\ UNCHANGED <<bad, done>>
        ELSE /\ bad' = Append(bad, l)
             /\ l' = NextReset(l)
             /\ UNCHANGED <<st, done>>
  \/ /\ l = N + 1 /\ ~done
     /\ done' = TRUE
     /\ PrintT(<<"RESULT", ToJson([bad |-> bad, n |-> N])>>)
     /\ UNCHANGED <<st, l, bad>>

TSpec == TInit /\ [][TNext]_tvars
=============================================================================
