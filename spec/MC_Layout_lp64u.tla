---------------------------- MODULE MC_Layout_lp64u ----------------------------
(* Instance of the layout state machine for the lp64u guest ABI (long and pointers are    *)
(* 8 bytes: the pointer representation is as wide as the host's, but an offset).          *)
EXTENDS Layout
K(n, s, a) == [name |-> n, gs |-> s, ga |-> a]
KindsDef == {K("char", 1, 1), K("uchar", 1, 1), K("bool", 1, 1), K("short", 2, 2), K("ushort", 2, 2),
             K("int", 4, 4), K("uint", 4, 4), K("long", 8, 8), K("ulong", 8, 8), K("llong", 8, 8),
             K("float", 4, 4), K("double", 8, 8), K("enum", 4, 4), K("ptr", 8, 8), K("fnptr", 8, 8),
             K("carr3", 3, 1), K("iarr2", 8, 4), K("larr2", 16, 8), K("parr2", 16, 8), K("carr2x2", 4, 1), K("iarr2x2", 16, 4), K("larr2x2", 32, 8),
             K("inner", 16, 8), K("innerp", 24, 8)}
=============================================================================
