------------------------------- MODULE Addr -------------------------------
(***************************************************************************)
(* Address-space Contracts: tainted pointer arithmetic (C05), fixed-size   *)
(* array indexing (C17), bulk ranges (C10), pointer containment (C03).     *)
(*                                                                         *)
(* Recorded quantities are relative to the base of the sandbox region the  *)
(* operand belongs to: an in-region address is its offset 0..size-1, null  *)
(* is -1; results that may lie anywhere are exact Wide values relative to  *)
(* that base.  All Contract arithmetic is exact (no modulus).              *)
(*                                                                         *)
(* The Model operators transcribe the address computations of rlbox.hpp    *)
(* (BinaryOpValAndPtr, pointer operator[]) in a scaled address space of    *)
(* 2^A bytes WITH the modular arithmetic of uintptr_t, and TLC checks      *)
(* Model in Contract for every base, stride and operand.                   *)
(***************************************************************************)
EXTENDS Wide, FiniteSets, TLC

Null == -1

(***************************************************************************)
(* C05 Contract                                                            *)
(***************************************************************************)
Plus == {"+", "+=", "++pre", "++post", "[]", "&[]"}
Minus == {"-", "-=", "--pre", "--post"}
Indexing == {"[]", "&[]"}

\* The operands n for which base + sgn*n*s lies in 0..size-1 form the interval NMin..NMax
\* (all small integers); n itself is an exact Wide value.
NMin(base, sgn, s, size) == IF sgn = 1 THEN 0 - (base \div s) ELSE 0 - ((size - 1 - base) \div s)
NMax(base, sgn, s, size) == IF sgn = 1 THEN (size - 1 - base) \div s ELSE base \div s
TargetIn(base, sgn, n, s, size) ==
  Le(FromInt(NMin(base, sgn, s, size)), n) /\ Le(n, FromInt(NMax(base, sgn, s, size)))
Target(base, sgn, n, s) == base + sgn * ToInt(n) * s      \* only evaluated when TargetIn

Sgn(op) == IF op \in Minus THEN -1 ELSE 1

\* single operation: ev = [op, base, s, n, size, out, r (Wide, result relative to the region
\* base), rnull]; for post forms ev.ret is the returned pointer and ev.r the updated operand
PtrOpAllowed(ev) ==
  IF ev.base = Null
    THEN IF ev.op \in Indexing
           THEN ev.out = "abort" \/ (ev.out = "ok" /\ ev.rnull)        \* never a non-null pointer (C03)
           ELSE ev.out = "abort"                                        \* arithmetic on null aborts
  ELSE IF TargetIn(ev.base, Sgn(ev.op), ev.n, ev.s, ev.size)
    THEN /\ ev.out = "ok"
         /\ ~ev.rnull
         /\ Eq(ev.r, FromInt(Target(ev.base, Sgn(ev.op), ev.n, ev.s)))
         /\ ("ret" \in DOMAIN ev =>
               Eq(ev.ret, FromInt(IF ev.op \in {"++post", "--post"} THEN ev.base
                                  ELSE Target(ev.base, Sgn(ev.op), ev.n, ev.s))))
    ELSE ev.out = "abort"

\* run of consecutive n in [nlo, nhi] with one class; for class ok the harness reports the
\* constant d = r - sgn*n*s it observed for every n of the run
PtrRunAllowed(ev) ==
  /\ ev.base # Null
  /\ Le(ev.nlo, ev.nhi)
  /\ LET lo == FromInt(NMin(ev.base, Sgn(ev.op), ev.s, ev.size))
         hi == FromInt(NMax(ev.base, Sgn(ev.op), ev.s, ev.size)) IN
     IF ev.cls = "ok"
       THEN Le(lo, ev.nlo) /\ Le(ev.nhi, hi) /\ ev.d = ev.base
       ELSE Lt(ev.nhi, lo) \/ Lt(hi, ev.nlo)      \* the whole run misses the accepted interval

(***************************************************************************)
(* C17 Contract: indexing a fixed-size array                               *)
(***************************************************************************)
\* ev = [len, idx (Wide), es (element size in the memory the array lives in), out, eoff]
IndexAllowed(ev) ==
  IF IsSmall(ev.idx) /\ ToInt(ev.idx) >= 0 /\ ToInt(ev.idx) < ev.len
    THEN ev.out = "ok" /\ ev.eoff = ToInt(ev.idx) * ev.es
    ELSE ev.out = "abort"

IndexRunAllowed(ev) ==
  /\ Le(ev.ilo, ev.ihi)
  /\ IF ev.cls = "ok"
       THEN /\ IsSmall(ev.ilo) /\ IsSmall(ev.ihi)
            /\ ToInt(ev.ilo) >= 0 /\ ToInt(ev.ihi) < ev.len
            /\ ev.d = 0                       \* eoff - idx*es observed constant 0
       ELSE \/ IsNeg(ev.ihi)                  \* whole run negative
            \/ (~IsNeg(ev.ilo) /\ (~IsSmall(ev.ilo) \/ ToInt(ev.ilo) >= ev.len))   \* whole run >= len

\* Multi-dimensional arrays: the first index designates a ROW - an array of the remaining extent
\* (ev.cols scalars of ev.es bytes under the layout of the memory it lives in), ev.i rows from the
\* start of the array; what is designated has the row's size, not an element's.
RowAllowed(ev) ==
  /\ ev.bytes = ev.cols * ev.es
  /\ ev.off = ev.i * ev.cols * ev.es

(***************************************************************************)
(* C10 Contract: bulk memory operations                                    *)
(***************************************************************************)
\* ev.ranges: the ranges the operation was given, [side, start, bytes (Wide)]:
\*   "sbx"      start = offset in this sandbox's region (-1 = null start)
\*   "app"      an application buffer wholly outside every sandbox (provided by the harness)
\*   "other"    a raw pointer wholly inside ANOTHER sandbox (outside this one)
\*   "straddle" a raw pointer whose range crosses this sandbox's boundary
\* ev.tmin/tmax/tcount: bytes of this sandbox's region that changed; ev.dst: start of the
\* destination range (writers only); ev.zones: red zones around application buffers intact;
\* ev.effect: the operation had exactly its specified effect on the given bytes.
RangeLegal(r, size) ==
  CASE r.side = "sbx" -> r.start >= 0 /\ ~IsZero(r.bytes) /\ Le(r.bytes, FromInt(size - r.start))
    [] r.side \in {"app", "other"} -> ~IsZero(r.bytes)
    [] OTHER -> FALSE
AllLegal(ev) == \A i \in 1..Len(ev.ranges) : RangeLegal(ev.ranges[i], ev.size)
AnyEmpty(ev) == \E i \in 1..Len(ev.ranges) : IsZero(ev.ranges[i].bytes)
Writers == {"memset", "memcpy", "copy_memory_or_grant_access"}
NullStart(ev) == "nullstart" \in DOMAIN ev /\ ev.nullstart

TouchedInside(ev) ==
  IF ev.op \in Writers
    THEN ev.tcount = 0 \/ (ev.tmin >= ev.dst /\ IsSmall(ev.ranges[1].bytes) /\
                           ev.tmax <= ev.dst + ToInt(ev.ranges[1].bytes) - 1)
    ELSE ev.tcount = 0

\* the request that MUST be carried out: all ranges legal (for the raw-pointer-with-count
\* operation under the larger reading of "that many elements", ev.bytes_max)
MustSucceed(ev) ==
  /\ AllLegal(ev)
  /\ ("bytes_max" \in DOMAIN ev => Le(ev.bytes_max, FromInt(ev.size - ev.ranges[1].start)))

RangeOpAllowed(ev) ==
  CASE ev.out = "ok" ->
         /\ ev.zones /\ TouchedInside(ev)
         /\ \/ AllLegal(ev) /\ ev.effect                         \* carried out on exactly those bytes
            \/ AnyEmpty(ev) /\ ev.tcount = 0                       \* empty request: nothing touched
            \/ NullStart(ev) /\ ev.tcount = 0                      \* null start: null handed back, nothing touched
    [] ev.out \in {"abort", "allocfail"} ->
         ev.zones /\ ev.tcount = 0 /\ ~MustSucceed(ev)            \* satisfiable requests are carried out
    [] ev.out = "null" -> ev.zones /\ ev.tcount = 0               \* allocation in the sandbox failed
    [] OTHER -> FALSE                                              \* a fault: the operation left its ranges

(***************************************************************************)
(* Scaled Model of the pointer address computation (design check)          *)
(***************************************************************************)
CONSTANT A            \* address bits of the scaled space
Space == SmallPow2(A)
RegionSize == 16
RBase == 64           \* region = [64, 80)
Mod(x) == x % Space   \* TLA+ % is non-negative for positive divisor

SameRegion(p, q) == (p \div RegionSize) = (q \div RegionSize)   \* mask comparison

\* BinaryOpValAndPtr / operator[] with the guard |n| * s < 2^(A-1)
Abs(x) == IF x < 0 THEN 0 - x ELSE x
ModelPtrOp(ptr, sgn, n, s) ==
  IF Abs(n) * s >= Space \div 2 THEN [out |-> "abort", t |-> 0]
  ELSE LET target == Mod(ptr + sgn * n * s) IN
       IF SameRegion(ptr, target) THEN [out |-> "ok", t |-> target] ELSE [out |-> "abort", t |-> 0]

\* the same without the guard (what the code did before the fix): kept to document D4
ModelPtrOpNoGuard(ptr, sgn, n, s) ==
  LET target == Mod(ptr + sgn * n * s) IN
  IF SameRegion(ptr, target) THEN [out |-> "ok", t |-> target] ELSE [out |-> "abort", t |-> 0]

ScaledAllowed(ptr, sgn, n, s, o) ==
  LET t == ptr + sgn * n * s IN
  IF t >= RBase /\ t < RBase + RegionSize THEN o.out = "ok" /\ o.t = t ELSE o.out = "abort"

Ns == -300..300
PtrModelInContract ==
  \A ptr \in RBase..(RBase + RegionSize - 1), sgn \in {-1, 1}, n \in Ns, s \in {1, 2, 4, 8} :
     ScaledAllowed(ptr, sgn, n, s, ModelPtrOp(ptr, sgn, n, s))
NoGuardCounterexamples ==
  {<<ptr, sgn, n, s>> \in (RBase..(RBase + RegionSize - 1)) \X {-1, 1} \X Ns \X {1, 2, 4, 8} :
     ~ScaledAllowed(ptr, sgn, n, s, ModelPtrOpNoGuard(ptr, sgn, n, s))}
\* convexity of the accepted operands (justifies validating runs at their ends)
PtrConvex ==
  \A ptr \in RBase..(RBase + RegionSize - 1), sgn \in {-1, 1}, s \in {1, 2, 4, 8} :
    \A a, b, c \in -18..18 :
      (a <= c /\ c <= b /\ ModelPtrOp(ptr, sgn, a, s).out = "ok" /\ ModelPtrOp(ptr, sgn, b, s).out = "ok")
         => ModelPtrOp(ptr, sgn, c, s).out = "ok"
=============================================================================
