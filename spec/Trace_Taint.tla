----------------------------- MODULE Trace_Taint -----------------------------
(* Oracle for C01 / C02 (programs): constant-level evaluation of FormAllowed on the observed *)
(* compiler verdict and result kind of every program of the corpus.                         *)
EXTENDS Taint, IOUtils
T == ndJsonDeserialize(IOEnv.TRACE)
Bad == {i \in 1..Len(T) : ~FormAllowed(T[i])}
ASSUME PrintT(<<"RESULT", ToJson([bad |-> Bad, n |-> Len(T)])>>)
=============================================================================
