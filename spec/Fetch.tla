------------------------------- MODULE Fetch -------------------------------
(***************************************************************************)
(* Single-fetch Contracts.  Sandbox memory belongs to the sandbox: it may  *)
(* rewrite a cell between any two reads the application makes.  An          *)
(* operation whose operand is read from sandbox memory (a tainted_volatile  *)
(* index, offset, value or pointer) is therefore specified over the SET of  *)
(* values the cell held while it ran (ev.script): its outcome must be what  *)
(* the sequential Contract (Addr.tla, IntConv) prescribes for ONE of them - *)
(* the value that was checked is the value that was used.  A double fetch   *)
(* shows up as an outcome that no single value explains (an index accepted  *)
(* as 1 that designates element 1000; a conversion that checked 5 and       *)
(* truncated 2^32+7 to 7; a verifier that saw one value while the caller    *)
(* got another).                                                            *)
(***************************************************************************)
EXTENDS Addr

Some(script, P(_)) == \E i \in 1..Len(script) : P(script[i])

\* C17: arr[*cell]
FetchIndexAllowed(ev) ==
  Some(ev.script, LAMBDA v : IndexAllowed([len |-> ev.len, idx |-> v, es |-> ev.es, out |-> ev.out, eoff |-> ev.eoff]))

\* C05: p + *cell, p - *cell, p += *cell, p -= *cell, p[*cell], &p[*cell]; whatever happens the
\* pointer operated on is still a pointer into its sandbox afterwards (ev.after)
FetchPtrOpAllowed(ev) ==
  /\ Some(ev.script, LAMBDA v : PtrOpAllowed([op |-> ev.op, base |-> ev.base, s |-> ev.s, n |-> v, size |-> ev.size,
                                               out |-> ev.out, r |-> ev.r, rnull |-> ev.rnull]))
  /\ Le(FromInt(0), ev.after) /\ Lt(ev.after, FromInt(ev.size))
  /\ IF ev.out = "ok" /\ ev.op \in {"+=", "-="} THEN Eq(ev.after, ev.r) ELSE Eq(ev.after, FromInt(ev.base))

\* C09: the verifier ran once on a value the cell held, and what the caller gets is what the
\* verifier saw
FetchVerifyAllowed(ev) ==
  /\ ev.out = "ok" /\ ev.calls = 1
  /\ Some(ev.script, LAMBDA v : Eq(ev.seen, v))
  /\ Eq(ev.used, ev.seen)

\* C06: a converting load / store whose source is in sandbox memory
FetchConvAllowed(ev) ==
  \/ ev.out = "ok" /\ Some(ev.script, LAMBDA v : InType(v, ev.bits, ev.signed) /\ Eq(ev.got, v))
  \/ ev.out = "abort" /\ Some(ev.script, LAMBDA v : ~InType(v, ev.bits, ev.signed))

FetchAllowed(ev) ==
  CASE ev.kind = "index" -> FetchIndexAllowed(ev)
    [] ev.kind = "ptrop" -> FetchPtrOpAllowed(ev)
    [] ev.kind = "verify" -> FetchVerifyAllowed(ev)
    [] ev.kind = "conv" -> FetchConvAllowed(ev)
    [] OTHER -> FALSE
=============================================================================
