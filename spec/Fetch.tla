------------------------------- MODULE Fetch -------------------------------
(***************************************************************************)
(* Single-fetch Contracts.  Sandbox memory belongs to the sandbox: it may  *)
(* rewrite a cell between any two reads the application makes.  An          *)
(* operation whose operand is read from sandbox memory (a tainted_volatile  *)
(* index, offset, value or pointer) is therefore specified over the SET of  *)
(* values the cell held while it ran (ev.script): its outcome must be what  *)
(* the sequential Contract (Addr.tla, IntConv) prescribes for ONE of them - *)
(* the value that was checked is the value that was used.  A double fetch   *)
(* shows up as an outcome that no single value explains (an index accepted  *)
(* as 1 that designates element 1000; a conversion that checked 5 and       *)
(* truncated 2^32+7 to 7; a verifier that saw one value while the caller    *)
(* got another).                                                            *)
(***************************************************************************)
EXTENDS Addr

Some(script, P(_)) == \E i \in 1..Len(script) : P(script[i])

\* C17: arr[*cell]
FetchIndexAllowed(ev) ==
  Some(ev.script, LAMBDA v : IndexAllowed([len |-> ev.len, idx |-> v, es |-> ev.es, out |-> ev.out, eoff |-> ev.eoff]))

\* C05: p + *cell, p - *cell, p += *cell, p -= *cell, p[*cell], &p[*cell]; whatever happens the
\* pointer operated on is still a pointer into its sandbox afterwards (ev.after)
FetchPtrOpAllowed(ev) ==
  /\ Some(ev.script, LAMBDA v : PtrOpAllowed([op |-> ev.op, base |-> ev.base, s |-> ev.s, n |-> v, size |-> ev.size,
                                               out |-> ev.out, r |-> ev.r, rnull |-> ev.rnull]))
  /\ Le(FromInt(0), ev.after) /\ Lt(ev.after, FromInt(ev.size))
  /\ IF ev.out = "ok" /\ ev.op \in {"+=", "-="} THEN Eq(ev.after, ev.r) ELSE Eq(ev.after, FromInt(ev.base))

\* C09: the verifier ran once on a value the cell held, and what the caller gets is what the
\* verifier saw
FetchVerifyAllowed(ev) ==
  \/ /\ ev.out = "ok" /\ ev.calls = 1
     /\ Some(ev.script, LAMBDA v : Eq(ev.seen, v))
     /\ Eq(ev.used, ev.seen)
  \* a value the application type cannot hold (guest type wider) may end the copy in an abort
  \/ /\ ev.out = "abort" /\ "bits" \in DOMAIN ev
     /\ Some(ev.script, LAMBDA v : ~InType(v, ev.bits, ev.signed))

\* C09, copy_and_verify on a pointer cell: ev.vals[i] is the object at address ev.script[i]. The
\* verifier gets a copy of the object at ONE of the addresses the cell held (null: a null copy);
\* an address that is null or whose object does not fit may also end in an abort
FetchVerifyPtrAllowed(ev) ==
  \E i \in 1..Len(ev.script) :
    LET b == ev.script[i] IN
    IF IsZero(b)
      THEN ev.out = "abort" \/ (ev.out = "ok" /\ ev.calls = 1 /\ Eq(ev.seen, FromInt(0 - 1)) /\ Eq(ev.used, ev.seen))
      ELSE IF ToInt(b) + ev.gs > ev.size
        THEN ev.out = "abort"
        ELSE ev.out = "ok" /\ ev.calls = 1 /\ Eq(ev.seen, FromInt(ev.vals[i])) /\ Eq(ev.used, ev.seen)

\* C06: a converting load / store whose source is in sandbox memory
FetchConvAllowed(ev) ==
  \/ ev.out = "ok" /\ Some(ev.script, LAMBDA v : InType(v, ev.bits, ev.signed) /\ Eq(ev.got, v))
  \/ ev.out = "abort" /\ Some(ev.script, LAMBDA v : ~InType(v, ev.bits, ev.signed))

\* C05 / C03: the pointer operated on is itself read from sandbox memory (representation 0 = null)
BaseOf(b) == IF IsZero(b) THEN Null ELSE ToInt(b)
FetchPtrBaseAllowed(ev) ==
  Some(ev.script, LAMBDA b : PtrOpAllowed([op |-> ev.op, base |-> BaseOf(b), s |-> ev.s, n |-> ev.n, size |-> ev.size,
                                            out |-> ev.out, r |-> ev.r, rnull |-> ev.rnull]))
\* *p / p-> on a pointer cell: the object designated starts at the address read and lies wholly
\* inside the sandbox; null and straddling pointees abort
FetchDerefAllowed(ev) ==
  Some(ev.script, LAMBDA b : IF IsZero(b) \/ ToInt(b) + ev.gs > ev.size
                               THEN ev.out = "abort"
                               ELSE ev.out = "ok" /\ Eq(ev.r, b))

\* C10: memcmp over `num` bytes where num is read from sandbox memory; the sandbox buffer starts
\* at ev.start, the application buffer is greater from byte ev.diffat on
FetchBulkAllowed(ev) ==
  Some(ev.script, LAMBDA v : IF Le(v, FromInt(ev.size - ev.start))
                               THEN ev.out = "ok" /\ ev.sign = (IF ToInt(v) > ev.diffat THEN -1 ELSE 0)
                               ELSE ev.out = "abort")

\* C17: an array object that extends beyond the sandbox is never indexed (its pointer is not
\* dereferenced): whatever the index, the operation aborts
FetchStraddleAllowed(ev) == ev.out = "abort"

\* C10: unverified_safe_pointer_because(count) on a pointer cell: the pointer handed out is the
\* one whose range of count elements was found inside the sandbox (null: handed out as null)
FetchSafePtrAllowed(ev) ==
  Some(ev.script, LAMBDA b :
         IF IsZero(b) THEN ev.out = "abort" \/ (ev.out = "ok" /\ ev.rnull)
         ELSE IF ToInt(b) + ev.count * ev.gs > ev.size THEN ev.out = "abort"
         ELSE ev.out = "ok" /\ ~ev.rnull /\ Eq(ev.r, b))

FetchAllowed(ev) ==
  CASE ev.kind = "index" -> FetchIndexAllowed(ev)
    [] ev.kind = "safeptr" -> FetchSafePtrAllowed(ev)
    [] ev.kind = "straddle" -> FetchStraddleAllowed(ev)
    [] ev.kind = "ptrbase" -> FetchPtrBaseAllowed(ev)
    [] ev.kind = "deref" -> FetchDerefAllowed(ev)
    [] ev.kind = "bulk" -> FetchBulkAllowed(ev)
    [] ev.kind = "ptrop" -> FetchPtrOpAllowed(ev)
    [] ev.kind = "verify" -> FetchVerifyAllowed(ev)
    [] ev.kind = "verifyptr" -> FetchVerifyPtrAllowed(ev)
    [] ev.kind = "conv" -> FetchConvAllowed(ev)
    [] OTHER -> FALSE
=============================================================================
