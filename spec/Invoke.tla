------------------------------ MODULE Invoke ------------------------------
(***************************************************************************)
(* Property C11, argument/result fidelity of sandbox function invocation:  *)
(* a call either aborts because some argument is not representable in the  *)
(* sandbox ABI, or the sandboxed function runs exactly once, observes      *)
(* exactly the argument values in the guest ABI (pointers as region        *)
(* offsets, null as 0, callbacks as their entry point, floats bit for      *)
(* bit), and its result arrives converted back.                            *)
(*                                                                         *)
(* ev.args[i] = [cls \in {"i","f","p","c"}, gbits, gs, v, seen, sbits]:    *)
(*   gbits/gs  the guest type the harness states for that parameter        *)
(*   v         the value passed (Wide; pointers: region offset, -1 = null) *)
(*   seen      what the guest function received (Wide), sbits its width    *)
(***************************************************************************)
EXTENDS Wide, Sequences

ArgFits(a) == a.cls # "i" \/ InType(a.v, a.gbits, a.gs)
Expected(a) == IF a.cls = "p" /\ IsNeg(a.v) THEN WZero ELSE a.v

CallAllowed(ev) ==
  IF \A i \in 1..Len(ev.args) : ArgFits(ev.args[i])
    THEN /\ ev.out = "ok"
         /\ ev.count = 1                                   \* exactly once
         /\ \A i \in 1..Len(ev.args) :
              LET a == ev.args[i] IN
              /\ "seen" \in DOMAIN a
              /\ Eq(a.seen, Expected(a))                   \* same value in the guest ABI
              /\ a.sbits = a.gbits                         \* carried in the guest type
         /\ CASE ev.ret.cls = "v" -> TRUE
              [] ev.ret.cls = "p" -> IF IsZero(ev.ret_guest) THEN Eq(ev.ret_app, FromInt(-1))
                                     ELSE Eq(ev.ret_app, ev.ret_guest)
              [] OTHER -> Eq(ev.ret_app, ev.ret_guest)     \* converted back, same value
    ELSE ev.out = "abort"                                   \* before the call (flag build: see DESIGN)

(***************************************************************************)
(* Property C12, argument/result fidelity of a callback call: the guest    *)
(* calls the entry point with guest-ABI values ev.args[i].v; the registered *)
(* application function runs exactly once, receives exactly those values   *)
(* (pointers as application addresses of the same region offset, 0 as      *)
(* null), and its result ev.ret_host arrives in the guest converted to the *)
(* guest ABI - or the call aborts when it is not representable there.      *)
(***************************************************************************)
CbSeenExpected(a) == IF a.cls = "p" /\ IsZero(a.v) THEN FromInt(-1) ELSE a.v
CbRetFits(ev) == ev.ret.cls # "i" \/ InType(ev.ret_host, ev.ret.gbits, ev.ret.gs)
CbAllowed(ev) ==
  /\ ~ev.trap /\ ev.count = 1                               \* exactly the registered function, once
  /\ \A i \in 1..Len(ev.args) :
       "seen" \in DOMAIN ev.args[i] /\ Eq(ev.args[i].seen, CbSeenExpected(ev.args[i]))
  /\ IF CbRetFits(ev)
       THEN /\ ev.out = "ok"
            /\ CASE ev.ret.cls = "v" -> TRUE
                 [] ev.ret.cls = "p" -> IF IsNeg(ev.ret_host) THEN IsZero(ev.ret_guest)
                                        ELSE Eq(ev.ret_guest, ev.ret_host)
                 [] OTHER -> Eq(ev.ret_guest, ev.ret_host)
       ELSE ev.out = "abort"
=============================================================================
