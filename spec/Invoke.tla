------------------------------ MODULE Invoke ------------------------------
(***************************************************************************)
(* Property C11, argument/result fidelity of sandbox function invocation:  *)
(* a call either aborts because some argument is not representable in the  *)
(* sandbox ABI, or the sandboxed function runs exactly once, observes      *)
(* exactly the argument values in the guest ABI (pointers as region        *)
(* offsets, null as 0, callbacks as their entry point, floats bit for      *)
(* bit), and its result arrives converted back.                            *)
(*                                                                         *)
(* ev.args[i] = [cls \in {"i","f","p","c"}, gbits, gs, v, seen, sbits]:    *)
(*   gbits/gs  the guest type the harness states for that parameter        *)
(*   v         the value passed (Wide; pointers: region offset, -1 = null) *)
(*   seen      what the guest function received (Wide), sbits its width    *)
(***************************************************************************)
EXTENDS Wide, Sequences

ArgFits(a) == a.cls # "i" \/ InType(a.v, a.gbits, a.gs)
Expected(a) == IF a.cls = "p" /\ IsNeg(a.v) THEN WZero ELSE a.v

CallAllowed(ev) ==
  IF \A i \in 1..Len(ev.args) : ArgFits(ev.args[i])
    THEN /\ ev.out = "ok"
         /\ ev.count = 1                                   \* exactly once
         /\ \A i \in 1..Len(ev.args) :
              LET a == ev.args[i] IN
              /\ "seen" \in DOMAIN a
              /\ Eq(a.seen, Expected(a))                   \* same value in the guest ABI
              /\ a.sbits = a.gbits                         \* carried in the guest type
         /\ CASE ev.ret.cls = "v" -> TRUE
              [] ev.ret.cls = "p" -> IF IsZero(ev.ret_guest) THEN Eq(ev.ret_app, FromInt(-1))
                                     ELSE Eq(ev.ret_app, ev.ret_guest)
              [] OTHER -> Eq(ev.ret_app, ev.ret_guest)     \* converted back, same value
    ELSE ev.out = "abort"                                   \* before the call (flag build: see DESIGN)
=============================================================================
