SPECIFICATION Spec
CONSTANT FullRhs = FALSE
