SPECIFICATION SSpec
CONSTANT Kinds <- KindsDef
CONSTANT MaxLen = 4
CONSTANT Pairs = TRUE
VIEW SView
INVARIANT STypeOK
ACTION_CONSTRAINT SEmit
CHECK_DEADLOCK FALSE
