--------------------------- MODULE Trace_IntConv ---------------------------
(* Oracle for C06: evaluates the Contract ConvAllowed on every recorded     *)
(* conversion event (run summaries with results) at constant level.         *)
EXTENDS IntConv, Json, IOUtils
T == ndJsonDeserialize(IOEnv.TRACE)
VARIABLE x
Spec == x = 0 /\ [][x' = x]_x
Bad == {i \in 1..Len(T) : ~ConvAllowed(T[i])}
ASSUME PrintT(<<"RESULT", ToJson([bad |-> Bad, n |-> Len(T)])>>)
=============================================================================
