SPECIFICATION TSpec
