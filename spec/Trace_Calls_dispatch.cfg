SPECIFICATION TSpec
CONSTANT Mode = "dispatch"
