SPECIFICATION Spec
