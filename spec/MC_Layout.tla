---------------------------- MODULE MC_Layout ----------------------------
(* Instance of the layout state machine for the wasm32 guest ABI: field kinds of the      *)
(* generated struct family with their guest size / alignment.                             *)
EXTENDS Layout
K(n, s, a) == [name |-> n, gs |-> s, ga |-> a]
KindsDef == {K("char", 1, 1), K("uchar", 1, 1), K("bool", 1, 1), K("short", 2, 2), K("ushort", 2, 2),
             K("int", 4, 4), K("uint", 4, 4), K("long", 4, 4), K("ulong", 4, 4), K("llong", 8, 8),
             K("float", 4, 4), K("double", 8, 8), K("enum", 4, 4), K("ptr", 4, 4), K("fnptr", 4, 4),
             K("carr3", 3, 1), K("iarr2", 8, 4), K("larr2", 8, 4), K("parr2", 8, 4), K("carr2x2", 4, 1), K("iarr2x2", 16, 4), K("larr2x2", 16, 4),
             K("inner", 8, 4), K("innerp", 12, 4)}
=============================================================================
