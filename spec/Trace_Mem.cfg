SPECIFICATION Spec
