---------------------------- MODULE Trace_Calls ----------------------------
(***************************************************************************)
(* Trace validation for C12 / C19: folds CallsContract over the events     *)
(* recorded by harness/tree_driver.cpp (every crossing, every transition   *)
(* notification, the timing records) from real rlbox_sandbox objects.      *)
(* An event outside the Contract is recorded in `bad`; the rest of that    *)
(* tree (up to the next "tree"/"reset" marker) is skipped.                 *)
(***************************************************************************)
EXTENDS CallsContract, TLC, Json, IOUtils

T == ndJsonDeserialize(IOEnv.TRACE)
N == Len(T)

VARIABLES st, l, bad, done
tvars == <<st, l, bad, done>>

ToSet(q) == {q[i] : i \in 1..Len(q)}

\* resynchronise at the next timing event (end of the current tree) or reset
NextSync(i) ==
  LET S == {j \in (i + 1)..N : T[j].e \in {"timing", "reset"}}
  IN IF S = {} THEN N + 1
     ELSE LET j == CHOOSE j \in S : \A k \in S : j <= k IN IF T[j].e = "timing" THEN j + 1 ELSE j

Accept(ev) == Allowed(st, ev) /\ CInv(Apply(st, ev))

TInit == /\ st = CInit({}, FALSE, FALSE, [x \in {} |-> 0])
         /\ l = 1
         /\ bad = <<>>
         /\ done = FALSE

Cleared(s) == [s EXCEPT !.stack = <<>>, !.unw = FALSE, !.closed = [x \in DOMAIN @ |-> <<>>]]

TNext ==
  \/ /\ l <= N
     /\ LET ev == T[l] IN
        IF ev.e = "reset"
          THEN /\ st' = CInit(ToSet(ev.sandboxes), ev.hooks, ev.fits,
                            IF "libs" \in DOMAIN ev THEN ev.libs ELSE [s \in ToSet(ev.sandboxes) |-> 0])
               /\ l' = l + 1
               /\ UNCHANGED <<bad, done>>
        ELSE IF Accept(ev)
          THEN /\ st' = Apply(st, ev)
               /\ l' = l + 1
               /\ UNCHANGED <<bad, done>>
        ELSE /\ bad' = Append(bad, l)
             /\ l' = IF Len(bad) >= 99 THEN N + 1 ELSE NextSync(l)   \* (the first 100 are reported)
             /\ st' = Cleared(st)
             /\ UNCHANGED done
  \/ /\ l = N + 1 /\ ~done
     /\ done' = TRUE
     /\ PrintT(<<"RESULT", ToJson([bad |-> bad, n |-> N])>>)
     /\ UNCHANGED <<st, l, bad>>

TSpec == TInit /\ [][TNext]_tvars
=============================================================================
