---------------------------- MODULE Trace_Abort ----------------------------
(* Oracle for harness/abort_driver.cpp: constant-level evaluation of Abort.AbortProbeAllowed. *)
EXTENDS Abort, Sequences, Naturals, TLC, Json, IOUtils
T == ndJsonDeserialize(IOEnv.TRACE)
VARIABLE x
Spec == x = 0 /\ [][x' = x]_x
Bad == {i \in 1..Len(T) : ~(T[i].e = "abortprobe" /\ AbortProbeAllowed(T[i]))}
ASSUME PrintT(<<"RESULT", ToJson([bad |-> Bad, n |-> Len(T)])>>)
=============================================================================
