------------------------------- MODULE Sbx -------------------------------
(***************************************************************************)
(* Model of the stateful machinery of rlbox_sandbox.hpp /                   *)
(* rlbox_policy_types.hpp at the granularity of public calls (the          *)
(* single-threaded view; RLBoxThreads.tla refines create/destroy/lookup    *)
(* into their lock-level steps).  One action per public call, the same     *)
(* order of checks as the code:                                            *)
(*   create_sandbox   CAS NOT_CREATED->INITIALIZING, backend create (may   *)
(*                    fail), store CREATED, push on the live list          *)
(*   destroy_sandbox  CAS CREATED->CLEANING_UP, erase from the list, drop   *)
(*                    per-incarnation tables, store NOT_CREATED, backend    *)
(*   register_callback  status check, duplicate check on callback_keys,     *)
(*                    push key, backend slot, owner object                  *)
(*   sandbox_callback special members, unregister_callback (status guard,  *)
(*                    incarnation guard, backend slot, key list)            *)
(*   lookup_symbol / internal_lookup_symbol with their per-instance caches  *)
(* TLC checks Model => Contract (SbxContract), invariants tying the code's  *)
(* tables to the Contract's notion of "registered", and emits every edge.  *)
(***************************************************************************)
EXTENDS SbxContract, TLC, Json

CONSTANTS SandboxSet, FuncSet, OwnerSet, Slots, NameSet, LibSet, MaxInc,
          Acts,        \* enabled action names
          EmitEdges

Sig(x) == IF x \in {"f3", "o3"} THEN "B" ELSE "A"

VARIABLES status,    \* "nc" | "init" (INITIALIZING after a failed create) | "cr"
          inc, lib,
          registry,  \* set of sandboxes on the live list
          keys,      \* callback_keys per sandbox
          slot,      \* backend table: [s -> [1..Slots -> fn or ""]]
          cacheI,    \* names cached by lookup_symbol (invoke addresses)
          cacheF,    \* names cached by internal_lookup_symbol (function-pointer reps)
          own,       \* owner objects, as in the Contract (inc = tag stored in the owner)
          last       \* ghost: expected observation

vars == <<status, inc, lib, registry, keys, slot, cacheI, cacheF, own>>
View == vars

EmptySlots == [i \in 1..Slots |-> ""]

Abs == [slots  |-> Slots,
        status |-> [s \in SandboxSet |-> IF status[s] = "init" THEN "failed" ELSE status[s]],
        inc    |-> inc,
        lib    |-> lib,
        own    |-> own]

MInit ==
  /\ status = [s \in SandboxSet |-> "nc"]
  /\ inc = [s \in SandboxSet |-> 0]
  /\ lib = [s \in SandboxSet |-> 0]
  /\ registry = {}
  /\ keys = [s \in SandboxSet |-> {}]
  /\ slot = [s \in SandboxSet |-> EmptySlots]
  /\ cacheI = [s \in SandboxSet |-> {}]
  /\ cacheF = [s \in SandboxSet |-> {}]
  /\ own = [o \in OwnerSet |-> NoOwner]
  /\ last = [e |-> "init"]

Ev(r) == last' = r

Create(s, l, fail) ==
  /\ "create" \in Acts
  /\ IF status[s] # "nc"
       THEN UNCHANGED vars /\ Ev([e |-> "create", s |-> s, lib |-> l, fail |-> fail, out |-> "abort"])
     ELSE IF fail
       THEN /\ status' = [status EXCEPT ![s] = "init"]
            /\ UNCHANGED <<inc, lib, registry, keys, slot, cacheI, cacheF, own>>
            /\ Ev([e |-> "create", s |-> s, lib |-> l, fail |-> fail, out |-> "false"])
     ELSE /\ status' = [status EXCEPT ![s] = "cr"]
          /\ inc' = [inc EXCEPT ![s] = @ + 1]
          /\ lib' = [lib EXCEPT ![s] = l]
          /\ registry' = registry \cup {s}
          /\ UNCHANGED <<keys, slot, cacheI, cacheF, own>>
          /\ Ev([e |-> "create", s |-> s, lib |-> l, fail |-> fail, out |-> "ok"])

Destroy(s) ==
  /\ "destroy" \in Acts
  /\ IF status[s] # "cr"
       THEN UNCHANGED vars /\ Ev([e |-> "destroy", s |-> s, out |-> "abort"])
     ELSE /\ status' = [status EXCEPT ![s] = "nc"]
          /\ registry' = registry \ {s}
          /\ keys' = [keys EXCEPT ![s] = {}]
          /\ slot' = [slot EXCEPT ![s] = EmptySlots]
          /\ cacheI' = [cacheI EXCEPT ![s] = {}]
          /\ cacheF' = [cacheF EXCEPT ![s] = {}]
          /\ UNCHANGED <<inc, lib, own>>
          /\ Ev([e |-> "destroy", s |-> s, out |-> "ok"])

Malloc(s) ==
  /\ "malloc" \in Acts
  /\ UNCHANGED vars
  /\ Ev([e |-> "malloc", s |-> s, out |-> IF status[s] = "cr" THEN "in" ELSE "null"])

Free(s) ==
  /\ "free" \in Acts
  /\ UNCHANGED vars
  /\ Ev([e |-> "free", s |-> s, out |-> "ok"])

FreeSlots(s) == {i \in 1..Slots : slot[s][i] = ""}
MinOf(S) == CHOOSE x \in S : \A y \in S : x <= y

Register(s, f, o) ==
  /\ "register" \in Acts
  /\ own[o].k = "none" /\ Sig(f) = Sig(o)
  /\ LET base == [e |-> "register", s |-> s, f |-> f, o |-> o] IN
     IF status[s] # "cr" \/ f \in keys[s]
       THEN UNCHANGED vars /\ Ev(base @@ [out |-> "abort", entry |-> 0])
     ELSE IF FreeSlots(s) = {}
       \* the key is removed again before the refusal is reported
       THEN UNCHANGED vars /\ Ev(base @@ [out |-> "abort", entry |-> 0])
     ELSE LET i == MinOf(FreeSlots(s)) IN
          /\ keys' = [keys EXCEPT ![s] = @ \cup {f}]
          /\ slot' = [slot EXCEPT ![s][i] = f]
          /\ own' = [own EXCEPT ![o] = LiveOwner(s, f, inc[s])]
          /\ UNCHANGED <<status, inc, lib, registry, cacheI, cacheF>>
          /\ Ev(base @@ [out |-> "ok", entry |-> i])

\* effect of sandbox_callback::unregister() on the sandbox tables
Unreg(r) ==
  IF r.k = "live" /\ status[r.sb] = "cr" /\ inc[r.sb] = r.inc
    THEN /\ keys' = [keys EXCEPT ![r.sb] = @ \ {r.fn}]
         /\ slot' = [slot EXCEPT ![r.sb] = [i \in 1..Slots |-> IF @[i] = r.fn THEN "" ELSE @[i]]]
    ELSE UNCHANGED <<keys, slot>>

Unregister(o) ==
  /\ "unregister" \in Acts
  /\ own[o].k # "none"
  /\ Unreg(own[o])
  /\ own' = [own EXCEPT ![o] = EmptyOwner]
  /\ UNCHANGED <<status, inc, lib, registry, cacheI, cacheF>>
  /\ Ev([e |-> "unregister", o |-> o, out |-> "ok"])

ODestroy(o) ==
  /\ "odestroy" \in Acts
  /\ own[o].k # "none"
  /\ Unreg(own[o])
  /\ own' = [own EXCEPT ![o] = NoOwner]
  /\ UNCHANGED <<status, inc, lib, registry, cacheI, cacheF>>
  /\ Ev([e |-> "odestroy", o |-> o, out |-> "ok"])

OMoveC(o, o2) ==
  /\ "omovec" \in Acts
  /\ o # o2 /\ Sig(o) = Sig(o2) /\ own[o].k # "none" /\ own[o2].k = "none"
  /\ own' = [own EXCEPT ![o2] = own[o], ![o] = EmptyOwner]
  /\ UNCHANGED <<status, inc, lib, registry, keys, slot, cacheI, cacheF>>
  /\ Ev([e |-> "omovec", o |-> o, o2 |-> o2, out |-> "ok"])

\* operator=(sandbox_callback&&): if (this != &other) { unregister(); move_obj(other); }
OMoveA(o, o2) ==
  /\ "omovea" \in Acts
  /\ Sig(o) = Sig(o2) /\ own[o].k # "none" /\ own[o2].k # "none"
  /\ IF o = o2 THEN UNCHANGED vars
     ELSE /\ Unreg(own[o2])
          /\ own' = [own EXCEPT ![o2] = own[o], ![o] = EmptyOwner]
          /\ UNCHANGED <<status, inc, lib, registry, cacheI, cacheF>>
  /\ Ev([e |-> "omovea", o |-> o, o2 |-> o2, out |-> "ok"])

SlotSeq(s) == LET idx == {i \in 1..Slots : slot[s][i] # ""} IN
              [j \in 1..Cardinality(idx) |->
                 slot[s][CHOOSE i \in idx : Cardinality({k \in idx : k < i}) = j - 1]]

Probe(s) ==
  /\ "probe" \in Acts
  /\ status[s] = "cr"
  /\ UNCHANGED vars
  /\ Ev([e |-> "probe", s |-> s, out |-> "ok", ran |-> SlotSeq(s),
         sbrefs |-> [j \in 1..Len(SlotSeq(s)) |-> s]])

Xlate(s, k) ==
  /\ "xlate" \in Acts
  /\ k \in 1..inc[s]
  /\ UNCHANGED vars
  /\ IF s \in registry /\ inc[s] = k
       THEN Ev([e |-> "xlate", s |-> s, k |-> k, out |-> "ok", found |-> s])
       ELSE Ev([e |-> "xlate", s |-> s, k |-> k, out |-> "abort", found |-> ""])

PtrRT(s) ==
  /\ "ptrrt" \in Acts
  /\ status[s] = "cr"
  /\ UNCHANGED vars
  /\ Ev([e |-> "ptrrt", s |-> s, out |-> "ok"])

Invoke(s, n) ==
  /\ "invoke" \in Acts
  /\ status[s] = "cr"
  /\ cacheI' = [cacheI EXCEPT ![s] = @ \cup {n}]
  /\ UNCHANGED <<status, inc, lib, registry, keys, slot, cacheF, own>>
  /\ Ev([e |-> "invoke", s |-> s, name |-> n, out |-> "ok", ranlib |-> lib[s], ranfn |-> n, count |-> 1])

FnAddr(s, n) ==
  /\ "fnaddr" \in Acts
  /\ status[s] = "cr"
  /\ cacheF' = [cacheF EXCEPT ![s] = @ \cup {n}]
  /\ UNCHANGED <<status, inc, lib, registry, keys, slot, cacheI, own>>
  /\ Ev([e |-> "fnaddr", s |-> s, name |-> n, out |-> "ok", idx |-> 1, want |-> 1])

MNext ==
  \/ \E s \in SandboxSet, l \in LibSet, fail \in BOOLEAN : Create(s, l, fail)
  \/ \E s \in SandboxSet : Destroy(s) \/ Malloc(s) \/ Free(s) \/ Probe(s) \/ PtrRT(s)
  \/ \E s \in SandboxSet, f \in FuncSet, o \in OwnerSet : Register(s, f, o)
  \/ \E o \in OwnerSet : Unregister(o) \/ ODestroy(o)
  \/ \E o, o2 \in OwnerSet : OMoveC(o, o2) \/ OMoveA(o, o2)
  \/ \E s \in SandboxSet, k \in 1..MaxInc : Xlate(s, k)
  \/ \E s \in SandboxSet, n \in NameSet : Invoke(s, n) \/ FnAddr(s, n)

MSpec == MInit /\ [][MNext]_<<vars, last>>

IncBound == \A s \in SandboxSet : inc[s] <= MaxInc

(***************************************************************************)
(* Checked by TLC                                                          *)
(***************************************************************************)
TypeOK ==
  /\ status \in [SandboxSet -> {"nc", "init", "cr"}]
  /\ registry \subseteq SandboxSet
  /\ \A s \in SandboxSet : keys[s] \subseteq FuncSet

ContractInv == CInv(Abs)

\* the code's tables coincide with the Contract's notion of "registered" (C13), the
\* live list with the created sandboxes (C14), nothing survives an incarnation (C14)
TablesExact ==
  \A s \in SandboxSet :
    /\ (status[s] = "cr") = (s \in registry)
    /\ status[s] = "cr" => /\ keys[s] = Registered(Abs, s)
                           /\ {slot[s][i] : i \in 1..Slots} \ {""} = Registered(Abs, s)
    /\ status[s] # "cr" => keys[s] = {} /\ cacheI[s] = {} /\ cacheF[s] = {}

RefStep == /\ Allowed(Abs, last')
           /\ Abs' = Apply(Abs, last')
Refines == [][RefStep]_<<vars, last>>

Emit == EmitEdges =>
          PrintT(<<"EDGE", ToJson([src |-> [st |-> status, i |-> inc, l |-> lib, k |-> keys, sl |-> slot,
                                            ci |-> cacheI, cf |-> cacheF, o |-> own],
                                   dst |-> [st |-> status', i |-> inc', l |-> lib', k |-> keys', sl |-> slot',
                                            ci |-> cacheI', cf |-> cacheF', o |-> own'],
                                   ev |-> last'])>>)
=============================================================================
