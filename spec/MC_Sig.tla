------------------------------ MODULE MC_Sig ------------------------------
EXTENDS Sig
KindsDef == {"char", "schar", "uchar", "bool", "short", "ushort", "int", "uint", "long", "ulong", "llong", "ullong",
             "float", "double", "intp", "voidp", "ccharp", "intpp", "fnp", "char16", "char32"}
=============================================================================
