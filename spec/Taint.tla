------------------------------- MODULE Taint -------------------------------
(***************************************************************************)
(* Properties C01 / C02 (the part that quantifies over PROGRAMS): the type *)
(* discipline of the wrapper types as a one-step transition system over    *)
(* abstract expression values [k |-> wrapper kind, t |-> type class].      *)
(*                                                                         *)
(* The space of programs is the finite product defined here:               *)
(*     Programs == forms x left operands [x right operands]                *)
(* TLC enumerates it (PROGRAM lines); gen/taint_corpus.py renders each     *)
(* instance as a C++ function body against the real headers; the compiler  *)
(* verdict (and, when accepted, the type of the expression) is the         *)
(* observed transition.  The Contract FormAllowed judges each observation: *)
(*                                                                         *)
(*  C01  a value of sandbox origin becomes a plain application value only  *)
(*       through a named unwrapping call or the null test of a tainted     *)
(*       pointer; every other form is rejected or yields another wrapped   *)
(*       value; a comparison involving data still in sandbox memory (or a  *)
(*       hint) yields only a hint; a hint cannot be passed to a verifier.  *)
(*  C02  forms that would let a raw application pointer, a raw function    *)
(*       pointer, an array of raw pointers, a wrapper of another sandbox   *)
(*       type, or a mismatching function-pointer type into a wrapper, a    *)
(*       sandbox call or a callback registration are rejected.             *)
(*                                                                         *)
(* Because every accepted non-unwrapping form yields a wrapped value whose *)
(* kind is again in Kinds, the one-step statement closes under chains of   *)
(* any length (NoImplicitLeak by induction on the chain).                  *)
(***************************************************************************)
EXTENDS Naturals, Sequences, FiniteSets, TLC, Json

\* wrapper kinds: tainted, tainted_volatile, opaque, callback, app pointer, boolean / int hint
Kinds == {"T", "TV", "O", "CB", "AP", "BH", "IH"}
\* result kinds of an accepted expression: the above, WP (a C++ pointer/reference to a wrapper
\* object, still wrapped), V (void / no value), P (plain application value)
Wrapped == Kinds \cup {"WP", "V"}

\* operands of the corpus: [v |-> variable in the prelude's Env, k |-> kind, t |-> type class]
Op(v, k, t) == [v |-> v, k |-> k, t |-> t]
PtrClasses == {"ptr", "pp", "voidp", "charp", "psp", "parr", "pfn", "fnptr"}
Operands ==
  { Op("e.t_int", "T", "int"), Op("e.t_uchar", "T", "narrow"), Op("e.t_bool", "T", "bool"), Op("e.t_long", "T", "long"),
    Op("e.t_enum", "T", "enum"), Op("e.t_float", "T", "float"), Op("e.t_double", "T", "float"),
    Op("e.t_ptr", "T", "ptr"), Op("e.t_pp", "T", "pp"), Op("e.t_voidp", "T", "voidp"), Op("e.t_charp", "T", "charp"),
    Op("e.t_fn", "T", "fnptr"), Op("e.t_arr", "T", "arr"), Op("e.t_ps", "T", "struct"), Op("e.t_psp", "T", "psp"),
    Op("e.v_int", "TV", "int"), Op("e.v_uchar", "TV", "narrow"), Op("e.v_bool", "TV", "bool"), Op("e.v_long", "TV", "long"),
    Op("e.v_enum", "TV", "enum"), Op("e.v_double", "TV", "float"), Op("e.v_ptr", "TV", "ptr"), Op("e.v_fn", "TV", "fnptr"),
    Op("e.v_arr", "TV", "arr"), Op("e.v_ps", "TV", "struct"),
    Op("e.o_int", "O", "int"), Op("e.o_ptr", "O", "ptr"), Op("e.cb", "CB", "fnptr"), Op("e.ap", "AP", "ptr"),
    Op("e.bh", "BH", "bool"), Op("e.ih", "IH", "int"),
    \* results of another operation: what indexing or dereferencing a tainted POINTER yields lives in
    \* sandbox memory (tainted_volatile), whatever the pointee is; an element of a tainted array in
    \* application memory is tainted
    Op("e.t_pp[1]", "TV", "ptr"), Op("(*e.t_pp)", "TV", "ptr"), Op("e.t_ptr[1]", "TV", "int"), Op("(*e.t_ptr)", "TV", "int"),
    Op("e.t_arr[1]", "T", "int"), Op("e.v_arr[1]", "TV", "int") }

\* right operands of binary forms
Rhs ==
  { Op("1", "P", "int"), Op("e.r_int", "P", "int"), Op("e.r_ull", "P", "long"), Op("e.r_double", "P", "float"),
    Op("e.t_int", "T", "int"), Op("e.t_long", "T", "long"), Op("e.v_int", "TV", "int"), Op("e.t_ptr", "T", "ptr"),
    Op("e.v_ptr", "TV", "ptr"), Op("e.o_int", "O", "int"), Op("e.bh", "BH", "bool"), Op("nullptr", "P", "null"),
    Op("(e.t_int + 1)", "T", "int"), Op("e.r_ptr", "P", "rawptr"), Op("e.t2_int", "T2", "int") }

\* forms.  cls:
\*   "unwrap"   named unwrapping call                    (plain result allowed)
\*   "nulltest" boolean test of the operand              (plain result allowed only for a tainted pointer)
\*   "conv"     conversion context to a plain type       (accepting it IS the leak)
\*   "expr"     operator / member expression             (result kind observed)
\*   "enter"    C02: something unchecked enters          (must be rejected)
\*   "legal"    C02 control: a checked / permitted entry (recorded; no constraint)
F(n, c, a, cmp) == [name |-> n, cls |-> c, arity |-> a, cmp |-> cmp]
UnaryForms ==
  { F("neg", "expr", 1, FALSE), F("compl", "expr", 1, FALSE), F("not", "nulltest", 1, FALSE), F("deref", "expr", 1, FALSE),
    F("addr", "expr", 1, FALSE), F("arrow", "expr", 1, FALSE), F("preinc", "expr", 1, FALSE), F("postinc", "expr", 1, FALSE),
    F("predec", "expr", 1, FALSE), F("postdec", "expr", 1, FALSE),
    F("if", "nulltest", 1, FALSE), F("while", "nulltest", 1, FALSE), F("ternary", "nulltest", 1, FALSE),
    F("init_bool", "nulltest", 1, FALSE), F("cast_bool", "nulltest", 1, FALSE), F("andand_plain", "nulltest", 1, FALSE),
    F("switch", "conv", 1, FALSE), F("subscript_use", "conv", 1, FALSE), F("init_int", "conv", 1, FALSE),
    F("init_long", "conv", 1, FALSE), F("init_double", "conv", 1, FALSE), F("init_ptr", "conv", 1, FALSE),
    F("init_voidp", "conv", 1, FALSE), F("init_fn", "conv", 1, FALSE), F("init_struct", "conv", 1, FALSE),
    F("assign_int", "conv", 1, FALSE), F("static_cast_int", "conv", 1, FALSE), F("c_cast_long", "conv", 1, FALSE),
    F("c_cast_ptr", "conv", 1, FALSE), F("reinterpret_long", "conv", 1, FALSE), F("arg_int", "conv", 1, FALSE),
    F("arg_cref", "conv", 1, FALSE), F("arg_ptr", "conv", 1, FALSE), F("arg_cptr", "conv", 1, FALSE),
    F("arg_fn", "conv", 1, FALSE), F("arg_struct", "conv", 1, FALSE), F("brace_int", "conv", 1, FALSE),
    F("return_int", "conv", 1, FALSE), F("return_ptr", "conv", 1, FALSE), F("printf_like", "conv", 1, FALSE),
    F("plain_plus", "conv", 1, FALSE), F("ptr_diff", "conv", 1, FALSE), F("std_string", "conv", 1, FALSE),
    F("memcpy_raw", "conv", 1, FALSE),
    F("UNSAFE_unverified", "unwrap", 1, FALSE), F("UNSAFE_sandboxed", "unwrap", 1, FALSE),
    F("unverified_safe_because", "unwrap", 1, FALSE), F("unverified_safe_pointer_because", "unwrap", 1, FALSE),
    F("copy_and_verify", "unwrap", 1, FALSE), F("copy_and_verify_range", "unwrap", 1, FALSE),
    F("copy_and_verify_string", "unwrap", 1, FALSE), F("copy_and_verify_address", "unwrap", 1, FALSE),
    F("copy_and_verify_buffer_address", "unwrap", 1, FALSE), F("INTERNAL_unverified_safe", "unwrap", 1, FALSE),
    F("to_tainted_same", "expr", 1, FALSE), F("to_tainted_long", "expr", 1, FALSE), F("to_opaque", "expr", 1, FALSE),
    F("from_opaque", "expr", 1, FALSE), F("static_cast_long", "expr", 1, FALSE), F("reinterpret_charp", "expr", 1, FALSE),
    F("const_cast_same", "expr", 1, FALSE), F("copy_wrapper", "expr", 1, FALSE), F("member_a", "expr", 1, FALSE),
    F("get_raw_private", "conv", 1, FALSE), F("data_private", "conv", 1, FALSE),
    \* comparisons of whole memory ranges that (may) still reside in the sandbox: a hint, nothing else
    F("memcmp_with_raw", "rangecmp", 1, FALSE), F("memcmp_raw_first", "rangecmp", 1, FALSE),
    F("memcmp_with_self", "rangecmp", 1, FALSE), F("memcmp_tainted_len", "rangecmp", 1, FALSE) }
BinOps == {"add", "sub", "mul", "div", "mod", "xor", "and", "or", "shl", "shr", "andand", "oror", "index",
           "addeq", "subeq", "muleq", "shleq", "radd", "rsub", "rmul", "rshl"}
CmpOps == {"eq", "ne", "lt", "le", "gt", "ge", "req", "rlt"}
BinaryForms == {F(n, "expr", 2, FALSE) : n \in BinOps} \cup {F(n, "expr", 2, TRUE) : n \in CmpOps}

\* C02 entry forms: fixed programs (no operands)
EnterForms ==
  { "taint_ctor_rawptr", "taint_init_rawptr", "taint_assign_rawptr", "vol_assign_rawptr", "vol_assign_rawfn",
    "vol_assign_arr_rawptr", "taint_assign_rawfn", "taint_ctor_rawcharp", "vol_assign_rawvoidp",
    "taint_ctor_rawpp", "taint_init_rawpp", "taint_assign_rawpp", "taint_ctor_rawvpp", "taint_ctor_rawccpp",
    "taint_ctor_rawvoidp",
    "invoke_rawptr", "invoke_rawfn", "invoke_plain_struct", "invoke_foreign_tainted", "invoke_foreign_ptr",
    "invoke_foreign_callback", "invoke_wrong_arity", "invoke_callback_wrong_type", "invoke_tainted_fn_wrong_type",
    "invoke_arr_rawptr", "invoke_rawcharp",
    "register_no_sandbox", "register_nothing", "register_wrong_first", "register_other_sandbox_ref",
    "register_plain_param", "register_plain_ptr_param", "register_volatile_param", "register_array_param",
    "register_foreign_param", "register_plain_ret", "register_plain_ptr_ret",
    "vol_assign_callback_wrong_type", "vol_assign_tainted_fn_wrong_type", "vol_assign_tainted_ptr_wrong_type",
    "vol_assign_tainted_fn_to_dataptr", "vol_assign_tainted_dataptr_to_fn", "taint_assign_callback",
    "tainted_number_plus_rawptr", "volatile_number_plus_rawptr", "volatile_pluseq_rawptr", "int_plus_tainted_ptr",
    "assign_raw_pointer_wrong_type", "accept_pointer_nonpointer", "taint_from_foreign", "vol_assign_foreign",
    "reinterpret_fn_to_data", "reinterpret_data_to_fn", "free_foreign", "memcpy_dest_raw", "app_ptr_as_callback",
    \* function-pointer types that differ for the application and coincide only under the guest ABI
    "vol_assign_callback_abi_equal_long", "vol_assign_callback_abi_equal_int", "vol_assign_callback_abi_equal_ptr",
    "vol_assign_callback_abi_equal_uint", "vol_assign_tainted_fn_abi_equal_long", "vol_assign_tainted_fn_abi_equal_ptr",
    "taint_assign_tainted_fn_abi_equal", "invoke_callback_abi_equal", "invoke_tainted_fn_abi_equal",
    \* the same sources on a sandbox type whose pointer representation has the host's pointer width
    "vol_assign_stdarray_rawptr", "vol64_assign_rawptr", "vol64_assign_arr_rawptr", "vol64_assign_stdarray_rawptr",
    "vol64_assign_rawfn", "vol64_assign_rawptr_as_long", "taint64_assign_rawptr", "invoke64_rawptr",
    "vol64_assign_foreign_ptr" }
\* callback signatures that would hand a sandbox-supplied argument to the application unwrapped
CbParamForms ==
  { "register_mixed_ptr", "register_mixed_struct", "register_mixed_ref", "register_mixed_fn", "register_mixed_int_last",
    "register_mixed_first_plain" }
LegalForms ==
  { "taint_nullptr", "vol_assign_nullptr", "vol_assign_tainted_ptr", "vol_assign_callback", "vol_assign_callback_long", "vol_assign_callback_intp", "vol_assign_tainted_fn",
    "invoke_ok_int", "invoke_ok_tainted", "invoke_ok_nullptr", "invoke_ok_callback", "invoke_ok_opaque",
    "invoke_ok_volatile", "invoke_ok_app_pointer",
    "register_ok", "register_ok_ptr", "register_ok_void", "register_ok_opaque",
    "assign_raw_pointer_ok", "accept_pointer_ok", "vol_assign_raw_pointer_ok", "vol_assign_plain_int",
    "vol_assign_plain_arr", "vol_assign_plain_stdarray", "vol64_assign_tainted_ptr" }

CONSTANT FullRhs    \* TRUE: every right operand; FALSE: the quick tier's representative subset
RhsUsed == IF FullRhs THEN Rhs
           ELSE {r \in Rhs : r.v \in {"1", "e.r_int", "e.t_int", "e.v_int", "e.bh", "nullptr", "e.r_ptr", "(e.t_int + 1)"}}
Programs ==
  {[form |-> f.name, cls |-> f.cls, cmp |-> FALSE, x |-> o, y |-> Op("", "", "")] : f \in UnaryForms, o \in Operands} \cup
  {[form |-> f.name, cls |-> f.cls, cmp |-> f.cmp, x |-> o, y |-> r] : f \in BinaryForms, o \in Operands, r \in RhsUsed} \cup
  {[form |-> n, cls |-> "enter", cmp |-> FALSE, x |-> Op("", "", ""), y |-> Op("", "", "")] : n \in EnterForms} \cup
  {[form |-> n, cls |-> "legal", cmp |-> FALSE, x |-> Op("", "", ""), y |-> Op("", "", "")] : n \in LegalForms} \cup
  {[form |-> n, cls |-> "cbparam", cmp |-> FALSE, x |-> Op("", "", ""), y |-> Op("", "", "")] : n \in CbParamForms}

(***************************************************************************)
(* Contract on an observed program: ev = program record + verdict + rk     *)
(***************************************************************************)
IsTaintedPtr(o) == o.k = "T" /\ o.t \in PtrClasses
FormAllowed(ev) ==
  CASE ev.cls = "unwrap" ->
         \* a hint must not be accepted by a verifier
         IF ev.form \in {"copy_and_verify", "copy_and_verify_range", "copy_and_verify_string",
                         "copy_and_verify_address", "copy_and_verify_buffer_address"} /\ ev.x.k \in {"BH", "IH"}
           THEN ev.verdict = "reject" ELSE TRUE
    [] ev.cls = "nulltest" ->
         \/ ev.verdict = "reject"
         \/ IsTaintedPtr(ev.x)                               \* the permitted null test
         \/ ev.rk \in Wrapped \ {"V"}                        \* e.g. !tainted_volatile pointer: a hint (a statement
                                                             \* form - if, while, ?:, bool b = ... - yields no value:
                                                             \* accepting it means the operand became a plain bool)
    [] ev.cls = "conv" -> ev.verdict = "reject"              \* accepting the conversion is the leak
    [] ev.cls = "rangecmp" -> ev.verdict = "reject" \/ ev.rk \in {"IH", "BH"}
    [] ev.cls = "expr" ->
         \/ ev.verdict = "reject"
         \/ /\ ev.rk \in Wrapped
            /\ (ev.cmp /\ (ev.x.k \in {"TV", "BH", "IH"} \/ ev.y.k \in {"TV", "BH", "IH"})) => ev.rk = "BH"
            \* a hint stays a hint: whatever is computed from one (&&, ||, arithmetic, ...) must not
            \* become a wrapper that a verifier accepts (indexing WITH a hint designates memory)
            /\ (ev.form # "index" /\ (ev.x.k \in {"BH", "IH"} \/ ev.y.k \in {"BH", "IH"}))
                 => ev.rk \in {"BH", "IH", "V"}       \* ("V": a statement, no value is produced)
         \/ /\ ev.rk = "P" /\ ev.cmp /\ ev.form \in {"eq", "ne"}   \* comparison of a tainted pointer with nullptr
            /\ IsTaintedPtr(ev.x) /\ ev.y.t = "null"
    [] ev.cls = "enter" -> ev.verdict = "reject"
    [] ev.cls = "cbparam" -> ev.verdict = "reject"           \* (C01: a callback argument stays wrapped)
    [] ev.cls = "legal" -> TRUE
    [] OTHER -> FALSE

\* NoImplicitLeak by induction: a chain of accepted forms starting from a wrapped value of
\* sandbox origin reaches a plain value only right after an unwrap / permitted null test, because
\* each step's result kind is again a wrapper kind (checked per observation by FormAllowed).
ClosureLemma == Wrapped \cap {"P"} = {}

VARIABLE z
Spec == z = 0 /\ [][z' = z]_z
=============================================================================
