------------------------------ MODULE AppPtr ------------------------------
(***************************************************************************)
(* App-pointer tokens (property C15).                                      *)
(*                                                                         *)
(* Contract: what the property allows, written as Allowed(st, ev) /        *)
(* Apply(st, ev) over the abstract state                                   *)
(*      st = [live : token -> pointer id, own : owner -> -1 (no object) | 0 | tok] *)
(* where ev is one observed API call INCLUDING its result.  The Contract   *)
(* is non-deterministic in the token a registration returns.               *)
(*                                                                         *)
(* Model: transcription of rlbox_app_pointer.hpp (get_unused_index with    *)
(* its cursor) and of app_pointer's special members in                     *)
(* rlbox_policy_types.hpp.  Deterministic, one action per public call.     *)
(*                                                                         *)
(* TLC checks Model => Contract (action property Refines), the invariants  *)
(* below, and emits every edge of the Model's state graph (Emit).          *)
(***************************************************************************)
EXTENDS AppPtrContract, TLC, Json

CONSTANTS Max,       \* token limit (1..254 for an 8-bit token type)
          Owners,    \* owner object slots (empty set = map-level model)
          EmitEdges  \* TRUE: print one EDGE line per transition

Tokens_ == 1..Max

(***************************************************************************)
(* Model (transcribes rlbox_app_pointer.hpp / rlbox_policy_types.hpp)      *)
(***************************************************************************)
VARIABLES used,    \* keys of pointer_map other than 0
          cursor,  \* app_pointer_map::counter
          own,     \* owner -> None | 0 | token  (app_pointer::idx)
          last     \* ghost: the event the harness is expected to log for this step

vars == <<used, cursor, own>>
View == vars

Abs == [max |-> Max, live |-> [t \in used |-> 1], own |-> own]

\* get_unused_index: scan cursor..Max, then 1..cursor-1
Scan1 == {i \in cursor..Max : i \notin used}
Scan2 == {i \in 1..(cursor - 1) : i \notin used}
Min(S) == CHOOSE x \in S : \A y \in S : x <= y
Pick == IF Scan1 # {} THEN Min(Scan1) ELSE IF Scan2 # {} THEN Min(Scan2) ELSE 0

MInit ==
  /\ used = {}
  /\ cursor = 1
  /\ own = [o \in Owners |-> None]
  /\ last = [e |-> "init"]

MGet ==
  /\ Owners = {}
  /\ IF Pick = 0
       THEN /\ UNCHANGED vars
            /\ last' = [e |-> "get", p |-> 1, out |-> "abort", t |-> 0]
       ELSE /\ used' = used \cup {Pick}
            /\ cursor' = Pick + 1
            /\ UNCHANGED own
            /\ last' = [e |-> "get", p |-> 1, out |-> "ok", t |-> Pick]

MRemove(t) ==
  /\ Owners = {}
  /\ IF t \in used
       THEN used' = used \ {t} /\ last' = [e |-> "remove", t |-> t, out |-> "ok"]
       ELSE used' = used /\ last' = [e |-> "remove", t |-> t, out |-> "abort"]
  /\ UNCHANGED <<cursor, own>>

MLookup(t, name) ==
  /\ UNCHANGED vars
  /\ last' = IF t \in used THEN [e |-> name, t |-> t, out |-> "ok", p |-> 1]
             ELSE [e |-> name, t |-> t, out |-> "abort", p |-> 0]

MOGet(o) ==
  /\ own[o] = None
  /\ IF Pick = 0
       THEN /\ UNCHANGED vars
            /\ last' = [e |-> "oget", o |-> o, p |-> 1, out |-> "abort", t |-> 0]
       ELSE /\ used' = used \cup {Pick}
            /\ cursor' = Pick + 1
            /\ own' = [own EXCEPT ![o] = Pick]
            /\ last' = [e |-> "oget", o |-> o, p |-> 1, out |-> "ok", t |-> Pick]

\* app_pointer::unregister: if (idx != 0) { map->remove_app_ptr(idx); idx = 0; }
MOUnreg(o) ==
  /\ own[o] # None
  /\ used' = IF own[o] = 0 THEN used ELSE used \ {own[o]}
  /\ own' = [own EXCEPT ![o] = 0]
  /\ UNCHANGED cursor
  /\ last' = [e |-> "ounreg", o |-> o, out |-> "ok"]

MODestroy(o) ==
  /\ own[o] # None
  /\ used' = IF own[o] = 0 THEN used ELSE used \ {own[o]}
  /\ own' = [own EXCEPT ![o] = None]
  /\ UNCHANGED cursor
  /\ last' = [e |-> "odestroy", o |-> o, out |-> "ok"]

MOMoveC(o, o2) ==
  /\ o # o2 /\ own[o] # None /\ own[o2] = None
  /\ own' = [own EXCEPT ![o2] = own[o], ![o] = 0]
  /\ UNCHANGED <<used, cursor>>
  /\ last' = [e |-> "omovec", o |-> o, o2 |-> o2, out |-> "ok"]

\* operator=(app_pointer&&): if (this != &other) { unregister(); move_obj(other); }
MOMoveA(o, o2) ==
  /\ own[o] # None /\ own[o2] # None
  /\ IF o = o2 THEN UNCHANGED vars
     ELSE /\ used' = IF own[o2] = 0 THEN used ELSE used \ {own[o2]}
          /\ own' = [own EXCEPT ![o2] = own[o], ![o] = 0]
          /\ UNCHANGED cursor
  /\ last' = [e |-> "omovea", o |-> o, o2 |-> o2, out |-> "ok"]

MOLookup(o) ==
  /\ own[o] \notin {None, 0}
  /\ UNCHANGED vars
  /\ last' = [e |-> "olookup", o |-> o, out |-> "ok", p |-> 1, t |-> own[o]]

MNext ==
  \/ MGet
  \/ \E t \in Tokens_ : MRemove(t)
  \/ (Owners = {} /\ \E t \in Tokens_ : MLookup(t, "lookup"))
  \/ (Owners # {} /\ \E t \in Tokens_ : MLookup(t, "lookupt"))
  \/ \E o \in Owners : MOGet(o) \/ MOUnreg(o) \/ MODestroy(o) \/ MOLookup(o)
  \/ \E o, o2 \in Owners : MOMoveC(o, o2) \/ MOMoveA(o, o2)

MSpec == MInit /\ [][MNext]_<<vars, last>>

(***************************************************************************)
(* What TLC checks                                                         *)
(***************************************************************************)
TypeOK ==
  /\ used \subseteq Tokens_
  /\ cursor \in 1..(Max + 1)
  /\ own \in [Owners -> {None} \cup (0..Max)]

ContractInv == CInv(Abs)

\* Model => Contract: every Model step is an allowed Contract step with the same effect.
\* Checked as an implied action, i.e. on every transition incl. those to seen states.
RefStep == /\ Allowed(Abs, last')
           /\ Abs' = Apply(Abs, last')
Refines == [][RefStep]_<<vars, last>>

\* One line per edge of the state graph (ghost `last` is hidden from the fingerprint
\* by VIEW, the constraint is evaluated for every generated successor).
Emit == EmitEdges =>
          PrintT(<<"EDGE", ToJson([src |-> [u |-> used, c |-> cursor, o |-> own],
                                   dst |-> [u |-> used', c |-> cursor', o |-> own'],
                                   ev |-> last'])>>)
=============================================================================
