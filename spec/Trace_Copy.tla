----------------------------- MODULE Trace_Copy -----------------------------
(* Oracle for C09: constant-level evaluation of CopyAllowed on every recorded *)
(* copy_and_verify execution (schedule + what the verifier saw).              *)
EXTENDS Copy, IOUtils
T == ndJsonDeserialize(IOEnv.TRACE)
Ok(ev) == IF ev.e = "pcopy" THEN PCellAllowed(ev) ELSE CopyAllowed(ev)
Bad == {j \in 1..Len(T) : ~Ok(T[j])}
ASSUME PrintT(<<"RESULT", ToJson([bad |-> Bad, n |-> Len(T)])>>)
=============================================================================
