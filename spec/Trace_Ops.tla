------------------------------ MODULE Trace_Ops ------------------------------
(* Oracle for C16: constant-level evaluation of the Ops Contract on every recorded *)
(* evaluation / summary / update.                                                  *)
EXTENDS Ops, TLC, Json, IOUtils
T == ndJsonDeserialize(IOEnv.TRACE)
VARIABLE x
Spec == x = 0 /\ [][x' = x]_x
Ok(ev) == CASE ev.e = "op" -> OpAllowed(ev)
            [] ev.e = "opsum" -> OpSumAllowed(ev)
            [] ev.e = "upd" -> UpdAllowed(ev)
            [] OTHER -> FALSE
Bad == {i \in 1..Len(T) : ~Ok(T[i])}
ASSUME PrintT(<<"RESULT", ToJson([bad |-> Bad, n |-> Len(T)])>>)
=============================================================================
