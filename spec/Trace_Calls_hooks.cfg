SPECIFICATION TSpec
CONSTANT Mode = "hooks"
