SPECIFICATION SSpec
CONSTANT Kinds <- KindsDef
CONSTANT MaxLen = 4
CONSTANT Pairs = FALSE
VIEW SView
INVARIANT STypeOK
ACTION_CONSTRAINT SEmit
CHECK_DEADLOCK FALSE
