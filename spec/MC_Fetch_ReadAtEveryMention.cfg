SPECIFICATION Spec
CONSTANTS
 Vals <- MCVals
 Lo = 0
 Hi = 3
 Mod = 8
 FreshReads <- ReadAtEveryMention
INVARIANTS TypeOK Explained
CHECK_DEADLOCK FALSE
