--------------------------- MODULE Trace_Layout ---------------------------
(* Oracle for C08: constant-level evaluation of the Layout Contracts on every recorded *)
(* layout / struct-store / struct-load event.                                          *)
EXTENDS Layout, IOUtils
T == ndJsonDeserialize(IOEnv.TRACE)
Ok(ev) == CASE ev.e = "layout" -> LayoutAllowed(ev)
            [] ev.e = "sstore" -> SStoreAllowed(ev)
            [] ev.e = "sload" -> SLoadAllowed(ev)
            [] OTHER -> FALSE
Bad == {i \in 1..Len(T) : ~Ok(T[i])}
ASSUME PrintT(<<"RESULT", ToJson([bad |-> Bad, n |-> Len(T)])>>)
=============================================================================
