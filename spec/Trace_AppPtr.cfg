SPECIFICATION TSpec
