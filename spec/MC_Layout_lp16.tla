---------------------------- MODULE MC_Layout_lp16 ----------------------------
(* Instance of the layout state machine for the lp16 guest ABI (int and pointers are      *)
(* 2 bytes, long is 4).                                                                   *)
EXTENDS Layout
K(n, s, a) == [name |-> n, gs |-> s, ga |-> a]
KindsDef == {K("char", 1, 1), K("uchar", 1, 1), K("bool", 1, 1), K("short", 2, 2), K("ushort", 2, 2),
             K("int", 2, 2), K("uint", 2, 2), K("long", 4, 4), K("ulong", 4, 4), K("llong", 8, 8),
             K("float", 4, 4), K("double", 8, 8), K("enum", 4, 4), K("ptr", 2, 2), K("fnptr", 2, 2),
             K("carr3", 3, 1), K("iarr2", 4, 2), K("larr2", 8, 4), K("parr2", 4, 2), K("carr2x2", 4, 1), K("iarr2x2", 8, 2), K("larr2x2", 16, 4),
             K("inner", 8, 4), K("innerp", 6, 2)}
=============================================================================
