SPECIFICATION Spec
CONSTANT Kind = "call"
