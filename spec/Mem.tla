-------------------------------- MODULE Mem --------------------------------
(***************************************************************************)
(* Sandbox-memory Contracts:                                               *)
(*  C07  a store through a tainted reference changes exactly the bytes the *)
(*       type occupies under the sandbox ABI, with the ABI's encoding; a   *)
(*       load decodes exactly those bytes;                                 *)
(*  C04  pointer representation <-> address translation is faithful,       *)
(*       null-preserving and relative to the owning sandbox;               *)
(*  C03  a pointer obtained from sandbox data is null or inside the        *)
(*       sandbox it came from.                                             *)
(* Memory is a little-endian byte array; values are exact Wide integers;   *)
(* floating-point values are their bit patterns.  Addresses are offsets    *)
(* into the 2^k-byte region of the sandbox concerned.                      *)
(***************************************************************************)
EXTENDS Wide, FiniteSets

(***************************************************************************)
(* Encoding of integers: two's complement, little endian, `n` bytes        *)
(***************************************************************************)
RECURSIVE Strip(_)
Strip(d) == IF d = <<>> THEN d ELSE IF d[Len(d)] = 0 THEN Strip(SubSeq(d, 1, Len(d) - 1)) ELSE d

\* two's complement negation of a byte sequence (same length)
RECURSIVE NegFrom(_, _, _)
NegFrom(b, i, carry) ==
  IF i > Len(b) THEN <<>>
  ELSE LET x == (255 - b[i]) + carry IN <<x % 256>> \o NegFrom(b, i + 1, x \div 256)
TwosNeg(b) == NegFrom(b, 1, 1)

\* value denoted by the bytes of an object of the given signedness
Decode(b, signed) ==
  IF signed /\ Len(b) > 0 /\ b[Len(b)] >= 128
    THEN [n |-> 1, d |-> Strip(TwosNeg(b))]
    ELSE [n |-> 0, d |-> Strip(b)]

ToSet(q) == {q[i] : i \in 1..Len(q)}

(***************************************************************************)
(* C07 store: ev = [size (guest bytes), signed, addr, v (Wide), out,       *)
(*                  changed (offsets that differ from the snapshot),       *)
(*                  bytes (content of addr..addr+size-1 afterwards)]       *)
(***************************************************************************)
Footprint(ev) == ev.addr..(ev.addr + ev.size - 1)

StoreAllowed(ev) ==
  /\ ToSet(ev.changed) \subseteq Footprint(ev)                 \* no other byte is touched, ever
  /\ ev.out = "ok" =>
       /\ Len(ev.bytes) = ev.size
       /\ IF ev.cls = "b"                                       \* bool: one byte, 0 or 1
            THEN Eq(Decode(ev.bytes, FALSE), ev.v)
            ELSE Eq(Decode(ev.bytes, ev.signed), ev.v)          \* the ABI's encoding of exactly v
  /\ ev.out = "abort" => ~InType(ev.v, ev.size * 8, ev.signed) \/ ev.cls \in {"p", "b"}
                                                                \* aborts only when not representable

(***************************************************************************)
(* C07 load: ev = [size, signed, addr, bytes, got (Wide), got2 (Wide, same *)
(*                 load with different surrounding bytes), out]            *)
(***************************************************************************)
LoadAllowed(ev) ==
  /\ ev.out = "ok"                                              \* widening to the application type never aborts
  /\ Eq(ev.got, Decode(ev.bytes, ev.signed))                    \* decodes exactly those bytes
  /\ Eq(ev.got2, ev.got)                                        \* ... and no neighbouring ones

(***************************************************************************)
(* C07 whole arrays (incl. multi-dimensional): ev = [size (guest bytes of  *)
(*   one scalar), signed, addr, n scalars, vals (Wide, row-major), bytes   *)
(*   (n*size bytes of the object afterwards / as found), changed, out, got]*)
(***************************************************************************)
Slice(b, i, sz) == SubSeq(b, (i - 1) * sz + 1, i * sz)
ArrStoreAllowed(ev) ==
  /\ ev.out = "ok"                                              \* every value used fits the guest type
  /\ ToSet(ev.changed) \subseteq ev.addr..(ev.addr + ev.n * ev.size - 1)
  /\ Len(ev.bytes) = ev.n * ev.size /\ Len(ev.vals) = ev.n
  /\ \A i \in 1..ev.n : Eq(Decode(Slice(ev.bytes, i, ev.size), ev.signed), ev.vals[i])   \* no element skipped
ArrLoadAllowed(ev) ==
  /\ ev.out = "ok"
  /\ Len(ev.got) = ev.n
  /\ \A i \in 1..ev.n : Eq(ev.got[i], Decode(Slice(ev.bytes, i, ev.size), ev.signed))

(***************************************************************************)
(* C04 / C03 pointer cells: ev = [rep (Wide: guest representation found in *)
(*   or written to the cell), region size, own (sandbox the cell lives     *)
(*   in), cls of the application address obtained: "null" | "in" (with     *)
(*   sb, off) | "out"]                                                     *)
(***************************************************************************)
\* reading a pointer-typed cell (any position a pointer can occupy) that holds representation rep
PtrLoadAllowed(ev) ==
  IF IsZero(ev.rep)
    THEN ev.cls = "null"                                        \* 0 <-> null
    ELSE /\ ev.cls = "in" /\ ev.sb = ev.own                     \* inside its own sandbox, never another (C03/C04)
         /\ (Lt(ev.rep, FromInt(ev.size)) => ev.off = ToInt(ev.rep))   \* valid representations are faithful

\* a run of consecutive representations replo..rephi read through one position, all with the same
\* class / sandbox and the same difference d = off - rep: judged at its ends. Faithfulness
\* (off = rep below the region size) holds for the whole run iff d = 0 where the run starts below
\* the size (a run with d = 0 cannot extend beyond it, since off < size).
PtrLoadRunAllowed(ev) ==
  /\ ~IsZero(ev.replo) /\ Lt(ev.replo, ev.rephi)
  /\ ev.out = "ok" /\ ev.cls = "in" /\ ev.sb = ev.own
  /\ (Lt(ev.replo, FromInt(ev.size)) => IsZero(ev.d))

\* any pointer-producing operation (arithmetic, indexing, casts, opaque round trip, reload from a
\* cell, allocation, app_pointer, the checked raw-pointer entry points): the tainted pointer
\* obtained is null or inside the sandbox it belongs to, or the operation aborted (C03 NeverOut)
NeverOut(ev) == ev.cls \in {"abort", "null"} \/ (ev.cls = "in" /\ ev.sb = ev.own)

\* C02, the two checked entry points for raw pointers (assign_raw_pointer on tainted and on
\* tainted_volatile, UNSAFE_accept_pointer): accepted exactly when the address lies inside THAT
\* sandbox's memory; then the tainted holds the address and the sandbox cell its representation
EntryAllowed(ev) ==
  IF ev.cls = "in" /\ ev.sb = "s0"
    THEN ev.out = "ok" /\ Eq(ev.stored, FromInt(ev.off))
    ELSE /\ ev.out = "abort"
         \* a refused address never reaches sandbox memory: the cell still holds the sentinel
         /\ (ev.cellapi => Eq(ev.stored, FromInt(48879)))
         \* ... nor the tainted pointer it was assigned to, which designated offset 48 of the
         \* sandbox before: afterwards it still does (or is null), never the refused address
         /\ (ev.heldapi => Eq(ev.stored, FromInt(48)) \/ Eq(ev.stored, FromInt(0 - 1)))

\* the address of a sandbox function as the application gets it (get_sandbox_function_address):
\* the function's representation inside the sandbox, whether or not it was invoked before
FnAddrAllowed(ev) == ev.out = "ok" /\ Eq(ev.rep, FromInt(ev.want)) /\ Eq(ev.cellrep, FromInt(ev.want))

\* copy_memory_or_grant_access on a backend with the grant / deny interface: the backend is asked
\* to expose a raw application range only after the range has been accepted; a refused range
\* (null, wrapping, crossing a sandbox boundary) aborts and was never shown to the backend
GrantAllowed(ev) ==
  IF ev.rangeok
    THEN /\ ev.out = "ok" /\ ev.cls \in {"in", "null"}
         /\ ev.asked <= 1 /\ (ev.asked = 1 => ev.asked_same)
    ELSE ev.out = "abort" /\ ev.asked = 0

\* two pointer cells compared with each other (== and !=): each is translated relative to the
\* sandbox whose memory it lives in, so they are equal iff they designate the same object
CellCmpAllowed(ev) ==
  LET same == ev.sbl = ev.sbr /\ ev.offl = ev.offr IN
  IF ev.out = "ok" THEN ev.eq = same /\ ev.ne = ~same ELSE ev.out = "abort"   \* (an extra refusal is inside)

\* storing application address (sb, off) into a pointer cell of sandbox `own`
PtrStoreAllowed(ev) ==
  CASE ev.cls = "null" -> ev.out = "ok" /\ IsZero(ev.rep)
    [] ev.cls = "in" /\ ev.sb = ev.own -> ev.out = "ok" /\ Eq(ev.rep, FromInt(ev.off))
    [] OTHER -> TRUE       \* storing a foreign pointer is not reachable through the typed API
=============================================================================
