SPECIFICATION TSpec
