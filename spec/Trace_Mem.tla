----------------------------- MODULE Trace_Mem -----------------------------
(* Oracle for C07 / C04 / C03: constant-level evaluation of the Mem Contracts on *)
(* every recorded store, load and pointer-position event.                        *)
EXTENDS Mem, TLC, Json, IOUtils
T == ndJsonDeserialize(IOEnv.TRACE)
VARIABLE x
Spec == x = 0 /\ [][x' = x]_x
Ok(ev) == CASE ev.e = "store" -> StoreAllowed(ev)
            [] ev.e = "load" -> LoadAllowed(ev)
            [] ev.e = "astore" -> ArrStoreAllowed(ev)
            [] ev.e = "aload" -> ArrLoadAllowed(ev)
            [] ev.e = "ptrload" -> PtrLoadAllowed(ev)
            [] ev.e = "ptrloadrun" -> PtrLoadRunAllowed(ev)
            [] ev.e = "ptrstore" -> PtrStoreAllowed(ev)
            [] ev.e = "cellcmp" -> CellCmpAllowed(ev)
            [] ev.e = "ptrchain" -> NeverOut(ev)
            [] ev.e = "entry" -> EntryAllowed(ev)
            [] ev.e = "grant" -> GrantAllowed(ev)
            [] ev.e = "fnaddr" -> FnAddrAllowed(ev)
            [] ev.e = "setup" -> TRUE
            [] OTHER -> FALSE
CONSTANT OpenFindings     \* ids of the open entries of known_findings.json
\* Named deviations: what the code is known to do outside the Contract (DESIGN.md section 7).
\* D21: p[n] designates an element by the address of its first byte alone; when the element
\*      itself straddles the end of sandbox memory, the address of one of its fields / elements
\*      (&p[n].f) is a tainted pointer beyond the last byte of the sandbox.
Deviation(ev) ==
  IF "D21" \in OpenFindings /\ ev.e = "ptrchain" /\ ev.op = "&PS[0].d" /\ ev.out = "ok" /\ ev.cls = "out"
     /\ ev.from >= 0 /\ ev.from + ev.pssize > ev.size
    THEN "D21" ELSE ""
Known == {i \in 1..Len(T) : ~Ok(T[i]) /\ Deviation(T[i]) # ""}
Bad == {i \in 1..Len(T) : ~Ok(T[i]) /\ Deviation(T[i]) = ""}
ASSUME PrintT(<<"RESULT", ToJson([bad |-> Bad, known |-> {[i |-> i, id |-> Deviation(T[i])] : i \in Known}, n |-> Len(T)])>>)
=============================================================================
