----------------------------- MODULE Trace_Mem -----------------------------
(* Oracle for C07 / C04 / C03: constant-level evaluation of the Mem Contracts on *)
(* every recorded store, load and pointer-position event.                        *)
EXTENDS Mem, TLC, Json, IOUtils
T == ndJsonDeserialize(IOEnv.TRACE)
VARIABLE x
Spec == x = 0 /\ [][x' = x]_x
Ok(ev) == CASE ev.e = "store" -> StoreAllowed(ev)
            [] ev.e = "load" -> LoadAllowed(ev)
            [] ev.e = "ptrload" -> PtrLoadAllowed(ev)
            [] ev.e = "ptrstore" -> PtrStoreAllowed(ev)
            [] ev.e = "ptrchain" -> NeverOut(ev)
            [] ev.e = "entry" -> EntryAllowed(ev)
            [] ev.e = "setup" -> TRUE
            [] OTHER -> FALSE
Bad == {i \in 1..Len(T) : ~Ok(T[i])}
ASSUME PrintT(<<"RESULT", ToJson([bad |-> Bad, n |-> Len(T)])>>)
=============================================================================
