// Call-tree conformance driver for C12 / C19 (and the dispatch clauses of C11): executes
// trees of nested invocations and callbacks, with an abort injected at a chosen position,
// on real rlbox_sandbox objects and records every crossing, every transition
// notification and the timing records. A dumb executor: it knows trees, not RLBox.
//
// Backends: -DBK_VM (foreign ABI, 32-bit long) | -DBK_NOOP | -DBK_DYLIB (guest = .so).
// TLS: default library-provided; -DTLS_EMBEDDER selects embedder-provided TLS.
//
// usage: tree_driver <script.txt> <trace.ndjson> [lib1.so lib2.so]
#define RLBOX_USE_EXCEPTIONS
#define RLBOX_MEASURE_TRANSITION_TIMES
#include <cstdint>
#include <cstdio>
namespace hk {
void hook(const char* dir, int kind, const char* name, void* ptr, void* state);
}
#define RLBOX_TRANSITION_ACTION_IN(type, func_name, func_ptr, state)                                                   \
  hk::hook("in", (int)(type), func_name, (void*)(func_ptr), state)
#define RLBOX_TRANSITION_ACTION_OUT(type, func_name, func_ptr, state)                                                  \
  hk::hook("out", (int)(type), func_name, (void*)(func_ptr), state)

#if defined(TLS_EMBEDDER)
#  define RLBOX_EMBEDDER_PROVIDES_TLS_STATIC_VARIABLES
#  define VM_EMBEDDER_TLS
#endif
#if defined(BK_NOOP)
#  define RLBOX_USE_STATIC_CALLS() rlbox_noop_sandbox_lookup_symbol
#endif
#include "rlbox.hpp"
#if defined(BK_NOOP)
#  include "rlbox_noop_sandbox.hpp"
#elif defined(BK_DYLIB)
#  include "rlbox_dylib_sandbox.hpp"
#else
#  include "vm_sandbox.hpp"
#endif
#include "trace.hpp"

#include <algorithm>
#include <cstring>
#include <fstream>
#include <iostream>
#include <functional>
#include <map>
#include <memory>
#include <sstream>
#include <vector>

using namespace rlbox;
#if defined(BK_NOOP)
using Sbx = rlbox_noop_sandbox;
static const char* BACKEND = "noop";
#  if defined(TLS_EMBEDDER)
RLBOX_NOOP_SANDBOX_STATIC_VARIABLES();
#  endif
#elif defined(BK_DYLIB)
using Sbx = rlbox_dylib_sandbox;
static const char* BACKEND = "dylib";
#  if defined(TLS_EMBEDDER)
RLBOX_DYLIB_SANDBOX_STATIC_VARIABLES();
#  endif
#else
using Sbx = rlbox_vm_sandbox<vm_abi_wasm32, 12, false, 4>;
static const char* BACKEND = "vm";
#  if defined(TLS_EMBEDDER)
static thread_local vm_thread_data<Sbx> g_vm_tls;
namespace rlbox {
template<>
vm_thread_data<Sbx>* vm_get_thread_data<Sbx>()
{
  return &g_vm_tls;
}
}
#  endif
#endif
using RS = rlbox_sandbox<Sbx>;

static tr::Out out;
static const long long POISON = 1LL << 40;
static const bool LONG_FITS = sizeof(typename Sbx::T_LongType) >= 8;

// ---------------------------------------------------------------- tree script
struct Node
{
  int id = 0;
  bool is_inv = false;
  std::string s;     // inv: sandbox name
  bool poison = false;
  std::string f;     // call: callback function name or "stale"
  std::string end;   // inv: "gret" | "gthrow" | "" (unwound); call: "ok" | "poison" | "throw" | ""
  bool catches = false; // call: the callback body catches the abort of an invocation it makes and goes on
  std::vector<int> kids;
};
static std::vector<Node> nodes; // index = id

// ---------------------------------------------------------------- world
static const int NSB = 2;
static const char* SB_NAMES[NSB] = { "s1", "s2" };
static std::unique_ptr<RS> sb[NSB];
static std::map<const void*, std::string> sb_by_ptr;      // rlbox_sandbox* -> name
static std::map<const void*, std::string> fn_by_key;      // callback function address -> name
static std::map<std::string, unsigned long long> given[NSB]; // entry handed out for f on sandbox i
static std::vector<unsigned long long> stale[NSB];        // entries that were unregistered since

static int sb_idx(const std::string& s) { return s == "s1" ? 0 : 1; }
static std::string sb_name(const void* p)
{
  auto it = sb_by_ptr.find(p);
  return it == sb_by_ptr.end() ? "?" : it->second;
}

// address the backend uses to invoke tree_fn in each sandbox (what an INVOKE notification carries)
static const void* expected_invoke_ptr[2] = { nullptr, nullptr };

namespace hk {
void hook(const char* dir, int kind, const char* name, void* ptr, void* state)
{
  tr::Ev e("hook");
  e.str("dir", dir).str("kind", kind == 0 ? "INVOKE" : "CALLBACK");
  if (kind == 0) {
    // the function identity of an invocation: the same address every time this function is invoked
    bool okp = false;
    for (int i = 0; i < 2; i++) {
      okp = okp || (expected_invoke_ptr[i] != nullptr && ptr == expected_invoke_ptr[i]);
    }
    e.boolean("ptrok", okp);
  }
  std::string who = "?";
  if (kind == 0) {
    who = name ? name : "null";
  } else {
    auto it = fn_by_key.find(ptr);
    who = it == fn_by_key.end() ? "?" : it->second;
  }
  e.str("who", who).str("state", state ? static_cast<const char*>(state) : "null");
  out.put(e);
}
}

// ---------------------------------------------------------------- callbacks (application side)
static void do_invoke(int node);
static std::function<void(RS&)> g_create_tmp; // creates one more sandbox of this backend (set in main)

template<int K>
static tainted<long, Sbx> cb(RS& sandbox, tainted<long, Sbx> tnode)
{
  static const std::string name = "f" + std::to_string(K);
  long node = tnode.UNSAFE_unverified();
  {
    tr::Ev e("cb_run");
    e.num("node", node).str("fn", name).str("sbref", sb_name(&sandbox));
    out.put(e);
  }
  if (node < 1 || node >= (long)nodes.size()) {
    return tainted<long, Sbx>(-1); // argument did not arrive intact; already visible in cb_run.node
  }
  const Node& n = nodes[node];
  if (node % 2 == 1) {
    // callbacks of odd nodes change the per-sandbox transition state while they run
    static const char* LABELS[2][2] = { { "s1", "s1*" }, { "s2", "s2*" } };
    int si = sb_name(&sandbox) == "s1" ? 0 : 1;
    const char* curl = static_cast<const char*>(sandbox.get_transition_state());
    const char* nxt = (std::strcmp(curl, LABELS[si][0]) == 0) ? LABELS[si][1] : LABELS[si][0];
    sandbox.set_transition_state((void*)nxt);
    tr::Ev e("setstate");
    e.str("s", SB_NAMES[si]).str("state", nxt);
    out.put(e);
  }
  {
    // the application creates (and destroys) a sandbox of its own inside the callback body, while
    // the invocation that called back is still running: the crossings of that invocation - the
    // callbacks it makes afterwards included - stay attributed to ITS sandbox
    tr::Ev e("tmpsbx");
    e.num("node", node);
    try {
      RS tmp;
      g_create_tmp(tmp);
      tmp.destroy_sandbox();
      e.str("out", "ok");
    } catch (const std::runtime_error&) {
      e.str("out", "abort");
    }
    out.put(e);
  }
  for (int k : n.kids) {
    if (n.catches) {
      try {
        do_invoke(k);
      } catch (const std::runtime_error&) {
        tr::Ev e("caught");
        e.num("node", node);
        out.put(e);
      }
    } else {
      do_invoke(k);
    }
  }
  if (n.end == "throw") {
    tr::Ev e("cb_ret");
    e.num("node", node).str("how", "throw");
    out.put(e);
    throw std::runtime_error("callback body aborts");
  }
  if (n.end == "poison") {
    tr::Ev e("cb_ret");
    e.num("node", node).str("how", "poison");
    out.put(e);
    return tainted<long, Sbx>(POISON);
  }
  tr::Ev e("cb_ret");
  e.num("node", node).str("how", "ok");
  out.put(e);
  return tainted<long, Sbx>(node + 1000);
}
using CbT = tainted<long, Sbx> (*)(RS&, tainted<long, Sbx>);
static CbT cb_by_name(const std::string& f)
{
  if (f == "f1") {
    return &cb<1>;
  }
  if (f == "f2") {
    return &cb<2>;
  }
  return &cb<3>;
}
using Owner = sandbox_callback<long (*)(long), Sbx>;
static std::map<std::string, Owner> owners[NSB];
static std::vector<Owner> stale_owners[NSB]; // owners of an earlier incarnation, still alive

// ---------------------------------------------------------------- guest side
extern "C" {
long tree_fn(long node, long poison);
}

// body shared by all backends; GL = guest long type, call = how the guest calls an entry
template<typename GL, typename CallFn>
static GL guest_tree_body(GL node, GL poison, const char* cur, int lib, CallFn call_entry)
{
  long long expect = 0;
  bool known = node >= 1 && node < (GL)nodes.size();
  if (known && nodes[node].poison) {
    expect = POISON;
  }
  {
    tr::Ev e("guest_run");
    e.num("node", (long long)node).str("cur", cur).boolean("argok", known && (long long)poison == expect);
    if (lib != 0) {
      e.num("lib", lib);
    }
    out.put(e);
  }
  if (!known) {
    return -1;
  }
  const Node& n = nodes[node];
  int si = sb_idx(n.s);
  for (int k : n.kids) {
    const Node& c = nodes[k];
    unsigned long long entry = 0;
    if (c.f == "stale") {
      entry = stale[si].empty() ? 0 : stale[si].back();
    } else {
      entry = given[si][c.f];
    }
    {
      tr::Ev e("guest_call");
      e.num("node", k).str("entry", c.f == "stale" ? "stale" : c.f);
      out.put(e);
    }
    GL ret = 0;
    bool ok;
    try {
      ok = call_entry(entry, &ret, (GL)k);
    } catch (...) {
      tr::Ev e("guest_call_ret");
      e.num("node", k).str("out", "unwound").boolean("valok", true);
      out.put(e);
      throw;
    }
    tr::Ev e("guest_call_ret");
    e.num("node", k).str("out", ok ? "ok" : "trap").boolean("valok", !ok || ret == (GL)(k + 1000) ||
                                                                          (nodes[k].end == "poison" && (long long)ret == POISON));
    out.put(e);
  }
  if (n.end == "gthrow") {
    tr::Ev e("guest_throw");
    e.num("node", (long long)node);
    out.put(e);
    throw std::runtime_error("guest aborts");
  }
  tr::Ev e("guest_ret");
  e.num("node", (long long)node);
  out.put(e);
  return (GL)(node + 2000);
}

#if defined(BK_VM)
static thread_local int g_cur_lib = 0;
template<int L>
static int32_t g_tree(int32_t node, int32_t poison)
{
  g_cur_lib = L;
  Sbx* cur = Sbx::current_sandbox();
  std::string curname = "?";
  for (int i = 0; i < NSB; i++) {
    if (sb[i] && sb[i]->get_sandbox_impl() == cur) {
      curname = SB_NAMES[i];
    }
  }
  return guest_tree_body<int32_t>(node, poison, curname.c_str(), L, [](unsigned long long entry, int32_t* ret, int32_t arg) {
    return Sbx::call_indirect<int32_t, int32_t>(static_cast<uint32_t>(entry), ret, arg);
  });
}
static vm_library lib1 = { 1, { { "tree_fn", (void*)&g_tree<1> } } };
static vm_library lib2 = { 2, { { "other", (void*)&g_tree<1> }, { "tree_fn", (void*)&g_tree<2> } } };
#elif defined(BK_NOOP)
extern "C" long tree_fn(long node, long poison)
{
  // the no-op backend has no "current sandbox" observable from guest code other than TLS
  return guest_tree_body<long>(node, poison, nodes[node >= 1 && node < (long)nodes.size() ? node : 0].s.c_str(), 0,
                               [](unsigned long long entry, long* ret, long arg) {
                                 *ret = reinterpret_cast<long (*)(long)>(entry)(arg);
                                 return true;
                               });
}
#elif defined(BK_DYLIB)
// the guest library (harness/guestlib.c) calls back into these through function pointers
extern "C" long harness_tree_body(long node, long poison, int libid)
{
  return guest_tree_body<long>(node, poison, nodes[node >= 1 && node < (long)nodes.size() ? node : 0].s.c_str(), libid,
                               [](unsigned long long entry, long* ret, long arg) {
                                 *ret = reinterpret_cast<long (*)(long)>(entry)(arg);
                                 return true;
                               });
}
#endif

// ---------------------------------------------------------------- application side invoke
static void do_invoke(int node)
{
  const Node& n = nodes[node];
  int si = sb_idx(n.s);
  {
    tr::Ev e("inv_begin");
    e.str("s", n.s).num("node", node).boolean("poison", n.poison);
    out.put(e);
  }
  try {
    auto r = sb[si]->invoke_sandbox_function(tree_fn, (long)node, n.poison ? (long)POISON : 0L);
    tr::Ev e("inv_end");
    e.num("node", node).str("out", "ok").boolean("valok", r.UNSAFE_unverified() == node + 2000);
    out.put(e);
  } catch (...) {
    tr::Ev e("inv_end");
    e.num("node", node).str("out", "abort").boolean("valok", true);
    out.put(e);
    throw;
  }
}

static void timing_event()
{
  std::string rec = "{";
  for (int i = 0; i < NSB; i++) {
    rec += std::string(i ? "," : "") + "\"" + SB_NAMES[i] + "\":[";
    if (sb[i]) {
      auto& tt = sb[i]->process_and_get_transition_times();
      bool first = true;
      for (auto& t : tt) {
        std::string who;
        if (t.invoke == rlbox_transition::INVOKE) {
          who = t.name ? t.name : "null";
        } else {
          auto it = fn_by_key.find(t.ptr);
          who = it == fn_by_key.end() ? "?" : it->second;
        }
        rec += std::string(first ? "" : ",") + "[\"" + (t.invoke == rlbox_transition::INVOKE ? "INVOKE" : "CALLBACK") +
               "\",\"" + who + "\"]";
        first = false;
      }
      sb[i]->clear_transition_times();
    }
    rec += "]";
  }
  tr::Ev e("timing");
  e.raw("records", rec + "}");
  out.put(e);
}

// ---------------------------------------------------------------- fillers (never called)
template<int K>
static tainted<long, Sbx> filler_cb(RS&, tainted<long, Sbx> x)
{
  return x + K;
}
// entry points the backend offers per sandbox: measured at start (measure_capacity), not assumed;
// -1 = more than the pool of filler functions, in which case nothing is ever "full"
static int CAPACITY = -1;
static const int NFILLERS = 130;
using FillerFn = tainted<long, Sbx> (*)(RS&, tainted<long, Sbx>);
template<int... Ks>
static std::vector<FillerFn> filler_table(std::integer_sequence<int, Ks...>)
{
  return { &filler_cb<Ks>... };
}
static std::vector<Owner> fillers[NSB];
static const std::vector<FillerFn>& filler_fns()
{
  static const std::vector<FillerFn> fns = filler_table(std::make_integer_sequence<int, NFILLERS>{});
  return fns;
}
// occupies all but two of the backend's entry points (CAPACITY - 2 fillers)
static void fill_entries(int si)
{
  for (int k = 0; k < CAPACITY - 2; k++) {
    fillers[si].push_back(sb[si]->register_callback(filler_fns()[k]));
  }
}
// distinct callbacks are registered on a fresh sandbox until the first refusal
template<typename Create>
static void measure_capacity(Create&& create)
{
  RS probe;
  create(probe);
  std::vector<Owner> held;
  int n = 0;
  try {
    for (auto f : filler_fns()) {
      held.push_back(probe.register_callback(f));
      n++;
    }
    n = -1; // more entry points than fillers
  } catch (const std::runtime_error&) {
  }
  held.clear();
  probe.destroy_sandbox();
  CAPACITY = n;
}

static void teardown()
{
  for (int i = 0; i < NSB; i++) {
    stale_owners[i].clear();
    owners[i].clear();
    fillers[i].clear();
    given[i].clear();
    stale[i].clear();
    if (sb[i]) {
      try {
        sb[i]->destroy_sandbox();
      } catch (...) {
      }
      sb[i].reset();
    }
  }
  sb_by_ptr.clear();
}

int main(int argc, char** argv)
{
  if (argc < 3) {
    return 2;
  }
  std::ifstream in(argv[1]);
  if (!in || !out.open(argv[2])) {
    return 2;
  }
  fn_by_key[(void*)&cb<1>] = "f1";
  fn_by_key[(void*)&cb<2>] = "f2";
  fn_by_key[(void*)&cb<3>] = "f3";
  nodes.resize(1);
  std::string line;
  std::vector<int> stack;
  bool in_tree = false;
  while (std::getline(in, line)) {
    std::istringstream is(line);
    std::string op, a1, a2;
    is >> op >> a1 >> a2;
    if (op.empty()) {
      continue;
    }
    if (op == "reset") {
      teardown();
      static bool measured = false;
      if (!measured) {
        measured = true;
        g_create_tmp = [&](RS& p) {
#if defined(BK_VM)
          p.create_sandbox(&lib1);
#elif defined(BK_DYLIB)
          p.create_sandbox(argv[3]);
#else
          p.create_sandbox();
#endif
        };
        measure_capacity(g_create_tmp);
      }
      for (int i = 0; i < NSB; i++) {
        sb[i] = std::make_unique<RS>();
        if (i == 1) {
          // the second sandbox gets its transition state BEFORE it is created, the first one after
          sb[i]->set_transition_state((void*)SB_NAMES[i]);
        }
#if defined(BK_VM)
        sb[i]->create_sandbox(i == 0 ? &lib1 : &lib2);
#elif defined(BK_DYLIB)
        sb[i]->create_sandbox(argv[3 + (i % 2)]);
#else
        sb[i]->create_sandbox();
#endif
#if defined(BK_VM)
        expected_invoke_ptr[i] = sb[i]->get_sandbox_impl()->table[sb[i]->get_sandbox_impl()->func_index("tree_fn")].fn;
#elif defined(BK_DYLIB)
        {
          void* h = dlopen(argv[3 + (i % 2)], RTLD_NOW | RTLD_NOLOAD);
          expected_invoke_ptr[i] = h ? dlsym(h, "tree_fn") : nullptr;
          if (h) {
            dlclose(h);
          }
        }
#else
        expected_invoke_ptr[i] = reinterpret_cast<const void*>(&tree_fn);
#endif
        if (i != 1) {
          sb[i]->set_transition_state((void*)SB_NAMES[i]); // same literal as LABELS[i][0] (merged by the compiler)
        }
        sb[i]->clear_transition_times();
        sb_by_ptr[sb[i].get()] = SB_NAMES[i];
      }
      tr::Ev e("reset");
      e.raw("sandboxes", "[\"s1\",\"s2\"]").boolean("hooks", true).boolean("fits", LONG_FITS).str("backend", BACKEND);
#if defined(BK_NOOP)
      e.raw("libs", "{\"s1\":0,\"s2\":0}");
#else
      e.raw("libs", "{\"s1\":1,\"s2\":2}");
#endif
#if defined(TLS_EMBEDDER)
      e.str("tls", "embedder");
#else
      e.str("tls", "library");
#endif
      out.put(e);
    } else if (op == "fnaddr") {
      // the application takes the address of the sandbox function (another lookup, another cache)
      int si = sb_idx(a1);
      tr::Ev e("fnaddr");
      e.str("s", a1);
      try {
        auto fp = sb[si]->get_sandbox_function_address(tree_fn);
        (void)fp;
        e.str("out", "ok");
      } catch (const std::runtime_error&) {
        e.str("out", "abort");
      }
      out.put(e);
    } else if (op == "recreate") {
      // destroy and re-create the sandbox object while the owners of its callbacks stay alive
      int si = sb_idx(a1);
      tr::Ev e("recreate");
      e.str("s", a1);
      try {
        for (auto& kv : owners[si]) {
          stale_owners[si].push_back(std::move(kv.second));
        }
        owners[si].clear();
        given[si].clear();
        stale[si].clear();
        void* ts = sb[si]->get_transition_state();
        sb[si]->destroy_sandbox();
        sb[si]->set_transition_state(ts); // (re-)installed while the sandbox is not created
#if defined(BK_VM)
        sb[si]->create_sandbox(si == 0 ? &lib1 : &lib2);
#elif defined(BK_DYLIB)
        sb[si]->create_sandbox(argv[3 + (si % 2)]);
#else
        sb[si]->create_sandbox();
#endif
        sb[si]->set_transition_state(ts);
        sb[si]->clear_transition_times();
        e.str("out", "ok");
      } catch (const std::runtime_error&) {
        e.str("out", "abort");
      }
      out.put(e);
    } else if (op == "dropstale") {
      // the owners of the earlier incarnation end now: nothing of the new incarnation may change
      int si = sb_idx(a1);
      tr::Ev e("dropstale");
      e.str("s", a1);
      try {
        stale_owners[si].clear();
        e.str("out", "ok");
      } catch (const std::runtime_error&) {
        e.str("out", "abort");
      }
      out.put(e);
    } else if (op == "fill") {
      // occupy all but two of the backend's entry points with callbacks that are never called, so
      // that the callbacks of the tree live in the LAST entries
      int si = sb_idx(a1);
      tr::Ev e("fill");
      e.str("s", a1);
      try {
        fill_entries(si);
        e.str("out", "ok");
      } catch (const std::runtime_error&) {
        e.str("out", "abort");
      }
      e.num("n", (long)fillers[si].size());
      out.put(e);
    } else if (op == "reg") {
      int si = sb_idx(a1);
      tr::Ev e("reg");
      e.str("s", a1).str("f", a2).str("slot", a2);
      // (the harness' own count: is every entry point of the backend handed out already?)
      e.boolean("full", CAPACITY >= 0 && owners[si].count(a2) == 0 && (int)(owners[si].size() + fillers[si].size()) >= CAPACITY);
      try {
        owners[si].erase(a2);
        auto o = sb[si]->register_callback(cb_by_name(a2));
        given[si][a2] = (unsigned long long)(uintptr_t)o.UNSAFE_sandboxed(*sb[si]);
        owners[si].emplace(a2, std::move(o));
        // an entry that has been handed out again is not stale any more
        for (auto st = stale[si].begin(); st != stale[si].end();) {
          st = (*st == given[si][a2]) ? stale[si].erase(st) : st + 1;
        }
        e.str("out", "ok");
      } catch (const std::runtime_error&) {
        e.str("out", "abort");
      }
      out.put(e);
    } else if (op == "unreg") {
      int si = sb_idx(a1);
      tr::Ev e("unreg");
      e.str("s", a1).str("f", a2);
      auto it = owners[si].find(a2);
      if (it != owners[si].end()) {
        stale[si].push_back(given[si][a2]);
        owners[si].erase(it);
        given[si].erase(a2);
      }
      // an entry that has been handed out again is not stale any more
      for (auto& kv : given[si]) {
        for (auto st = stale[si].begin(); st != stale[si].end();) {
          st = (*st == kv.second) ? stale[si].erase(st) : st + 1;
        }
      }
      e.str("out", "ok");
      out.put(e);
    } else if (op == "tree") {
      nodes.resize(1);
      stack.clear();
      in_tree = true;
    } else if (op == "inv") {
      Node n;
      n.id = nodes.size();
      n.is_inv = true;
      n.s = a1;
      n.poison = a2 == "1";
      if (!stack.empty()) {
        nodes[stack.back()].kids.push_back(n.id);
      }
      nodes.push_back(n);
      bool aborts_at_once = n.poison && !LONG_FITS;
      if (!aborts_at_once) {
        stack.push_back(n.id);
      }
    } else if (op == "call") {
      Node n;
      n.id = nodes.size();
      n.f = a1;
      n.catches = a2 == "1";
      nodes[stack.back()].kids.push_back(n.id);
      nodes.push_back(n);
      bool registered = a1 != "stale";
      if (registered) {
        stack.push_back(n.id);
      }
    } else if (op == "caught") {
      // the abort was caught by the innermost catching callback body: frames above it were unwound
      while (!stack.empty() && !(nodes[stack.back()].is_inv == false && nodes[stack.back()].catches)) {
        stack.pop_back();
      }
    } else if (op == "cbret") {
      nodes[stack.back()].end = a1;
      stack.pop_back();
    } else if (op == "gret") {
      nodes[stack.back()].end = "gret";
      stack.pop_back();
    } else if (op == "gthrow") {
      nodes[stack.back()].end = "gthrow";
      stack.pop_back();
    } else if (op == "end") {
      in_tree = false;
      // the stale-entry cleanup above may have removed everything: make sure a stale
      // entry exists on the vm backend by pointing at an unused slot
#if defined(BK_VM)
      for (int i = 0; i < NSB; i++) {
        if (stale[i].empty()) {
          // the first entry that is not handed out at the moment (one past the table if all are)
          std::vector<unsigned long long> used;
          for (auto& kv : given[i]) {
            used.push_back(kv.second);
          }
          for (auto& f : fillers[i]) {
            used.push_back((unsigned long long)(uintptr_t)f.UNSAFE_sandboxed(*sb[i]));
          }
          unsigned long long pick = Sbx::SlotBase + CAPACITY;
          for (int k = CAPACITY - 1; k >= 0; k--) {
            if (std::find(used.begin(), used.end(), (unsigned long long)(Sbx::SlotBase + k)) == used.end()) {
              pick = Sbx::SlotBase + k;
              break;
            }
          }
          stale[i].push_back(pick);
        }
      }
#endif
      if (nodes.size() > 1) {
        try {
          do_invoke(1);
        } catch (...) {
        }
        timing_event();
      }
    } else {
      std::cerr << "bad op " << op << "\n";
      return 2;
    }
  }
  (void)in_tree;
  teardown();
  out.close();
  return 0;
}
