// C06 conformance driver: records what integer conversions at the ABI boundary do.
// Built in FLAG-ABORT mode (RLBOX_CUSTOM_ABORT sets a flag; no exceptions) so that
// exhaustive sweeps are cheap; every operation used here is a leaf (no dereference
// depends on a failed check). A dumb recorder: outcome class per source value =
//   abort (a dynamic_check failed) | preserved (destination == source, exact) | changed.
// Consecutive source values with the same class are merged into runs [lo, hi].
//
// usage: conv_driver direct <out> <seed> <maxbits>   (sources up to maxbits exhaustively)
//        conv_driver sweep32 <out> <shard> <nshards>  (exhaustive 32-bit sources, sharded by pair)
//        conv_driver cross <out> <seed>               (through sandbox memory / calls, both ABIs)
#include <cstdint>
static thread_local bool g_abort_flag = false;
#define RLBOX_CUSTOM_ABORT(msg) (g_abort_flag = true)
#include "rlbox.hpp"
#include "vm_sandbox.hpp"
#include "trace.hpp"

#include <algorithm>
#include <array>
#include <cstring>
#include <limits>
#include <random>
#include <string>
#include <vector>

using namespace rlbox;
using W = __int128;

static tr::Out out;

template<typename T>
struct TName;
#define TN(T, N)                                                                                                       \
  template<>                                                                                                           \
  struct TName<T>                                                                                                      \
  {                                                                                                                    \
    static constexpr const char* v = N;                                                                                \
  };
TN(bool, "bool")
TN(char, "char")
TN(signed char, "schar")
TN(unsigned char, "uchar")
TN(short, "short")
TN(unsigned short, "ushort")
TN(int, "int")
TN(unsigned, "uint")
TN(long, "long")
TN(unsigned long, "ulong")
TN(long long, "llong")
TN(unsigned long long, "ullong")
TN(char16_t, "char16")
TN(char32_t, "char32")
TN(wchar_t, "wchar")

template<typename T>
static constexpr int bits_of()
{
  return std::is_same_v<T, bool> ? 1 : (int)sizeof(T) * 8;
}
template<typename T>
static std::string tdesc()
{
  return std::string("{\"b\":") + std::to_string(bits_of<T>()) + ",\"s\":" + (std::is_signed_v<T> ? "true" : "false") +
         ",\"n\":\"" + TName<T>::v + "\"}";
}
template<typename T>
static W tmin()
{
  return (W)std::numeric_limits<T>::min();
}
template<typename T>
static W tmax()
{
  return (W)std::numeric_limits<T>::max();
}

struct RunEmitter
{
  std::string path, from, to;
  bool open = false;
  W lo = 0, hi = 0;
  int cls = -1; // 0 preserved, 1 abort, 2 changed
  W got = 0;
  void flush()
  {
    if (!open) {
      return;
    }
    tr::Ev e("conv");
    e.str("path", path).raw("from", from).raw("to", to).wide("lo", lo).wide("hi", hi);
    e.str("cls", cls == 0 ? "preserved" : cls == 1 ? "abort" : "changed");
    if (cls == 2) {
      e.wide("got", got);
    }
    out.put(e);
    open = false;
  }
  void add(W v, int c, W g)
  {
    if (open && c == cls && c != 2 && v == hi + 1) {
      hi = v;
      return;
    }
    flush();
    open = true;
    lo = hi = v;
    cls = c;
    got = g;
  }
};

// ---------------------------------------------------------------- value lists
template<typename From, typename To>
static std::vector<W> sparse_values(std::mt19937_64& rng, int nrand)
{
  std::vector<W> v;
  auto add = [&](W x) {
    if (x >= tmin<From>() && x <= tmax<From>()) {
      v.push_back(x);
    }
  };
  // boundary vectors 2^k + d, -(2^k) + d (MC_IntConv Vectors)
  for (int k : { 0, 1, 7, 8, 15, 16, 31, 32, 33, 47, 62, 63, 64 }) {
    for (int d = -1; d <= 1; d++) {
      add(((W)1 << k) + d);
      add(-((W)1 << k) + d);
    }
  }
  // dense windows around the limits of both types
  for (W c : { tmin<From>(), tmax<From>(), tmin<To>(), tmax<To>(), (W)0 }) {
    for (int d = -40; d <= 40; d++) {
      add(c + d);
    }
  }
  for (int i = 0; i < nrand; i++) {
    uint64_t r = rng();
    int sh = rng() % 64;
    From f;
    uint64_t bitsv = r >> sh;
    std::memcpy(&f, &bitsv, sizeof(From));
    if constexpr (std::is_same_v<From, bool>) {
      f = r & 1;
    }
    add((W)f);
  }
  std::sort(v.begin(), v.end());
  v.erase(std::unique(v.begin(), v.end()), v.end());
  return v;
}

// ---------------------------------------------------------------- direct calls
template<typename From, typename To>
static inline int classify_direct(From f, W& got)
{
  To t{};
  g_abort_flag = false;
  detail::convert_type_fundamental(t, f);
  if (g_abort_flag) {
    return 1;
  }
  got = (W)t;
  return ((W)t == (W)f) ? 0 : 2;
}

template<typename From, typename To>
static void direct_pair(std::mt19937_64& rng, int maxbits)
{
  RunEmitter r;
  r.path = "direct";
  r.from = tdesc<From>();
  r.to = tdesc<To>();
  if (bits_of<From>() <= maxbits) {
    for (W x = tmin<From>();; x++) {
      W got = 0;
      int c = classify_direct<From, To>((From)x, got);
      r.add(x, c, got);
      if (x == tmax<From>()) {
        break;
      }
    }
  } else {
    for (W x : sparse_values<From, To>(rng, 40)) {
      W got = 0;
      int c = classify_direct<From, To>((From)x, got);
      r.add(x, c, got);
    }
  }
  r.flush();
  // arrays: element-wise conversion (or memcpy when width and signedness agree)
  {
    RunEmitter a;
    a.path = "direct-array";
    a.from = r.from;
    a.to = r.to;
    for (W x : sparse_values<From, To>(rng, 4)) {
      From fa[3] = { (From)1, (From)x, (From)0 };
      To ta[3] = {};
      g_abort_flag = false;
      detail::convert_type_fundamental_or_array(ta, fa);
      int c = g_abort_flag ? 1 : ((W)ta[1] == x && (W)ta[0] == 1 && (W)ta[2] == 0) ? 0 : 2;
      a.add(x, c, (W)ta[1]);
    }
    a.flush();
  }
}

template<typename From, typename... Tos>
static void direct_from(std::mt19937_64& rng, int maxbits)
{
  (direct_pair<From, Tos>(rng, maxbits), ...);
}

#define ALLTYPES                                                                                                       \
  bool, char, signed char, unsigned char, short, unsigned short, int, unsigned, long, unsigned long, long long,        \
    unsigned long long, char16_t, char32_t, wchar_t

template<typename... Froms>
static void direct_all(std::mt19937_64& rng, int maxbits)
{
  (direct_from<Froms, ALLTYPES>(rng, maxbits), ...);
}

// exhaustive 32-bit sources, one (from,to) pair per work item
template<typename From, typename To>
static void sweep32_pair()
{
  RunEmitter r;
  r.path = "direct";
  r.from = tdesc<From>();
  r.to = tdesc<To>();
  for (W x = tmin<From>();; x++) {
    W got = 0;
    int c = classify_direct<From, To>((From)x, got);
    r.add(x, c, got);
    if (x == tmax<From>()) {
      break;
    }
  }
  r.flush();
}
static int g_item = 0, g_shard = 0, g_nshards = 1;
template<typename From, typename To>
static void sweep32_item()
{
  if ((g_item++ % g_nshards) == g_shard) {
    sweep32_pair<From, To>();
  }
}
template<typename From, typename... Tos>
static void sweep32_from()
{
  (sweep32_item<From, Tos>(), ...);
}

// ---------------------------------------------------------------- crossings through a sandbox
// The harness' OWN statement of the guest type of every application integer type (not RLBox's
// type mapping: a slip in that mapping must show as a wrong width or a missing range check).
template<typename Abi>
struct GuestOf
{
  template<typename T, typename = void>
  struct M
  {
    using type = T; // bool, char types, char16_t: same type in the guest
  };
  template<typename D>
  struct M<short, D>
  {
    using type = typename Abi::T_ShortType;
  };
  template<typename D>
  struct M<unsigned short, D>
  {
    using type = std::make_unsigned_t<typename Abi::T_ShortType>;
  };
  template<typename D>
  struct M<int, D>
  {
    using type = typename Abi::T_IntType;
  };
  template<typename D>
  struct M<unsigned, D>
  {
    using type = std::make_unsigned_t<typename Abi::T_IntType>;
  };
  template<typename D>
  struct M<char32_t, D>
  {
    using type = std::make_unsigned_t<typename Abi::T_IntType>; // an unsigned type of int's rank
  };
  template<typename D>
  struct M<long, D>
  {
    using type = typename Abi::T_LongType;
  };
  template<typename D>
  struct M<unsigned long, D>
  {
    using type = std::make_unsigned_t<typename Abi::T_LongType>;
  };
  template<typename D>
  struct M<long long, D>
  {
    using type = typename Abi::T_LongLongType;
  };
  template<typename D>
  struct M<unsigned long long, D>
  {
    using type = std::make_unsigned_t<typename Abi::T_LongLongType>;
  };
  template<typename T>
  using t = typename M<T>::type;
};

// guest functions (guest ABI types are fixed-width, written by hand per ABI below)
template<typename G>
static G g_echo(G x)
{
  return x;
}
static unsigned long long g_entry_for_cb = 0;
template<typename Sbx, typename G>
static G g_call_cb(G x)
{
  G ret = 0;
  Sbx::template call_indirect<G, G>(static_cast<uint32_t>(g_entry_for_cb), &ret, x);
  return ret;
}

extern "C" {
// application-ABI declarations of the library functions
long echo_long(long);
unsigned long echo_ulong(unsigned long);
int echo_int(int);
unsigned echo_uint(unsigned);
short echo_short(short);
long long echo_llong(long long);
long cb_long(long);
int cb_int(int);
}

static W g_cb_return_value = 0;
template<typename Sbx, typename T>
static tainted<T, Sbx> app_cb(rlbox_sandbox<Sbx>&, tainted<T, Sbx> x)
{
  (void)x;
  return tainted<T, Sbx>((T)g_cb_return_value);
}

template<typename Abi>
static void cross_tests(std::mt19937_64& rng)
{
  using Sbx = rlbox_vm_sandbox<Abi, 12>;
  using GL = typename Abi::T_LongType;
  using GI = typename Abi::T_IntType;
  using GS = typename Abi::T_ShortType;
  using GLL = typename Abi::T_LongLongType;
  using GUL = std::make_unsigned_t<GL>;
  using GUI = std::make_unsigned_t<GI>;
  static vm_library lib = { 1,
                            { { "echo_long", (void*)&g_echo<GL> },
                              { "echo_ulong", (void*)&g_echo<GUL> },
                              { "echo_int", (void*)&g_echo<GI> },
                              { "echo_uint", (void*)&g_echo<GUI> },
                              { "echo_short", (void*)&g_echo<GS> },
                              { "echo_llong", (void*)&g_echo<GLL> },
                              { "cb_long", (void*)&g_call_cb<Sbx, GL> },
                              { "cb_int", (void*)&g_call_cb<Sbx, GI> } } };
  rlbox_sandbox<Sbx> sb;
  sb.create_sandbox(&lib);
  std::string abi = Abi::name;

  auto store_load = [&](auto tag_app, auto tag_rhs) {
    using T = decltype(tag_app);   // application type of the cell
    using U = decltype(tag_rhs);   // type of the value assigned
    using G = typename GuestOf<Abi>::template t<T>;
    auto p = sb.template malloc_in_sandbox<T>();
    G* raw = reinterpret_cast<G*>(p.UNSAFE_unverified());
    // (a) store of a plain value, (b) store of a tainted value
    for (int variant = 0; variant < 2; variant++) {
      RunEmitter r;
      r.path = std::string(variant == 0 ? "store-plain/" : "store-tainted/") + abi;
      r.from = tdesc<U>();
      r.to = tdesc<G>();
      for (W x : sparse_values<U, G>(rng, 12)) {
        *raw = (G)0x55;
        g_abort_flag = false;
        if (variant == 0) {
          *p = (U)x;
        } else {
          // a tainted value of ANOTHER arithmetic type (e.g. the promoted result of tainted
          // arithmetic): converted to the cell's guest type with the same range check
          tainted<U, Sbx> tv = (U)x;
          *p = tv;
        }
        G stored = *raw;
        int c = g_abort_flag ? 1 : ((W)stored == x ? 0 : 2);
        r.add(x, c, (W)stored);
      }
      r.flush();
    }
    // (b') store of a value that itself lives in sandbox memory (tainted_volatile<U>): guest
    // representation of U -> guest representation of T, no detour through the application type
    {
      using GU = typename GuestOf<Abi>::template t<U>;
      auto q = sb.template malloc_in_sandbox<U>();
      GU* qraw = reinterpret_cast<GU*>(q.UNSAFE_unverified());
      RunEmitter r;
      r.path = "store-volatile/" + abi;
      r.from = tdesc<GU>();
      r.to = tdesc<G>();
      for (W x : sparse_values<GU, G>(rng, 12)) {
        *raw = (G)0x55;
        *qraw = (GU)x;
        g_abort_flag = false;
        *p = *q;
        G stored = *raw;
        int c = g_abort_flag ? 1 : ((W)stored == x ? 0 : 2);
        r.add(x, c, (W)stored);
      }
      r.flush();
      sb.free_in_sandbox(q);
    }
    // (c) load: the guest representation converted back to the application type
    if constexpr (std::is_same_v<T, U>) {
      RunEmitter r;
      r.path = "load/" + abi;
      r.from = tdesc<G>();
      r.to = tdesc<T>();
      for (W x : sparse_values<G, T>(rng, 12)) {
        *raw = (G)x;
        g_abort_flag = false;
        tainted<T, Sbx> t = *p;
        T v = t.UNSAFE_unverified();
        int c = g_abort_flag ? 1 : ((W)v == x ? 0 : 2);
        r.add(x, c, (W)v);
      }
      r.flush();
      // (c') the same load through copy_and_verify_range and copy_and_verify on the pointer
      for (int via = 0; via < 2; via++) {
        RunEmitter rr;
        rr.path = std::string(via == 0 ? "load-range/" : "load-copy_and_verify/") + abi;
        rr.from = tdesc<G>();
        rr.to = tdesc<T>();
        for (W x : sparse_values<G, T>(rng, 12)) {
          *raw = (G)x;
          g_abort_flag = false;
          T v;
          if (via == 0) {
            v = p.copy_and_verify_range([](std::unique_ptr<T[]> a) { return a ? a[0] : T{}; }, 1);
          } else {
            v = p.copy_and_verify([](std::unique_ptr<T> a) { return a ? *a : T{}; });
          }
          int c = g_abort_flag ? 1 : ((W)v == x ? 0 : 2);
          rr.add(x, c, (W)v);
        }
        rr.flush();
      }
      // (d) arrays, element-wise, both directions
      auto pa = sb.template malloc_in_sandbox<T[3]>();
      G* rawa = reinterpret_cast<G*>(pa.UNSAFE_unverified());
      RunEmitter ra;
      ra.path = "store-array/" + abi;
      ra.from = tdesc<T>();
      ra.to = tdesc<G>();
      for (W x : sparse_values<T, G>(rng, 6)) {
        tainted<T[3], Sbx> ta;
        ta[0] = (T)1;
        ta[1] = (T)x;
        ta[2] = (T)0;
        rawa[0] = rawa[1] = rawa[2] = (G)0x55;
        g_abort_flag = false;
        *pa = ta;
        int c = g_abort_flag ? 1 : ((W)rawa[1] == x && (W)rawa[0] == 1 && (W)rawa[2] == 0) ? 0 : 2;
        ra.add(x, c, (W)rawa[1]);
      }
      ra.flush();
    }
  };
  // (d') a raw application array of ANOTHER element type stored into an array in sandbox
  //      memory (element-wise conversion; a bytewise copy is only right for identical encodings)
  auto store_raw_array = [&](auto tag_app, auto tag_rhs) {
    using T = decltype(tag_app);
    using U = decltype(tag_rhs);
    using G = typename GuestOf<Abi>::template t<T>;
    auto pa = sb.template malloc_in_sandbox<T[3]>();
    G* rawa = reinterpret_cast<G*>(pa.UNSAFE_unverified());
    for (int form = 0; form < 2; form++) {
      RunEmitter ra;
      ra.path = std::string(form == 0 ? "store-raw-array/" : "store-std-array/") + abi;
      ra.from = tdesc<U>();
      ra.to = tdesc<G>();
      for (W x : sparse_values<U, G>(rng, 8)) {
        rawa[0] = rawa[1] = rawa[2] = (G)0x55;
        g_abort_flag = false;
        if (form == 0) {
          U ua[3] = { (U)1, (U)x, (U)0 };
          *pa = ua;
        } else {
          std::array<U, 3> ua = { (U)1, (U)x, (U)0 };
          *pa = ua;
        }
        int c = g_abort_flag ? 1 : ((W)rawa[1] == x && (W)rawa[0] == 1 && (W)rawa[2] == 0) ? 0 : 2;
        ra.add(x, c, (W)rawa[1]);
      }
      ra.flush();
    }
  };
  store_raw_array(bool{}, (unsigned char)0);
  store_raw_array(bool{}, char{});
  store_raw_array(bool{}, (signed char)0);
  store_raw_array(bool{}, int{});
  store_raw_array((unsigned char)0, bool{});
  store_raw_array(char{}, (unsigned char)0);
  store_raw_array((unsigned char)0, (signed char)0);
  store_raw_array(short{}, (unsigned short)0);
  store_raw_array(int{}, unsigned{});
  store_raw_array(int{}, long{});
  store_raw_array(long{}, (long long)0);
  store_raw_array((unsigned long)0, long{});
  store_raw_array(char16_t{}, short{});

  auto for_rhs = [&](auto tag_app) {
    (store_load(tag_app, bool{}), store_load(tag_app, char{}), store_load(tag_app, (signed char)0),
     store_load(tag_app, (unsigned char)0), store_load(tag_app, short{}), store_load(tag_app, (unsigned short)0),
     store_load(tag_app, int{}), store_load(tag_app, unsigned{}), store_load(tag_app, long{}),
     store_load(tag_app, (unsigned long)0), store_load(tag_app, (long long)0), store_load(tag_app, (unsigned long long)0),
     store_load(tag_app, char16_t{}), store_load(tag_app, char32_t{}));
  };
  for_rhs(bool{});
  for_rhs(char{});
  for_rhs((signed char)0);
  for_rhs((unsigned char)0);
  for_rhs(short{});
  for_rhs((unsigned short)0);
  for_rhs(int{});
  for_rhs(unsigned{});
  for_rhs(long{});
  for_rhs((unsigned long)0);
  for_rhs((long long)0);
  for_rhs((unsigned long long)0);
  for_rhs(char16_t{});
  for_rhs(char32_t{});

  // (e) arguments and results of invocations; results of callbacks
  auto invoke_path = [&](auto tag, auto fn, const char* what) {
    using T = decltype(tag);
    using G = typename GuestOf<Abi>::template t<T>;
    RunEmitter r;
    r.path = std::string("invoke-arg/") + what + "/" + abi;
    r.from = tdesc<T>();
    r.to = tdesc<G>();
    for (W x : sparse_values<T, G>(rng, 12)) {
      g_abort_flag = false;
      auto ret = fn((T)x);
      T v = ret.UNSAFE_unverified();
      int c = g_abort_flag ? 1 : ((W)v == x ? 0 : 2);
      r.add(x, c, (W)v);
    }
    r.flush();
  };
  invoke_path(long{}, [&](long v) { return sb.invoke_sandbox_function(echo_long, v); }, "plain");
  invoke_path(long{}, [&](long v) { return sb.invoke_sandbox_function(echo_long, tainted<long, Sbx>(v)); }, "tainted");
  invoke_path((unsigned long)0, [&](unsigned long v) { return sb.invoke_sandbox_function(echo_ulong, v); }, "plain");
  invoke_path(int{}, [&](int v) { return sb.invoke_sandbox_function(echo_int, v); }, "plain");
  invoke_path(unsigned{}, [&](unsigned v) { return sb.invoke_sandbox_function(echo_uint, v); }, "plain");
  invoke_path(short{}, [&](short v) { return sb.invoke_sandbox_function(echo_short, v); }, "plain");
  invoke_path((long long)0, [&](long long v) { return sb.invoke_sandbox_function(echo_llong, v); }, "plain");
  {
    auto cbl = sb.register_callback(app_cb<Sbx, long>);
    g_entry_for_cb = (unsigned long long)cbl.UNSAFE_sandboxed(sb);
    RunEmitter r;
    r.path = "callback-result/" + abi;
    r.from = tdesc<long>();
    r.to = tdesc<GL>();
    for (W x : sparse_values<long, GL>(rng, 12)) {
      g_cb_return_value = x;
      g_abort_flag = false;
      auto ret = sb.invoke_sandbox_function(cb_long, 1L);
      long v = ret.UNSAFE_unverified();
      int c = g_abort_flag ? 1 : ((W)v == x ? 0 : 2);
      r.add(x, c, (W)v);
    }
    r.flush();
    cbl.unregister();
    auto cbi = sb.register_callback(app_cb<Sbx, int>);
    g_entry_for_cb = (unsigned long long)cbi.UNSAFE_sandboxed(sb);
    RunEmitter r2;
    r2.path = "callback-result/" + abi;
    r2.from = tdesc<int>();
    r2.to = tdesc<GI>();
    for (W x : sparse_values<int, GI>(rng, 12)) {
      g_cb_return_value = x;
      g_abort_flag = false;
      auto ret = sb.invoke_sandbox_function(cb_int, 1);
      int v = ret.UNSAFE_unverified();
      int c = g_abort_flag ? 1 : ((W)v == x ? 0 : 2);
      r2.add(x, c, (W)v);
    }
    r2.flush();
  }
  sb.destroy_sandbox();
}

int main(int argc, char** argv)
{
  if (argc < 4) {
    return 2;
  }
  std::string mode = argv[1];
  if (!out.open(argv[2])) {
    return 2;
  }
  if (mode == "direct") {
    std::mt19937_64 rng(std::atoll(argv[3]));
    int maxbits = argc > 4 ? std::atoi(argv[4]) : 16;
    direct_all<ALLTYPES>(rng, maxbits);
  } else if (mode == "sweep32") {
    g_shard = std::atoi(argv[3]);
    g_nshards = argc > 4 ? std::atoi(argv[4]) : 1;
    sweep32_from<int, ALLTYPES>();
    sweep32_from<unsigned, ALLTYPES>();
    sweep32_from<char32_t, ALLTYPES>();
    sweep32_from<wchar_t, ALLTYPES>();
  } else if (mode == "cross") {
    std::mt19937_64 rng(std::atoll(argv[3]));
    cross_tests<vm_abi_wasm32>(rng);
    cross_tests<vm_abi_lp16>(rng);
    cross_tests<vm_abi_ilp64>(rng);
    cross_tests<vm_abi_uword>(rng);
  } else {
    return 2;
  }
  out.close();
  return 0;
}
