// Stateful conformance driver for C13 / C14 / (C11 lookup clauses): replays action walks
// on real rlbox_sandbox<Backend> objects, real sandbox_callback owners held in
// harness-managed storage, and records what happened. A dumb executor: no model of RLBox.
//
// Backend selected at compile time: -DBK_VM (foreign-ABI vm backend, finder-based
// example translation, 2 callback slots), -DBK_NOOP (bundled no-op backend, 64 slots) or
// -DBK_DYLIB (bundled dylib backend over two builds of harness/guestlib.c, 64 slots).
//
// usage: sbx_driver <walks.txt> <trace.ndjson> [first_line [libguest1.so libguest2.so]]
#define RLBOX_USE_EXCEPTIONS
#if defined(BK_NOOP)
#  define RLBOX_USE_STATIC_CALLS() rlbox_noop_sandbox_lookup_symbol
#endif
#include "rlbox.hpp"
#if defined(BK_NOOP)
#  include "rlbox_noop_sandbox.hpp"
#elif defined(BK_DYLIB)
#  include "rlbox_dylib_sandbox.hpp"
#  include <dlfcn.h>
#  define BK_NATIVE 1
#else
#  include "vm_sandbox.hpp"
#endif
#include "trace.hpp"

#include <signal.h>
#include <sys/wait.h>
#include <unistd.h>

#include <fstream>
#include <iostream>
#include <map>
#include <set>
#include <memory>
#include <new>
#include <sstream>

using namespace rlbox;

#if defined(BK_NOOP)
#  define BK_NATIVE 1
using Sbx = rlbox_noop_sandbox;
static const char* BACKEND = "noop";
#elif defined(BK_DYLIB)
using Sbx = rlbox_dylib_sandbox;
static const char* BACKEND = "dylib";
static const char* g_libpath[3] = { "", "", "" };
#else
using Sbx = rlbox_vm_sandbox<vm_abi_wasm32, 12, true, 2>;
static const char* BACKEND = "vm";
#endif
using RS = rlbox_sandbox<Sbx>;

static tr::Out out;
static long cur_lineno = 0;
static int probe_fd = -1; // in a probe child: where callbacks report

// ---------------------------------------------------------------- callback pool
static std::map<const RS*, std::string>* sb_names;
// the live-sandbox registry as reported by the H2 hook: pushes minus erases per object
static std::map<const void*, int> listed_count;
static void list_hook(const char* kind, const void* ptr)
{
  std::string k = kind;
  if (k == "list-push") {
    listed_count[ptr]++;
  } else if (k == "list-erase") {
    listed_count[ptr]--;
  }
}
static void report(const char* fn, RS& sb, long arg)
{
  if (probe_fd >= 0) {
    auto it = sb_names->find(&sb);
    std::string nm = it == sb_names->end() ? "?" : it->second;
    char buf[128];
    int n = std::snprintf(buf, sizeof buf, "%s %s %ld\n", fn, nm.c_str(), arg);
    if (write(probe_fd, buf, n) < 0) {
    }
  }
}

template<int N>
static tainted<int, Sbx> cbA(RS& sb, tainted<int, Sbx> a)
{
  static const std::string name = "f" + std::to_string(N);
  report(name.c_str(), sb, a.UNSAFE_unverified());
  return a + N;
}
template<int N>
static tainted<long, Sbx> cbB(RS& sb, tainted<int, Sbx> a, tainted<int, Sbx> b)
{
  static const std::string name = "f" + std::to_string(N);
  report(name.c_str(), sb, a.UNSAFE_unverified() + b.UNSAFE_unverified());
  return tainted<long, Sbx>(N);
}
using FnA = tainted<int, Sbx> (*)(RS&, tainted<int, Sbx>);
using FnB = tainted<long, Sbx> (*)(RS&, tainted<int, Sbx>, tainted<int, Sbx>);
using OwnA = sandbox_callback<int (*)(int), Sbx>;
using OwnB = sandbox_callback<long (*)(int, int), Sbx>;

template<int... I>
static std::map<std::string, FnA> mkA(std::integer_sequence<int, I...>)
{
  return { { "f" + std::to_string(I), &cbA<I> }... };
}
static std::map<std::string, FnA> poolA = mkA(std::make_integer_sequence<int, 80>{});
static bool is_sigB(const std::string& f) { return f == "f3"; }

// ---------------------------------------------------------------- guest side
// Application-ABI declarations of the sandboxed library functions
extern "C" {
int n1(int);
int callA_raw(unsigned long long entry, int arg);
long callB_raw(unsigned long long entry, int a, int b);
}
static int g_ran_lib = -1, g_ran_count = 0;
static const char* g_ran_fn = "";

#if defined(BK_DYLIB)
// the guest functions live in libguest<k>.so and report through this hook (found with dlsym on
// the main program, which is linked with -rdynamic)
extern "C" void harness_ran(int lib, const char* fn)
{
  g_ran_lib = lib;
  g_ran_fn = fn;
  g_ran_count++;
}
#elif defined(BK_NOOP)
// static calls: the "guest" functions are host functions with the application ABI
extern "C" {
int n1(int x)
{
  g_ran_lib = 1;
  g_ran_fn = "n1";
  g_ran_count++;
  return x + 1;
}
int callA_raw(unsigned long long entry, int arg) { return reinterpret_cast<int (*)(int)>(entry)(arg); }
long callB_raw(unsigned long long entry, int a, int b)
{
  return reinterpret_cast<long (*)(int, int)>(entry)(a, b);
}
}
#else
template<int L>
static int32_t g_n1(int32_t x)
{
  g_ran_lib = L;
  g_ran_fn = "n1";
  g_ran_count++;
  return x + L;
}
static int32_t g_callA_raw(uint64_t entry, int32_t arg)
{
  int32_t ret = -1;
  if (!Sbx::call_indirect<int32_t, int32_t>(static_cast<uint32_t>(entry), &ret, arg)) {
    return -12345; // trap: empty entry or signature mismatch
  }
  return ret;
}
static int32_t g_callB_raw(uint64_t entry, int32_t a, int32_t b)
{
  int32_t ret = -1;
  if (!Sbx::call_indirect<int32_t, int32_t, int32_t>(static_cast<uint32_t>(entry), &ret, a, b)) {
    return -12345;
  }
  return ret;
}
static vm_library libs[3] = {
  { 0, {} },
  { 1, { { "n1", (void*)&g_n1<1> }, { "callA_raw", (void*)&g_callA_raw }, { "callB_raw", (void*)&g_callB_raw } } },
  { 2, { { "callA_raw", (void*)&g_callA_raw }, { "n1", (void*)&g_n1<2> }, { "callB_raw", (void*)&g_callB_raw } } },
};
#endif

// ---------------------------------------------------------------- world
static const int NSB = 3, NBULK = 72, NOWN = 3 + NBULK;
static const char* SB_NAMES[NSB] = { "s1", "s2", "s3" };
// owners: o1, o2 (signature A), o3 (signature B), b0..b71 (signature A, for capacity histories)
static std::string own_name(int i)
{
  return i < 3 ? std::string("o") + std::to_string(i + 1) : std::string("b") + std::to_string(i - 3);
}
static int a_slot(int o) { return o < 2 ? o : o - 1; } // index into storeA

struct World
{
  std::unique_ptr<RS> sb[NSB];
  bool created[NSB] = { false, false, false };  // harness' own record of what create/destroy returned
  int libof[NSB] = { 0, 0, 0 };                 // library of the current incarnation
  std::vector<uintptr_t> bases[NSB];            // region base per successful create
  tainted<int*, Sbx> last_malloc[NSB];
  // entries ever handed out per sandbox: (entry value, is sig B)
  std::vector<std::pair<unsigned long long, bool>> entries[NSB];
  alignas(OwnA) unsigned char storeA[2 + NBULK][sizeof(OwnA)];
  alignas(OwnB) unsigned char storeB[1][sizeof(OwnB)];
  bool exists[NOWN] = {};
  int nown = 3; // owners in use in this execution
  OwnA& a(int o) { return *std::launder(reinterpret_cast<OwnA*>(storeA[a_slot(o)])); }
  OwnB& b() { return *std::launder(reinterpret_cast<OwnB*>(storeB[0])); }
  // the storage an owner is constructed into is recycled memory: it holds the byte image of
  // another owner that is alive now (or a non-zero pattern); constructors must not care
  void recycleA(int o)
  {
    for (int k = 0; k < NOWN; k++) {
      // (an owner that still holds a registration: the image of an inert one would hide a
      // constructor that leaves the storage as it found it)
      if (k != o && k != 2 && exists[k] && !a(k).is_unregistered()) {
        std::memcpy(storeA[a_slot(o)], storeA[a_slot(k)], sizeof(OwnA));
        return;
      }
    }
    std::memset(storeA[a_slot(o)], 0x5A, sizeof(OwnA));
  }
};
static std::unique_ptr<World> W;

static int sb_idx(const std::string& s)
{
  for (int i = 0; i < NSB; i++) {
    if (s == SB_NAMES[i]) {
      return i;
    }
  }
  std::cerr << "bad sandbox " << s << "\n";
  std::exit(2);
}
static int own_idx(const std::string& s)
{
  for (int i = 0; i < NOWN; i++) {
    if (s == own_name(i)) {
      return i;
    }
  }
  std::cerr << "bad owner " << s << "\n";
  std::exit(2);
}

static std::string own_projection()
{
  std::string s = "{";
  for (int i = 0; i < W->nown; i++) {
    int v = -1;
    if (W->exists[i]) {
      bool unreg = i != 2 ? W->a(i).is_unregistered() : W->b().is_unregistered();
      v = unreg ? 0 : 1;
    }
    if (i) {
      s += ",";
    }
    s += "\"" + own_name(i) + "\":" + std::to_string(v);
  }
  return s + "}";
}

// an owner that reports is_unregistered() is inert: what it hands to the sandbox is null (0), not
// the entry point it once had. 1 per owner that is unregistered and still carries a representation
static std::string stale_projection()
{
  std::string s = "{";
  for (int i = 0; i < W->nown; i++) {
    int v = 0;
    if (W->exists[i] && W->sb[0]) {
      bool unreg = i != 2 ? W->a(i).is_unregistered() : W->b().is_unregistered();
      unsigned long long rep = i != 2 ? (unsigned long long)(uintptr_t)W->a(i).UNSAFE_sandboxed(*W->sb[0])
                                      : (unsigned long long)(uintptr_t)W->b().UNSAFE_sandboxed(*W->sb[0]);
      v = (unreg && rep != 0) ? 1 : 0;
    }
    if (i) {
      s += ",";
    }
    s += "\"" + own_name(i) + "\":" + std::to_string(v);
  }
  return s + "}";
}

static void destroy_owner(int i)
{
  if (i != 2) {
    W->a(i).~OwnA();
  } else {
    W->b().~OwnB();
  }
  W->exists[i] = false;
}

static void teardown()
{
  if (!W) {
    return;
  }
  for (int i = 0; i < NOWN; i++) {
    if (W->exists[i]) {
      try {
        if (i != 2) {
          W->a(i).unregister();
        } else {
          W->b().unregister();
        }
      } catch (...) {
      }
      destroy_owner(i);
    }
  }
  for (int i = 0; i < NSB; i++) {
    if (W->sb[i] && W->created[i]) {
      try {
        W->sb[i]->destroy_sandbox();
      } catch (...) {
      }
    }
    // objects stuck in INITIALIZING after a failed create are simply dropped
    W->sb[i].release(); // intentionally leaked: owners of buggy trees may still point here
  }
  W.reset();
#if !defined(BK_NATIVE)
  Sbx::release_deferred();
#endif
}

[[noreturn]] static void on_terminate()
{
  tr::Ev e("terminate");
  e.num("lineno", cur_lineno);
  out.put(e);
  out.flush();
  _exit(3);
}

// Calls one entry in a forked child; returns the lines the callbacks reported.
static std::string probe_entry(int s, unsigned long long entry, bool sigB)
{
  int fds[2];
  if (pipe(fds) != 0) {
    std::exit(2);
  }
  out.flush();
  pid_t pid = fork();
  if (pid == 0) {
    close(fds[0]);
    probe_fd = fds[1];
    for (int sig : { SIGSEGV, SIGBUS, SIGFPE, SIGILL, SIGABRT }) {
      signal(sig, SIG_DFL);
    }
    std::set_terminate([] { _exit(4); });
    try {
      if (sigB) {
        W->sb[s]->invoke_sandbox_function(callB_raw, entry, 3, 4);
      } else {
        W->sb[s]->invoke_sandbox_function(callA_raw, entry, 7);
      }
    } catch (...) {
      _exit(5);
    }
    _exit(0);
  }
  close(fds[1]);
  std::string got;
  char buf[256];
  ssize_t n;
  while ((n = read(fds[0], buf, sizeof buf)) > 0) {
    got.append(buf, n);
  }
  close(fds[0]);
  int st = 0;
  waitpid(pid, &st, 0);
  return got;
}

// A fatal signal while an action runs against the real code is the observation of that action.
static void on_crash(int sig)
{
  tr::Ev e("crash");
  e.num("lineno", cur_lineno).num("signal", sig);
  out.put(e);
  out.flush();
  _exit(3);
}

int main(int argc, char** argv)
{
  for (int sig : { SIGSEGV, SIGBUS, SIGFPE, SIGILL, SIGABRT }) {
    signal(sig, on_crash);
  }
  if (argc >= 2 && std::string(argv[1]) == "--capacity") {
    // how many entry points does this backend offer per sandbox? Measured, not assumed: distinct
    // functions are registered on a fresh sandbox until the first refusal (0 = more than the pool)
    RS probe;
#if defined(BK_NOOP)
    probe.create_sandbox();
#elif defined(BK_DYLIB)
    if (argc < 3) {
      return 2;
    }
    probe.create_sandbox(argv[2]);
#else
    probe.create_sandbox(&libs[1]);
#endif
    std::vector<OwnA> held;
    std::set<unsigned long long> entries;
    int n = 0;
    bool bogus = false;
    try {
      for (auto& kv : poolA) {
        held.push_back(probe.register_callback(kv.second));
        // an accepted registration has an entry point of its own: not null, not one handed out before
        unsigned long long entry = (unsigned long long)(uintptr_t)held.back().UNSAFE_sandboxed(probe);
        if (held.back().is_unregistered() || entry == 0 || !entries.insert(entry).second) {
          bogus = true;
          break;
        }
        n++;
      }
      if (!bogus) {
        n = 0;
      }
    } catch (const std::runtime_error&) {
    }
    // "<n>" = n registrations were accepted, the next one refused; "0" = more than the pool;
    // "<n> bogus" = registration n+1 was accepted without an entry point of its own
    std::printf("%d%s\n", n, bogus ? " bogus" : "");
    held.clear();
    probe.destroy_sandbox();
    return 0;
  }
  if (argc < 3) {
    return 2;
  }
  std::ifstream in(argv[1]);
  long first = argc > 3 ? std::atol(argv[3]) : 1;
#if defined(BK_DYLIB)
  if (argc < 6) {
    return 2;
  }
  g_libpath[1] = argv[4];
  g_libpath[2] = argv[5];
#endif
  if (!in || !out.open(argv[2])) {
    return 2;
  }
  std::set_terminate(on_terminate);
  std::map<const RS*, std::string> names;
  sb_names = &names;
  detail::verif_event_hook = list_hook;
#if !defined(BK_NATIVE)
  Sbx::defer_unmap = true;
  Sbx::keep_base_after_destroy = true;
#endif

  std::string line;
  long lineno = 0;
  while (std::getline(in, line)) {
    lineno++;
    if (lineno < first) {
      continue;
    }
    cur_lineno = lineno;
    std::istringstream is(line);
    std::string op, a1, a2, a3;
    is >> op >> a1 >> a2 >> a3;
    if (op.empty()) {
      continue;
    }
    if (op == "reset") {
      teardown();
      names.clear();
      listed_count.clear();
      W = std::make_unique<World>();
      int nsb = std::atoi(a1.c_str());
      std::string sbs = "[";
      for (int i = 0; i < nsb && i < NSB; i++) {
        W->sb[i] = std::make_unique<RS>();
        names[W->sb[i].get()] = SB_NAMES[i];
        sbs += std::string(i ? "," : "") + "\"" + SB_NAMES[i] + "\"";
      }
#if !defined(BK_NATIVE)
      Sbx::default_usable_slots = std::atoi(a2.c_str());
#endif
      int nbulk = std::atoi(a3.c_str());
      W->nown = 3 + (nbulk > NBULK ? NBULK : nbulk);
      std::string owns = "[";
      for (int i = 0; i < W->nown; i++) {
        owns += std::string(i ? "," : "") + "\"" + own_name(i) + "\"";
      }
      tr::Ev e("reset");
      e.raw("sandboxes", sbs + "]").raw("owners", owns + "]");
      e.num("slots", std::atoi(a2.c_str())).str("backend", BACKEND).num("lineno", lineno);
      out.put(e);
      continue;
    }
    if (!W) {
      return 2;
    }
    // ---- object-lifetime / well-definedness preconditions (no RLBox semantics) ----
    bool skip = false;
    if (op == "register") {
      int o = own_idx(a3);
      skip = W->exists[o] || (is_sigB(a2) != (o == 2)) || !W->sb[sb_idx(a1)];
    } else if (op == "unregister" || op == "odestroy") {
      skip = !W->exists[own_idx(a1)];
    } else if (op == "omovec") {
      int o = own_idx(a1), o2 = own_idx(a2);
      skip = o == o2 || (o == 2) != (o2 == 2) || o == 2 || !W->exists[o] || W->exists[o2];
    } else if (op == "omovea") {
      int o = own_idx(a1), o2 = own_idx(a2);
      skip = (o == 2) != (o2 == 2) || !W->exists[o] || !W->exists[o2];
    } else if (op == "probe" || op == "invoke" || op == "fnaddr" || op == "ptrrt") {
      // calling into a sandbox that is not created is undefined: never done
      int s = sb_idx(a1);
      skip = !W->sb[s] || !W->created[s];
#if defined(BK_NOOP)
      skip = skip || op == "fnaddr"; // static calls: addresses are host addresses
#endif
    } else if (op == "xlate") {
      int s = sb_idx(a1);
      size_t k = std::atoi(a2.c_str());
      skip = !W->sb[s] || k < 1 || k > W->bases[s].size();
#if defined(BK_NATIVE)
      skip = true; // identity translation: the registry is not observable
#endif
    } else if (op == "create" || op == "destroy" || op == "malloc" || op == "free") {
      skip = !W->sb[sb_idx(a1)];
    }
    if (skip) {
      tr::Ev se("skip");
      se.str("line", line).num("lineno", lineno);
      out.put(se);
      continue;
    }

    tr::Ev e(op.c_str());
    e.num("lineno", lineno);
    try {
      if (op == "create") {
        int s = sb_idx(a1);
        int lib = std::atoi(a2.c_str());
#if defined(BK_NOOP)
        lib = 1; // statically linked: there is exactly one library
#endif
        bool fail = a3 == "1";
        e.str("s", a1).num("lib", lib).boolean("fail", fail);
        try {
#if defined(BK_NOOP)
          if (fail) {
            // the no-op backend cannot fail: logged as a skip below
            throw std::logic_error("nofail");
          }
          bool ok = W->sb[s]->create_sandbox();
#elif defined(BK_DYLIB)
          if (fail) {
            // a library that cannot be loaded aborts the process: not a reportable failure
            throw std::logic_error("nofail");
          }
          W->sb[s]->create_sandbox(g_libpath[lib]);
          bool ok = true;
#else
          Sbx::fail_next_create = fail;
          bool ok = W->sb[s]->create_sandbox(&libs[lib]);
          Sbx::fail_next_create = false;
#endif
          if (ok) {
            W->created[s] = true;
            W->libof[s] = lib;
#if !defined(BK_NATIVE)
            W->bases[s].push_back(W->sb[s]->get_sandbox_impl()->base);
#else
            W->bases[s].push_back(0);
#endif
            // entry points handed out to earlier incarnations stay in the probe set: a guest may
            // still hold them, and nothing of an earlier incarnation may be reachable through them
#if !defined(BK_NATIVE)
            W->entries[s].clear();
            for (unsigned i = 0; i < 2; i++) {
              W->entries[s].push_back({ Sbx::SlotBase + i, false });
              W->entries[s].push_back({ Sbx::SlotBase + i, true });
            }
#endif
          }
          e.str("out", ok ? "ok" : "false");
        } catch (const std::runtime_error&) {
#if !defined(BK_NATIVE)
          Sbx::fail_next_create = false;
#endif
          e.str("out", "abort");
        } catch (const std::logic_error&) {
          tr::Ev se("skip");
          se.str("line", line).num("lineno", lineno);
          out.put(se);
          continue;
        }
      } else if (op == "destroy") {
        int s = sb_idx(a1);
        e.str("s", a1);
        try {
          W->sb[s]->destroy_sandbox();
          W->created[s] = false;
          e.str("out", "ok");
        } catch (const std::runtime_error&) {
          e.str("out", "abort");
        }
      } else if (op == "malloc") {
        int s = sb_idx(a1);
        e.str("s", a1);
        try {
          auto p = W->sb[s]->malloc_in_sandbox<int>(4);
          W->last_malloc[s] = p;
          int* raw = p.UNSAFE_unverified();
          if (raw == nullptr) {
            e.str("out", "null");
          } else if (W->created[s] && W->sb[s]->is_pointer_in_sandbox_memory(raw)) {
            e.str("out", "in");
          } else {
            e.str("out", "outside");
          }
        } catch (const std::runtime_error&) {
          e.str("out", "abort");
        }
      } else if (op == "free") {
        int s = sb_idx(a1);
        e.str("s", a1);
        try {
#if !defined(BK_NATIVE)
          unsigned long before = W->sb[s]->get_sandbox_impl()->n_free;
#endif
          // alternately through the tainted and the opaque form of the pointer
          static unsigned nfree = 0;
          bool opaque = (nfree++ % 2) == 1;
          if (opaque) {
            W->sb[s]->free_in_sandbox(W->last_malloc[s].to_opaque());
          } else {
            W->sb[s]->free_in_sandbox(W->last_malloc[s]);
          }
          W->last_malloc[s] = nullptr;
          e.str("out", "ok").str("form", opaque ? "opaque" : "tainted");
#if !defined(BK_NATIVE)
          // did the request reach the backend's allocator?
          e.boolean("reached", W->sb[s]->get_sandbox_impl()->n_free != before).boolean("live", W->created[s]);
#endif
        } catch (const std::runtime_error&) {
          e.str("out", "abort");
        }
      } else if (op == "register") {
        int s = sb_idx(a1), o = own_idx(a3);
        e.str("s", a1).str("f", a2).str("o", a3);
        try {
          unsigned long long entry = 0;
          bool unreg;
          if (o == 2) {
            new (W->storeB[0]) OwnB(W->sb[s]->register_callback(&cbB<3>));
            W->exists[o] = true;
            unreg = W->b().is_unregistered();
            entry = (unsigned long long)(uintptr_t)W->b().UNSAFE_sandboxed(*W->sb[s]);
          } else {
            auto it = poolA.find(a2);
            if (it == poolA.end()) {
              return 2;
            }
            W->recycleA(o);
            new (W->storeA[a_slot(o)]) OwnA(W->sb[s]->register_callback(it->second));
            W->exists[o] = true;
            unreg = W->a(o).is_unregistered();
            entry = (unsigned long long)(uintptr_t)W->a(o).UNSAFE_sandboxed(*W->sb[s]);
          }
          if (unreg) {
            e.str("out", "refused");
          } else if (entry == 0) {
            e.str("out", "live-without-entry"); // claims to be registered, has no entry point
          } else {
            e.str("out", "ok");
            bool seen = false;
            for (auto& en : W->entries[s]) {
              seen = seen || (en.first == entry && en.second == (o == 2));
            }
            if (!seen) {
              W->entries[s].push_back({ entry, o == 2 });
            }
          }
#if !defined(BK_NATIVE)
          e.num("entry", (long long)entry - Sbx::SlotBase + 1);
#else
          e.num("entry", entry != 0);
#endif
        } catch (const std::runtime_error&) {
          e.str("out", "abort").num("entry", 0);
        }
      } else if (op == "unregister") {
        int o = own_idx(a1);
        e.str("o", a1);
        try {
          if (o == 2) {
            W->b().unregister();
          } else {
            W->a(o).unregister();
          }
          e.str("out", "ok");
        } catch (const std::runtime_error&) {
          e.str("out", "abort");
        }
      } else if (op == "odestroy") {
        int o = own_idx(a1);
        e.str("o", a1);
        destroy_owner(o); // a throwing destructor terminates: recorded by on_terminate
        e.str("out", "ok");
      } else if (op == "omovec") {
        int o = own_idx(a1), o2 = own_idx(a2);
        e.str("o", a1).str("o2", a2);
        W->recycleA(o2);
        new (W->storeA[a_slot(o2)]) OwnA(std::move(W->a(o)));
        W->exists[o2] = true;
        e.str("out", "ok");
      } else if (op == "omovea") {
        int o = own_idx(a1), o2 = own_idx(a2);
        e.str("o", a1).str("o2", a2);
        try {
          if (o == 2) {
            W->b() = std::move(W->b());
          } else {
            W->a(o2) = std::move(W->a(o));
          }
          e.str("out", "ok");
        } catch (const std::runtime_error&) {
          e.str("out", "abort");
        }
      } else if (op == "probe") {
        int s = sb_idx(a1);
        e.str("s", a1);
        std::string ran = "[", refs = "[";
        bool first_item = true;
        for (auto& en : W->entries[s]) {
          std::string got = probe_entry(s, en.first, en.second);
          std::istringstream gs(got);
          std::string fn, sbn;
          long arg;
          while (gs >> fn >> sbn >> arg) {
            ran += std::string(first_item ? "" : ",") + "\"" + fn + "\"";
            refs += std::string(first_item ? "" : ",") + "\"" + sbn + "\"";
            first_item = false;
          }
        }
        e.str("out", "ok").raw("ran", ran + "]").raw("sbrefs", refs + "]");
      } else if (op == "ptrrt") {
        // pointer round trips through the memory of sandbox s (example-based translation,
        // which on this backend walks the live-sandbox list)
        int s = sb_idx(a1);
        e.str("s", a1);
        std::string res = "ok";
        try {
          auto& S = *W->sb[s];
          auto pp = S.malloc_in_sandbox<int*>();
          auto p = S.malloc_in_sandbox<int>(2);
          auto parr = S.malloc_in_sandbox<int* [2]>();
          if (!pp || !p || !parr) {
            res = "malloc-null";
          } else {
#if !defined(BK_NATIVE)
            using GP = Sbx::T_PointerType;
            uintptr_t base = S.get_sandbox_impl()->base;
            GP want = (GP)(reinterpret_cast<uintptr_t>(p.UNSAFE_unverified()) - base);
            *pp = p;
            GP cell = *reinterpret_cast<GP*>(pp.UNSAFE_unverified());
            tainted<int*, Sbx> back = *pp;
            (*parr)[1] = p + 1;
            GP acell = reinterpret_cast<GP*>(parr.UNSAFE_unverified())[1];
            tainted<int*, Sbx> aback = (*parr)[1];
            *pp = nullptr;
            GP ncell = *reinterpret_cast<GP*>(pp.UNSAFE_unverified());
            tainted<int*, Sbx> nback = *pp;
            if (cell != want || back.UNSAFE_unverified() != p.UNSAFE_unverified()) {
              res = "cell-mismatch";
            } else if (acell != (GP)(want + 4) || aback.UNSAFE_unverified() != p.UNSAFE_unverified() + 1) {
              res = "array-mismatch";
            } else if (ncell != 0 || nback.UNSAFE_unverified() != nullptr) {
              res = "null-mismatch";
            } else if (!S.is_pointer_in_sandbox_memory(back.UNSAFE_unverified())) {
              res = "outside";
            }
#else
            *pp = p;
            tainted<int*, Sbx> back = *pp;
            if (back.UNSAFE_unverified() != p.UNSAFE_unverified()) {
              res = "cell-mismatch";
            }
#endif
            S.free_in_sandbox(p);
          }
        } catch (const std::runtime_error&) {
          res = "abort";
        }
        e.str("out", res);
      } else if (op == "xlate") {
#if !defined(BK_NATIVE)
        int s = sb_idx(a1);
        int k = std::atoi(a2.c_str());
        e.str("s", a1).num("k", k);
        uintptr_t ex = W->bases[s][k - 1] + 16;
        try {
          int* r = RS::get_unsandboxed_pointer_no_ctx<int*>(8, reinterpret_cast<const void*>(ex));
          std::string found = "?";
          for (int i = 0; i < NSB; i++) {
            if (W->sb[i] && W->created[i] &&
                W->sb[i]->get_sandbox_impl()->base + 8 == reinterpret_cast<uintptr_t>(r)) {
              found = SB_NAMES[i];
            }
          }
          e.str("out", "ok").str("found", found);
        } catch (const std::runtime_error&) {
          e.str("out", "abort").str("found", "");
        }
#endif
      } else if (op == "invoke") {
        int s = sb_idx(a1);
        e.str("s", a1).str("name", a2);
        g_ran_lib = -1;
        g_ran_count = 0;
        g_ran_fn = "";
        try {
#if !defined(BK_NOOP)
          if (a2 != "n1") {
            // a name the library does not export: the lookup fails, every time it is tried
            auto r = W->sb[s]->template INTERNAL_invoke_with_func_name<int(int)>(a2.c_str(), 5);
            e.str("out", "ok").num("ret", r.UNSAFE_unverified());
          } else
#endif
          {
            auto r = W->sb[s]->invoke_sandbox_function(n1, 5);
            e.str("out", "ok").num("ret", r.UNSAFE_unverified());
          }
        } catch (const std::runtime_error&) {
          e.str("out", "abort");
        }
        e.num("ranlib", g_ran_lib).str("ranfn", g_ran_fn).num("count", g_ran_count);
      } else if (op == "fnaddr") {
#if defined(BK_DYLIB)
        // the address of n1 in the library this incarnation was created from (asked from the
        // dynamic loader directly) must be the address RLBox hands out: logged as 1 / 1
        int s = sb_idx(a1);
        e.str("s", a1).str("name", a2);
        void* h = dlopen(g_libpath[W->libof[s]], RTLD_NOW | RTLD_NOLOAD);
        void* wantp = h ? dlsym(h, "n1") : nullptr;
        try {
          auto fp = W->sb[s]->get_sandbox_function_address(n1);
          e.str("out", "ok").num("idx", wantp != nullptr && reinterpret_cast<void*>(fp.UNSAFE_unverified()) == wantp ? 1 : 0);
        } catch (const std::runtime_error&) {
          e.str("out", "abort").num("idx", 0);
        }
        e.num("want", 1);
        if (h) {
          dlclose(h);
        }
#elif !defined(BK_NOOP)
        int s = sb_idx(a1);
        e.str("s", a1).str("name", a2);
        long want = W->sb[s]->get_sandbox_impl()->func_index("n1");
        try {
          auto fp = W->sb[s]->get_sandbox_function_address(n1);
          long idx = (long)fp.UNSAFE_sandboxed(*W->sb[s]);
          e.str("out", "ok").num("idx", idx);
        } catch (const std::runtime_error&) {
          e.str("out", "abort").num("idx", 0);
        }
        e.num("want", want);
#endif
      } else {
        std::cerr << "bad op " << op << "\n";
        return 2;
      }
    } catch (const std::exception& ex) {
      e.str("out", "abort").str("what", "unexpected exception");
    }
    e.raw("own", own_projection());
    e.raw("stale", stale_projection());
    {
      std::string l = "{";
      bool firstl = true;
      for (int i = 0; i < NSB; i++) {
        if (W && W->sb[i]) {
          l += std::string(firstl ? "" : ",") + "\"" + SB_NAMES[i] + "\":" + std::to_string(listed_count[W->sb[i].get()]);
          firstl = false;
        }
      }
      e.raw("listed", l + "}");
    }
    out.put(e);
  }
  teardown();
  out.close();
  return 0;
}
