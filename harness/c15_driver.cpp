// C15 conformance driver: replays action walks on the real rlbox::app_pointer_map<T>
// (map level) and on real rlbox::app_pointer owners obtained from
// rlbox_sandbox<vm>::get_app_pointer (owner level). A dumb executor: it performs each
// action and records what happened; all judging is done by TLC (Trace_AppPtr.tla).
//
// usage: c15_driver <walks.txt> <trace.ndjson>
#define RLBOX_USE_EXCEPTIONS
#include "rlbox.hpp"
#include "vm_sandbox.hpp"
#include "trace.hpp"

#include <cstring>
#include <fstream>
#include <iostream>
#include <memory>
#include <new>
#include <sstream>
#include <unistd.h>

using namespace rlbox;
using Sbx = rlbox_vm_sandbox<vm_abi_wasm32, 12>;
using AP = app_pointer<int*, Sbx>;

static tr::Out out;
static std::string cur_line;

static int* ptr_of(long k) { return reinterpret_cast<int*>(0x10000 + 4 * k); }
static long id_of(void* p) { return (reinterpret_cast<intptr_t>(p) - 0x10000) / 4; }

struct MapIface
{
  virtual ~MapIface() = default;
  virtual unsigned long long get(void* p, unsigned long long max) = 0;
  virtual void remove(unsigned long long t) = 0;
  virtual void* lookup(unsigned long long t) = 0;
};
template<typename T>
struct MapImpl : MapIface
{
  app_pointer_map<T> m;
  unsigned long long get(void* p, unsigned long long max) override
  {
    return (unsigned long long)m.get_app_pointer_idx(p, (T)max);
  }
  void remove(unsigned long long t) override { m.remove_app_ptr((T)t); }
  void* lookup(unsigned long long t) override { return m.lookup_index((T)t); }
};

static const int NOWN = 3;
static const char* OWN_NAMES[NOWN] = { "o1", "o2", "o3" };
struct Owners
{
  alignas(AP) unsigned char store[NOWN][sizeof(AP)];
  bool exists[NOWN] = { false, false, false };
  AP& at(int i) { return *std::launder(reinterpret_cast<AP*>(store[i])); }
  // Storage an owner is constructed into is recycled memory: it holds the byte image of another
  // owner that is alive at this moment (or a non-zero pattern). A constructor initialises every
  // member, so what the storage held before cannot matter.
  void recycle(int j)
  {
    for (int k = 0; k < NOWN; k++) {
      if (k != j && exists[k] && !at(k).is_unregistered()) {
        std::memcpy(store[j], store[k], sizeof(AP));
        return;
      }
    }
    std::memset(store[j], 0x5A, sizeof(AP));
  }
};

static int own_idx(const std::string& s)
{
  for (int i = 0; i < NOWN; i++) {
    if (s == OWN_NAMES[i]) {
      return i;
    }
  }
  std::cerr << "bad owner " << s << "\n";
  std::exit(2);
}

static std::string own_projection(rlbox_sandbox<Sbx>& sb, Owners& ow)
{
  std::string s = "{";
  for (int i = 0; i < NOWN; i++) {
    long v = -1;
    if (ow.exists[i]) {
      auto tok = ow.at(i).UNSAFE_sandboxed(sb);
      v = (long)tok;
      bool unreg = ow.at(i).is_unregistered();
      if (unreg != (tok == 0)) {
        v = -2; // inconsistent observers: can never match the Contract state
      }
    }
    if (i) {
      s += ",";
    }
    s += "\"" + std::string(OWN_NAMES[i]) + "\":" + std::to_string(v);
  }
  return s + "}";
}

[[noreturn]] static void on_terminate()
{
  tr::Ev e("terminate");
  e.str("line", cur_line);
  out.put(e);
  out.flush();
  _exit(3);
}

int main(int argc, char** argv)
{
  if (argc < 3) {
    return 2;
  }
  std::ifstream in(argv[1]);
  if (!in || !out.open(argv[2])) {
    return 2;
  }
  std::set_terminate(on_terminate);

  std::unique_ptr<MapIface> map;
  std::unique_ptr<rlbox_sandbox<Sbx>> sb, other;
  std::unique_ptr<Owners> ow;
  long long xtoken = 0; // token of the last owner-level operation, presented to `other` afterwards
  bool unwind_probe = false; // (only in histories that are not replays of Model walks: the probe moves the token cursor)
  unsigned long long max = 0;
  long next_ptr = 1;

  auto teardown = [&] {
    if (ow) {
      for (int i = 0; i < NOWN; i++) {
        if (ow->exists[i]) {
          ow->at(i).~AP();
          ow->exists[i] = false;
        }
      }
      ow.reset();
    }
    if (other) {
      other->destroy_sandbox();
      other.reset();
    }
    if (sb) {
      sb->destroy_sandbox();
      sb.reset();
    }
    map.reset();
  };

  std::string line;
  bool skip_until_reset = false;
  while (std::getline(in, line)) {
    cur_line = line;
    std::istringstream is(line);
    std::string op;
    is >> op;
    if (op.empty()) {
      continue;
    }
    if (skip_until_reset && op != "reset") {
      continue;
    }
    if (op == "reset") {
      skip_until_reset = false;
      std::string mode, extra;
      is >> max >> mode >> extra;
      unwind_probe = extra == "unwind";
      teardown();
      next_ptr = 1;
      tr::Ev e("reset");
      e.num("max", (long long)max).str("mode", mode);
      if (mode == "owner") {
        sb = std::make_unique<rlbox_sandbox<Sbx>>();
        sb->create_sandbox();
        // an earlier incarnation of this sandbox object had another size, and the application asked
        // for it: the limit of the tokens follows the address range of the CURRENT incarnation
        (void)sb->get_total_memory();
        sb->destroy_sandbox();
        sb->create_sandbox();
        sb->get_sandbox_impl()->reported_total = max + 1;
        // a second live sandbox of the same type that never registers anything: a token issued by
        // the first one means nothing to it
        other = std::make_unique<rlbox_sandbox<Sbx>>();
        other->create_sandbox();
        other->get_sandbox_impl()->reported_total = max + 1;
        ow = std::make_unique<Owners>();
        e.raw("owners", "[\"o1\",\"o2\",\"o3\"]");
      } else {
        if (mode == "map8") {
          map = std::make_unique<MapImpl<uint8_t>>();
        } else if (mode == "map16") {
          map = std::make_unique<MapImpl<uint16_t>>();
        } else if (mode == "map32") {
          map = std::make_unique<MapImpl<uint32_t>>();
        } else if (mode == "map64") {
          map = std::make_unique<MapImpl<uint64_t>>();
        } else if (mode == "mapi32") {
          map = std::make_unique<MapImpl<int32_t>>();
        } else {
          return 2;
        }
        e.raw("owners", "[]");
      }
      out.put(e);
      continue;
    }
    // object-lifetime preconditions (no RLBox knowledge): an action on a slot without an
    // object, or constructing into an occupied slot, is skipped and logged as such
    {
      std::istringstream pre(line);
      std::string pop, a, b;
      pre >> pop >> a >> b;
      bool skip = false;
      if (pop == "oget") {
        skip = ow->exists[own_idx(a)];
      } else if (pop == "ounreg" || pop == "odestroy" || pop == "olookup") {
        skip = !ow->exists[own_idx(a)] || (pop == "olookup" && ow->at(own_idx(a)).is_unregistered());
      } else if (pop == "omovec") {
        skip = !ow->exists[own_idx(a)] || ow->exists[own_idx(b)] || a == b;
      } else if (pop == "omovea") {
        skip = !ow->exists[own_idx(a)] || !ow->exists[own_idx(b)];
      }
      if (skip) {
        tr::Ev se("skip");
        se.str("line", line);
        out.put(se);
        continue;
      }
    }
    tr::Ev e(op.c_str());
    try {
      if (op == "get") {
        long k = next_ptr++;
        e.num("p", k);
        unsigned long long t = 0;
        try {
          t = map->get(ptr_of(k), max);
          e.str("out", "ok");
        } catch (const std::runtime_error&) {
          e.str("out", "abort");
        }
        e.num("t", (long long)t);
      } else if (op == "remove") {
        unsigned long long t;
        is >> t;
        e.num("t", (long long)t);
        try {
          map->remove(t);
          e.str("out", "ok");
        } catch (const std::runtime_error&) {
          e.str("out", "abort");
        }
      } else if (op == "lookup") {
        unsigned long long t;
        is >> t;
        e.num("t", (long long)t);
        try {
          void* p = map->lookup(t);
          e.str("out", "ok").num("p", id_of(p));
        } catch (const std::runtime_error&) {
          e.str("out", "abort").num("p", 0);
        }
      } else if (op == "oget") {
        std::string o;
        is >> o;
        int i = own_idx(o);
        long k = next_ptr++;
        e.str("o", o).num("p", k);
        long long t = 0;
        try {
          ow->recycle(i);
          new (ow->store[i]) AP(sb->get_app_pointer(ptr_of(k)));
          ow->exists[i] = true;
          t = (long long)ow->at(i).UNSAFE_sandboxed(*sb);
          // the application-side value must be the sandbox address of the token
          // (app_pointer::UNSAFE_unverified() does not compile: to_tainted() is non-const)
          auto app = ow->at(i).to_tainted().UNSAFE_unverified();
          bool inreg = sb->is_pointer_in_sandbox_memory(app);
          e.str("out", "ok").boolean("inreg", inreg);
          e.num("tt", (long long)(reinterpret_cast<uintptr_t>(app) - sb->get_sandbox_impl()->base));
        } catch (const std::runtime_error&) {
          e.str("out", "abort");
        }
        e.num("t", t);
        xtoken = t;
      } else if (op == "ounreg") {
        std::string o;
        is >> o;
        int i = own_idx(o);
        e.str("o", o);
        try {
          ow->at(i).unregister();
          e.str("out", "ok");
        } catch (const std::runtime_error&) {
          e.str("out", "abort");
        }
      } else if (op == "odestroy") {
        std::string o;
        is >> o;
        int i = own_idx(o);
        e.str("o", o);
        ow->at(i).~AP(); // a throwing destructor terminates: recorded by on_terminate
        ow->exists[i] = false;
        e.str("out", "ok");
      } else if (op == "omovec") {
        std::string o, o2;
        is >> o >> o2;
        int i = own_idx(o), j = own_idx(o2);
        e.str("o", o).str("o2", o2);
        ow->recycle(j);
        new (ow->store[j]) AP(std::move(ow->at(i)));
        ow->exists[j] = true;
        e.str("out", "ok");
      } else if (op == "omovea") {
        std::string o, o2;
        is >> o >> o2;
        int i = own_idx(o), j = own_idx(o2);
        e.str("o", o).str("o2", o2);
        try {
          ow->at(j) = std::move(ow->at(i));
          e.str("out", "ok");
        } catch (const std::runtime_error&) {
          e.str("out", "abort");
        }
      } else if (op == "olookup") {
        std::string o;
        is >> o;
        int i = own_idx(o);
        e.str("o", o);
        try {
          auto t = ow->at(i).to_tainted();
          e.num("t", (long long)t.UNSAFE_sandboxed(*sb));
          xtoken = (long long)t.UNSAFE_sandboxed(*sb);
          int* p = sb->lookup_app_ptr(t);
          e.str("out", "ok").num("p", id_of(p));
        } catch (const std::runtime_error&) {
          e.str("out", "abort").num("p", 0);
        }
      } else if (op == "lookupt") {
        unsigned long long t;
        is >> t;
        e.num("t", (long long)t);
        xtoken = (long long)t;
        try {
          auto tp = sb->UNSAFE_accept_pointer(
            reinterpret_cast<int*>(sb->get_sandbox_impl()->base + t));
          int* p = sb->lookup_app_ptr(tp);
          e.str("out", "ok").num("p", id_of(p));
        } catch (const std::runtime_error&) {
          e.str("out", "abort").num("p", 0);
        }
      } else {
        std::cerr << "bad op " << op << "\n";
        return 2;
      }
    } catch (const std::exception& ex) {
      e.str("out", "abort").str("what", "unexpected exception");
    }
    if (ow) {
      e.raw("own", own_projection(*sb, *ow));
    }
    out.put(e);
    if (ow && unwind_probe && op == "oget") {
      // an owner that lives in a scope left by an EXCEPTION: its destructor runs during stack
      // unwinding and releases the token all the same
      long long ut = 0;
      try {
        AP local(sb->get_app_pointer(ptr_of(next_ptr++)));
        ut = (long long)local.UNSAFE_sandboxed(*sb);
        throw std::logic_error("leave the scope by an exception");
      } catch (const std::logic_error&) {
      } catch (const std::runtime_error&) {
        ut = 0; // (no free token: nothing to observe)
      }
      if (ut != 0) {
        tr::Ev u("unwound");
        u.num("t", ut);
        try {
          auto tp = sb->UNSAFE_accept_pointer(reinterpret_cast<int*>(sb->get_sandbox_impl()->base + ut));
          int* p = sb->lookup_app_ptr(tp);
          u.str("lookup", "ok").num("p", id_of(p));
        } catch (const std::runtime_error&) {
          u.str("lookup", "abort").num("p", 0);
        }
        u.raw("own", own_projection(*sb, *ow));
        out.put(u);
      }
    }
    if (ow && unwind_probe && (op == "omovec" || op == "ounreg")) {
      // the sandbox is destroyed and created again while owners are alive: the owners are
      // free-standing objects, their tokens stay theirs (and stay taken) across incarnations
      tr::Ev c("sbxcycle");
      try {
        sb->destroy_sandbox();
        sb->create_sandbox();
        sb->get_sandbox_impl()->reported_total = max + 1;
        c.str("out", "ok");
      } catch (const std::runtime_error&) {
        // (a library that refuses this is inside the Contract; the state of the sandbox object is
        // unknown then, so this history ends here)
        c.str("out", "abort");
        skip_until_reset = true;
      }
      c.raw("own", own_projection(*sb, *ow));
      out.put(c);
      if (skip_until_reset) {
        continue;
      }
    }
    if (ow && other && xtoken != 0 && (op == "oget" || op == "lookupt" || op == "olookup")) {
      // the same token value presented to the OTHER sandbox
      long long t = xtoken;
      tr::Ev x("xlookup");
      x.num("t", t);
      try {
        auto tp = other->UNSAFE_accept_pointer(reinterpret_cast<int*>(other->get_sandbox_impl()->base + t));
        int* p = other->lookup_app_ptr(tp);
        x.str("out", "ok").num("p", id_of(p));
      } catch (const std::runtime_error&) {
        x.str("out", "abort").num("p", 0);
      }
      x.raw("own", own_projection(*sb, *ow));
      out.put(x);
    }
  }
  teardown();
  out.close();
  return 0;
}
