// Prelude of the C01 / C02 program corpus (compiled once as a g++ PCH): operands of every
// wrapper kind x type class, plus helpers. Each generated program is a function body placed in
// `void program(Env& e)`; compile-only (-fsyntax-only), WITHOUT RLBOX_NO_COMPILE_CHECKS.
#define RLBOX_SINGLE_THREADED_INVOCATIONS
#define RLBOX_USE_EXCEPTIONS
#include "rlbox.hpp"
#include "vm_sandbox.hpp"

#include <array>
#include <memory>
#include <string>

using namespace rlbox;
using S = rlbox_vm_sandbox<vm_abi_wasm32, 12>;
using S2 = rlbox_vm_sandbox<vm_abi_lp16, 12>;
using S3 = rlbox_vm_sandbox<vm_abi_lp64u, 12>; // pointers are 64-bit integers: same width as host pointers

struct PS
{
  long a;
  char b;
  int* c;
  short d;
};
#define sandbox_fields_reflection_vlib_class_PS(f, g, ...)                                                             \
  f(long, a, FIELD_NORMAL, ##__VA_ARGS__) g() f(char, b, FIELD_NORMAL, ##__VA_ARGS__) g()                              \
    f(int*, c, FIELD_NORMAL, ##__VA_ARGS__) g() f(short, d, FIELD_NORMAL, ##__VA_ARGS__) g()
#define sandbox_fields_reflection_vlib_allClasses(f, ...) f(PS, vlib, ##__VA_ARGS__)
rlbox_load_structs_from_library(vlib);

enum En
{
  EnA,
  EnB
};
using Fn = int (*)(int);
using Fn2 = long (*)(long, long);
// function-pointer types that differ for the application but coincide under a 32-bit guest ABI
using FnL = long (*)(long);        // vs Fn = int (*)(int)
using FnIP = void (*)(int*);
using FnCP = void (*)(char*);
using FnU = void (*)(unsigned);

// the compiler reports the type of an accepted expression through this incomplete template
template<typename T>
struct Report;

int take_int(int);
int take_long(long);
int take_bool(bool);
int take_double(double);
int take_cref(const int&);
int take_ptr(int*);
int take_cptr(const void*);
int take_fn(Fn);
int take_ps(PS);
extern int raw_arr[16];

// sandboxed library functions (application-ABI declarations)
int lib_int(int);
int lib_ptr(int*);
int lib_fn(Fn);
int lib_ps(PS);
int lib_charp(const char*);
int lib_long_ptr(long, int*);

// callback candidates (C02 registration shapes)
tainted<int, S> cb_ok(rlbox_sandbox<S>&, tainted<int, S>);
tainted<int, S> cb_ok_ptr(rlbox_sandbox<S>&, tainted<int*, S>);
void cb_ok_void(rlbox_sandbox<S>&, tainted<long, S>, tainted_opaque<int*, S>);
tainted_opaque<int, S> cb_ok_opaque(rlbox_sandbox<S>&, tainted_opaque<int, S>);
tainted<int, S> cb_no_sandbox(tainted<int, S>);
tainted<int, S> cb_nothing();
tainted<int, S> cb_wrong_first(int, tainted<int, S>);
tainted<int, S> cb_other_sandbox_ref(rlbox_sandbox<S2>&, tainted<int, S>);
tainted<int, S> cb_plain_param(rlbox_sandbox<S>&, int);
tainted<int, S> cb_plain_ptr_param(rlbox_sandbox<S>&, int*);
tainted<int, S> cb_volatile_param(rlbox_sandbox<S>&, tainted_volatile<int, S>&);
tainted<int, S> cb_array_param(rlbox_sandbox<S>&, tainted<int[4], S>);
tainted<int, S> cb_foreign_param(rlbox_sandbox<S>&, tainted<int, S2>);
int cb_plain_ret(rlbox_sandbox<S>&, tainted<int, S>);
int* cb_plain_ptr_ret(rlbox_sandbox<S>&, tainted<int, S>);
tainted<long, S> cb_long(rlbox_sandbox<S>&, tainted<long, S>, tainted<long, S>);
// a plain (unwrapped) parameter NEXT TO tainted ones: the sandbox-supplied argument would arrive
// as a plain value
void cb_mixed_ptr(rlbox_sandbox<S>&, tainted<int, S>, const char*);
void cb_mixed_struct(rlbox_sandbox<S>&, tainted<int, S>, PS);
void cb_mixed_ref(rlbox_sandbox<S>&, tainted<int, S>, const int&);
void cb_mixed_fn(rlbox_sandbox<S>&, tainted<int, S>, Fn);
void cb_mixed_int_last(rlbox_sandbox<S>&, tainted<int*, S>, tainted<long, S>, int);
tainted<int, S> cb_mixed_first_plain(rlbox_sandbox<S>&, int*, tainted<int, S>);

struct Env
{
  rlbox_sandbox<S>& sb;
  rlbox_sandbox<S2>& sb2;
  // tainted
  tainted<int, S> t_int;
  tainted<unsigned char, S> t_uchar;
  tainted<bool, S> t_bool;
  tainted<long, S> t_long;
  tainted<En, S> t_enum;
  tainted<float, S> t_float;
  tainted<double, S> t_double;
  tainted<int*, S> t_ptr;
  tainted<int**, S> t_pp;
  tainted<void*, S> t_voidp;
  tainted<const char*, S> t_charp;
  tainted<Fn, S> t_fn;
  tainted<Fn2, S> t_fn2;
  tainted<int[4], S> t_arr;
  tainted<PS, S> t_ps;
  tainted<PS*, S> t_psp;
  tainted<int (*)[4], S> t_parr;
  tainted<int* (*)[2], S> t_parrp;
  tainted<Fn*, S> t_pfn;
  tainted<long*, S> t_plong;
  tainted<bool*, S> t_pbool;
  tainted<unsigned char*, S> t_puchar;
  tainted<double*, S> t_pdouble;
  tainted<En*, S> t_penum;
  // tainted_volatile (references into sandbox memory)
  tainted_volatile<int, S>& v_int;
  tainted_volatile<unsigned char, S>& v_uchar;
  tainted_volatile<bool, S>& v_bool;
  tainted_volatile<long, S>& v_long;
  tainted_volatile<En, S>& v_enum;
  tainted_volatile<double, S>& v_double;
  tainted_volatile<int*, S>& v_ptr;
  tainted_volatile<Fn, S>& v_fn;
  tainted_volatile<int[4], S>& v_arr;
  tainted_volatile<int* [2], S>& v_arrp;
  tainted_volatile<PS, S>& v_ps;
  // opaque, callback, app pointer, hints
  tainted_opaque<int, S> o_int;
  tainted_opaque<int*, S> o_ptr;
  sandbox_callback<Fn, S>& cb;
  sandbox_callback<Fn2, S>& cb2;
  sandbox_callback<FnL, S>& cb_l;
  sandbox_callback<FnIP, S>& cb_ip;
  tainted<FnL, S> t_fnl;
  tainted<FnIP, S> t_fnip;
  tainted_volatile<FnL, S>& v_fnl;
  tainted_volatile<FnIP, S>& v_fnip;
  tainted_volatile<FnCP, S>& v_fncp;
  tainted_volatile<FnU, S>& v_fnu;
  app_pointer<int*, S>& ap;
  tainted_boolean_hint bh;
  tainted_int_hint ih;
  // wrappers of another sandbox type
  tainted<int, S2> t2_int;
  tainted<int*, S2> t2_ptr;
  sandbox_callback<Fn, S2>& cb_s2;
  // a sandbox type whose pointer representation has the host's pointer width
  rlbox_sandbox<S3>& sb3;
  tainted<int*, S3> t3_ptr;
  tainted_volatile<int*, S3>& v3_ptr;
  tainted_volatile<int* [2], S3>& v3_arrp;
  tainted_volatile<Fn, S3>& v3_fn;
  tainted_volatile<long, S3>& v3_long;
  std::array<int*, 2> r_stdarrp;
  std::array<int, 4> r_stdarr;
  // raw application values
  int r_int;
  long r_long;
  unsigned long long r_ull;
  double r_double;
  bool r_bool;
  int* r_ptr;
  int** r_pp;
  void** r_vpp;
  const char* const* r_ccpp;
  const char* r_charp;
  void* r_voidp;
  Fn r_fn;
  int* r_arrp[2];
  int r_arr[4];
  PS r_ps;
  PS* r_psp;
};
