// Single-fetch conformance driver: operations whose operand is read from SANDBOX MEMORY (a
// tainted_volatile cell) while the sandbox rewrites that cell between any two reads
// (harness/loadwatch.hpp: the k-th read of the cell observes script[k-1]).  What is recorded is
// the script, the outcome and the number of reads; spec/Fetch.tla accepts an outcome iff the
// Contract of the operation (C17 indexing, C05 arithmetic, C09 verified copies, C06 conversion)
// holds for ONE value of the script: a value that was checked is the value that is used.
//
// usage: fetch_driver <mode: c17|c05|c09|c06> <out> <seed>
#define RLBOX_USE_EXCEPTIONS
#include "rlbox.hpp"
#include "vm_sandbox.hpp"
#include "loadwatch.hpp"
#include "trace.hpp"

#include <algorithm>
#include <csetjmp>
#include <exception>
#include <limits>
#include <memory>
#include <random>
#include <string>
#include <utility>
#include <vector>

using namespace rlbox;
using W = __int128;
#if defined(ABI_ILP64)
using Abi = vm_abi_ilp64; // guest int / long / pointers are 64 bits: loads into int narrow
#elif defined(ABI_LP16)
using Abi = vm_abi_lp16;
#else
using Abi = vm_abi_wasm32;
#endif
using Sbx = rlbox_vm_sandbox<Abi, 12>;
using RS = rlbox_sandbox<Sbx>;
static const long SIZE = 4096;
static tr::Out out;
static RS* sb;
static uintptr_t BASE;

struct PS
{
  long a;
  char b;
  int* c;
  short d;
};
#define sandbox_fields_reflection_vlib_class_PS(f, g, ...)                                                             \
  f(long, a, FIELD_NORMAL, ##__VA_ARGS__) g() f(char, b, FIELD_NORMAL, ##__VA_ARGS__) g()                              \
    f(int*, c, FIELD_NORMAL, ##__VA_ARGS__) g() f(short, d, FIELD_NORMAL, ##__VA_ARGS__) g()
#define sandbox_fields_reflection_vlib_allClasses(f, ...) f(PS, vlib, ##__VA_ARGS__)
rlbox_load_structs_from_library(vlib);

template<typename T>
using GuestRep = std::remove_cv_t<std::remove_reference_t<decltype(std::declval<tainted_volatile<T, Sbx>&>().UNSAFE_sandboxed(std::declval<RS&>()))>>;

template<typename N>
struct NName;
#define NN(T, S)                                                                                                       \
  template<>                                                                                                           \
  struct NName<T>                                                                                                      \
  {                                                                                                                    \
    static constexpr const char* v = S;                                                                                \
  };
NN(int8_t, "i8") NN(uint8_t, "u8") NN(int16_t, "i16") NN(uint16_t, "u16") NN(int32_t, "i32") NN(uint32_t, "u32")
using i64 = long long;
using u64 = unsigned long long;
NN(i64, "i64") NN(u64, "u64") NN(long, "long") NN(unsigned long, "ulong") NN(bool, "bool") NN(double, "double")

static W rel(const volatile void* p)
{
  return (W)reinterpret_cast<uintptr_t>(p) - (W)BASE;
}

// a cell of application type N in sandbox memory, watched with the given script (values of N)
template<typename N>
struct Cell
{
  tainted<N*, Sbx> p;
  using G = GuestRep<N>;
  Cell() { p = sb->malloc_in_sandbox<N>(); }
  tainted_volatile<N, Sbx>& ref() { return *p; }
  void* raw() { return const_cast<void*>(reinterpret_cast<const volatile void*>(p.UNSAFE_unverified())); }
  void arm(const std::vector<W>& script)
  {
    std::vector<std::vector<uint8_t>> vals;
    for (W x : script) {
      vals.push_back(lw::bytes<G>((G)x));
    }
    lw::arm(raw(), sizeof(G), vals);
  }
};

// An abort is a std::runtime_error (RLBOX_USE_EXCEPTIONS) - or std::terminate where the failed
// check sits under a noexcept member (unwrapping an index that the application type cannot
// represent, for instance): the terminate handler jumps back here. Leaving a terminate handler
// by a jump is outside the language rules; with g++ the stack is still intact at that point
// (the search phase found the noexcept frame, nothing was unwound), which is all this driver needs.
static sigjmp_buf g_term_jmp;
static bool g_term_armed = false;
static int g_terminates = 0;
static void on_terminate()
{
  if (g_term_armed) {
    g_term_armed = false;
    g_terminates++;
    siglongjmp(g_term_jmp, 1);
  }
  std::_Exit(6);
}
template<typename F>
static const char* guarded(F&& f)
{
  if (sigsetjmp(g_term_jmp, 1) != 0) {
    return "abort";
  }
  g_term_armed = true;
  try {
    f();
    g_term_armed = false;
    return "ok";
  } catch (const std::runtime_error&) {
    g_term_armed = false;
    return "abort";
  }
}

static void put_script(tr::Ev& e, const std::vector<W>& script)
{
  std::string s = "[";
  for (size_t i = 0; i < script.size(); i++) {
    s += (i ? "," : "") + tr::wide_json(script[i]);
  }
  e.raw("script", s + "]");
}

// scripts for an operand of type N whose valid values are 0..hi: (valid, beyond), (valid, negative),
// (valid, other valid), (invalid, valid), (valid, valid, beyond), (valid, aliasing after truncation)
template<typename N>
static std::vector<std::vector<W>> scripts(W lo_valid, W hi_valid, W other_valid)
{
  std::vector<std::vector<W>> r;
  // (the cell holds the GUEST representation of N: values beyond it cannot be scripted)
  using G = GuestRep<N>;
  const W tmin = std::max((W)std::numeric_limits<N>::min(), (W)std::numeric_limits<G>::min());
  const W tmax = std::min((W)std::numeric_limits<N>::max(), (W)std::numeric_limits<G>::max());
  auto fits = [&](W x) { return x >= tmin && x <= tmax; };
  std::vector<W> bad = { hi_valid + 1, hi_valid + 1000, tmax, (W)-1, tmin, hi_valid + 256, hi_valid + 65536 };
  for (W b : bad) {
    if (!fits(b) || (b >= lo_valid && b <= hi_valid)) {
      continue;
    }
    r.push_back({ lo_valid, b });
    r.push_back({ other_valid, b });
    r.push_back({ b, other_valid });
    r.push_back({ other_valid, other_valid, b });
  }
  r.push_back({ lo_valid, other_valid });
  r.push_back({ other_valid, hi_valid, lo_valid });
  r.push_back({ other_valid });
  // a guest representation wider than the application type: the cell can hold values the
  // application type cannot represent, among them values that alias a valid one after truncation
  const W gmin = (W)std::numeric_limits<G>::min(), gmax = (W)std::numeric_limits<G>::max();
  const W span = (W)1 << (8 * sizeof(N));
  if (gmax > (W)std::numeric_limits<N>::max()) {
    r.push_back({ span + other_valid });
    r.push_back({ other_valid, span + other_valid });
    r.push_back({ span + other_valid, other_valid });
    r.push_back({ gmax });
  }
  if (gmin < (W)std::numeric_limits<N>::min()) {
    r.push_back({ -span + other_valid });
    r.push_back({ other_valid, -span + other_valid });
    r.push_back({ gmin });
  }
  return r;
}

template<typename T>
struct TypeTag
{
  using type = T;
};

// ---------------------------------------------------------------- C17: index read from sandbox memory
template<typename Arr, typename N>
static void idx_case(Arr& arr, const char* where, const char* form, long len, long es)
{
  Cell<N> cell;
  for (auto& script : scripts<N>(0, len - 1, len > 1 ? 1 : 0)) {
    W eoff = -1;
    cell.arm(script);
    const char* r = guarded([&] {
      if (form[0] == 'c') {
        auto& el = std::as_const(arr)[cell.ref()];
        eoff = (W)(reinterpret_cast<uintptr_t>(std::addressof(el)) - reinterpret_cast<uintptr_t>(std::addressof(arr)));
      } else {
        auto& el = arr[cell.ref()];
        eoff = (W)(reinterpret_cast<uintptr_t>(std::addressof(el)) - reinterpret_cast<uintptr_t>(std::addressof(arr)));
      }
    });
    lw::disarm();
    tr::Ev e("fetch");
    e.str("kind", "index").str("where", where).str("form", form).str("nty", NName<N>::v).num("len", len).num("es", es);
    put_script(e, script);
    e.str("out", r).num("eoff", std::strcmp(r, "ok") == 0 ? (long long)eoff : -1).num("reads", lw::g.reads);
    out.put(e);
  }
}

static void c17_tests()
{
  static tainted<int[4], Sbx> app4;
  static tainted<char[16], Sbx> app16;
  static tainted<long long[3], Sbx> app3;
  static tainted<int[3][4], Sbx> app2d;
  auto p4 = sb->malloc_in_sandbox<int[4]>();
  auto p16 = sb->malloc_in_sandbox<char[16]>();
  auto p2d = sb->malloc_in_sandbox<int[3][4]>();
  const long gi = sizeof(GuestRep<int>);
#define IDX(N)                                                                                                         \
  idx_case<decltype(app4), N>(app4, "T", "[]", 4, sizeof(int));                                                         \
  idx_case<decltype(app4), N>(app4, "T", "const[]", 4, sizeof(int));                                                    \
  idx_case<decltype(app16), N>(app16, "T", "[]", 16, 1);                                                                \
  idx_case<decltype(app3), N>(app3, "T", "[]", 3, sizeof(long long));                                                   \
  idx_case<decltype(app2d), N>(app2d, "T", "[]", 3, sizeof(int) * 4);                                                   \
  idx_case<decltype(*p4), N>(*p4, "V", "[]", 4, gi);                                                                    \
  idx_case<decltype(*p4), N>(*p4, "V", "const[]", 4, gi);                                                               \
  idx_case<decltype(*p16), N>(*p16, "V", "[]", 16, 1);                                                                  \
  idx_case<decltype(*p2d), N>(*p2d, "V", "[]", 3, gi * 4);
  IDX(int32_t) IDX(uint32_t) IDX(int16_t) IDX(uint8_t) IDX(int8_t) IDX(i64) IDX(u64) IDX(long)
  // an array object that does not lie wholly inside the sandbox (a sandbox-supplied pointer to
  // array near the end of the region) is never indexed: dereferencing the pointer is refused;
  // the array that ends exactly at the last byte is indexed as usual
  {
    auto straddle = [&](const char* what, auto tag, long at, long len, long es) {
      using A = typename decltype(tag)::type;
      auto p = sb->UNSAFE_accept_pointer(reinterpret_cast<A*>(BASE + at));
      for (long i = 0; i < len; i++) {
        W eoff = -1;
        const char* r = guarded([&] {
          auto& el = (*p)[i];
          eoff = (W)(reinterpret_cast<uintptr_t>(std::addressof(el)) - (BASE + at));
        });
        tr::Ev e("fetch");
        bool fits = at + len * es <= SIZE;
        e.str("kind", fits ? "index" : "straddle").str("where", "V").str("form", what).str("nty", "plain").num("len", len).num("es", es);
        put_script(e, { (W)i });
        e.str("out", r).num("eoff", std::strcmp(r, "ok") == 0 ? (long long)eoff : -1).num("reads", 0).num("at", at);
        out.put(e);
      }
    };
    using I4 = int[4];
    using C16 = char[16];
    using LL3 = long long[3];
    const long gll = sizeof(GuestRep<long long>);
    straddle("(*p)[i] int[4]", TypeTag<I4>{}, SIZE - 4 * gi, 4, gi);
    straddle("(*p)[i] int[4]", TypeTag<I4>{}, SIZE - 4 * gi + 1, 4, gi);
    straddle("(*p)[i] int[4]", TypeTag<I4>{}, SIZE - 2 * gi, 4, gi);
    straddle("(*p)[i] int[4]", TypeTag<I4>{}, SIZE - 1, 4, gi);
    straddle("(*p)[i] char[16]", TypeTag<C16>{}, SIZE - 16, 16, 1);
    straddle("(*p)[i] char[16]", TypeTag<C16>{}, SIZE - 9, 16, 1);
    straddle("(*p)[i] long long[3]", TypeTag<LL3>{}, SIZE - 3 * gll, 3, gll);
    straddle("(*p)[i] long long[3]", TypeTag<LL3>{}, SIZE - 2 * gll, 3, gll);
  }
  {
    // (a row that lost its extent cannot be indexed again; the pointer driver's `row` events say so)
    auto& row = app2d[1];
    if constexpr (sizeof(row) == sizeof(int) * 4) {
      idx_case<decltype(row), int32_t>(row, "T", "row[]", 4, sizeof(int));
    }
    auto& vrow = (*p2d)[2];
    if constexpr (sizeof(vrow) == 4 * sizeof(GuestRep<int>)) {
      idx_case<decltype(vrow), int32_t>(vrow, "V", "row[]", 4, gi);
    }
  }
}

// ---------------------------------------------------------------- C05: operand read from sandbox memory
static const char* OPN[] = { "+", "-", "+=", "-=", "[]", "&[]" };
template<typename T, typename N>
static void arith_case(int op, long base, long s)
{
  Cell<N> cell;
  const int sgn = (op == 1 || op == 3) ? -1 : 1;
  W nmax = sgn == 1 ? (SIZE - 1 - base) / s : base / s;
  for (auto& script : scripts<N>(0, nmax, 1)) {
    auto p = sb->UNSAFE_accept_pointer(reinterpret_cast<T*>(BASE + base));
    const volatile void* res = nullptr;
    const volatile void* after = nullptr;
    cell.arm(script);
    const char* r = guarded([&] {
      switch (op) {
        case 0: res = (p + cell.ref()).UNSAFE_unverified(); break;
        case 1: res = (p - cell.ref()).UNSAFE_unverified(); break;
        case 2: p += cell.ref(); res = p.UNSAFE_unverified(); break;
        case 3: p -= cell.ref(); res = p.UNSAFE_unverified(); break;
        case 4: res = std::addressof(p[cell.ref()]); break;
        default: res = (&p[cell.ref()]).UNSAFE_unverified(); break;
      }
    });
    lw::disarm();
    after = p.UNSAFE_unverified();
    tr::Ev e("fetch");
    e.str("kind", "ptrop").str("op", OPN[op]).str("nty", NName<N>::v).num("base", base).num("s", s).num("size", SIZE);
    put_script(e, script);
    bool ok = std::strcmp(r, "ok") == 0;
    e.str("out", r).boolean("rnull", ok && res == nullptr).wide("r", ok ? rel(res) : 0).num("reads", lw::g.reads);
    // the pointer operated on, read again afterwards (compound forms update it; a refused
    // operation leaves a pointer into the sandbox)
    e.wide("after", rel(after));
    out.put(e);
  }
}
static void c05_tests()
{
  const long gi = sizeof(GuestRep<int>), gl = sizeof(GuestRep<long>);
  for (int op = 0; op < 6; op++) {
    for (long base : { 0L, 2048L, SIZE - 2 * gl }) {
      arith_case<int, int32_t>(op, base, gi);
      arith_case<int, i64>(op, base, gi);
      arith_case<int, uint32_t>(op, base, gi);
      arith_case<int, int16_t>(op, base, gi);
      arith_case<char, int32_t>(op, base, 1);
      arith_case<char, u64>(op, base, 1);
      arith_case<long, int32_t>(op, base, gl);
      arith_case<long, uint8_t>(op, base, gl);
    }
  }
}

// ---------------------------------------------------------------- C05 / C03: the POINTER is read from sandbox memory
template<typename T>
static void base_case(long gs)
{
  Cell<T*> cell;
  std::vector<std::vector<W>> scr = { { 64, 128 }, { 64, SIZE - gs }, { SIZE - gs, 64 }, { 64, SIZE - 1 }, { 64, 0 }, { 0, 64 },
                                      { 2048, 8, SIZE - gs }, { 256 } };
  // p + n, p - n, p[n], &p[n] with a plain n
  for (auto& script : scr) {
    for (int op : { 0, 1, 4, 5 }) {
      for (long n : { 0L, 1L, 3L, (SIZE - 64) / gs - 1, (SIZE - 64) / gs, 64 / gs, 64 / gs + 1 }) {
        const volatile void* res = nullptr;
        cell.arm(script);
        const char* r = guarded([&] {
          switch (op) {
            case 0: res = (cell.ref() + n).UNSAFE_unverified(); break;
            case 1: res = (cell.ref() - n).UNSAFE_unverified(); break;
            case 4: res = std::addressof(cell.ref()[n]); break;
            default:
              if constexpr (!std::is_class_v<T>) { // (& of a tainted_volatile struct does not compile)
                res = (&cell.ref()[n]).UNSAFE_unverified();
              } else {
                res = std::addressof(std::as_const(cell.ref())[n]);
              }
              break;
          }
        });
        lw::disarm();
        tr::Ev e("fetch");
        e.str("kind", "ptrbase").str("op", OPN[op]).num("s", gs).num("size", SIZE).wide("n", n);
        put_script(e, script);
        bool ok = std::strcmp(r, "ok") == 0;
        e.str("out", r).boolean("rnull", ok && res == nullptr).wide("r", ok ? rel(res) : 0).num("reads", lw::g.reads);
        out.put(e);
      }
    }
    // *p and p-> : the object designated lies wholly inside the sandbox, at the address read
    for (int op = 0; op < 2; op++) {
      const volatile void* res = nullptr;
      cell.arm(script);
      const char* r = guarded([&] {
        if (op == 0) {
          res = std::addressof(*cell.ref());
        } else {
          res = cell.ref().operator->();
        }
      });
      lw::disarm();
      tr::Ev e("fetch");
      e.str("kind", "deref").str("op", op == 0 ? "*" : "->").num("gs", gs).num("size", SIZE);
      put_script(e, script);
      bool ok = std::strcmp(r, "ok") == 0;
      e.str("out", r).wide("r", ok ? rel(res) : 0).num("reads", lw::g.reads);
      out.put(e);
    }
  }
}
static void c03_tests()
{
  base_case<int>(sizeof(GuestRep<int>));
  base_case<char>(1);
  base_case<long long>(sizeof(GuestRep<long long>));
  base_case<PS>(sizeof(tainted_volatile<PS, Sbx>));
}

// ---------------------------------------------------------------- C10: the extent is read from sandbox memory
static void c10_tests()
{
  static char app[2 * 4096];
  const long START = 1024;
  auto buf = sb->UNSAFE_accept_pointer(reinterpret_cast<char*>(BASE + START));
  char* raw = reinterpret_cast<char*>(BASE + START);
  for (long i = 0; i < SIZE - START; i++) {
    raw[i] = (char)(i * 7 + 1);
    app[i] = raw[i];
  }
  const long DIFF = 40;
  app[DIFF] = (char)(raw[DIFF] + 1); // the application buffer is greater from byte 40 on
  Cell<unsigned> ncell;
  Cell<char*> pcell;
  for (auto script : std::vector<std::vector<W>>{ { 8, 64 }, { 8, 100000 }, { 100000, 8 }, { 8, 8, SIZE - START + 1 }, { 64, SIZE - START },
                                                  { 8, 4000 }, { 41, 40 }, { 16 } }) {
    int res = -99;
    ncell.arm(script);
    const char* r = guarded([&] { res = memcmp(*sb, buf, app, ncell.ref()).unverified_safe_because("recorded"); });
    lw::disarm();
    tr::Ev e("fetch");
    e.str("kind", "bulk").str("what", "memcmp(num in sandbox memory)").num("start", START).num("size", SIZE).num("diffat", DIFF);
    put_script(e, script);
    e.str("out", r).num("sign", res < 0 ? -1 : res > 0 ? 1 : 0).num("reads", lw::g.reads);
    out.put(e);
  }
}

// ---------------------------------------------------------------- C10: the pointer of a range request is read from sandbox memory
static void c10_ptr_tests()
{
  Cell<int*> cell;
  // the raw pointer handed out is used with the APPLICATION's element size: that is the extent checked
  const long gi = sizeof(int);
  for (long count : { 1L, 4L, 16L }) {
    for (auto script : std::vector<std::vector<W>>{ { 2048, 3072 }, { 2048, SIZE - gi }, { SIZE - 16 * gi, SIZE - 2 * gi }, { 2048, SIZE - 1 },
                                                    { 2048, 0 }, { 0, 2048 }, { SIZE - gi, 2048 }, { 1024 } }) {
      const volatile void* res = nullptr;
      cell.arm(script);
      const char* r = guarded([&] { res = cell.ref().unverified_safe_pointer_because((size_t)count, "recorded by the harness"); });
      lw::disarm();
      tr::Ev e("fetch");
      e.str("kind", "safeptr").str("what", "unverified_safe_pointer_because").num("gs", gi).num("count", count).num("size", SIZE);
      put_script(e, script);
      bool ok = std::strcmp(r, "ok") == 0;
      e.str("out", r).boolean("rnull", ok && res == nullptr).wide("r", ok && res != nullptr ? rel(res) : 0).num("reads", lw::g.reads);
      out.put(e);
    }
  }
}

// ---------------------------------------------------------------- C09: verified copies of one cell
template<typename N>
static void verify_case(std::vector<std::vector<W>> scr)
{
  Cell<N> cell;
  {
    // a guest representation wider than the application type: values the application type cannot
    // hold appear in the cell after a value that passed the conversion's range check
    using G = GuestRep<N>;
    const W nmax = (W)std::numeric_limits<N>::max(), gmax = (W)std::numeric_limits<G>::max();
    if (gmax > nmax && !std::is_same_v<N, bool>) {
      scr.push_back({ 5, nmax + 1 + 7 });
      scr.push_back({ 5, 5, ((W)1 << (8 * sizeof(N))) + 7 });
      scr.push_back({ nmax + 1 + 7, 5 });
    }
  }
  for (auto& script : scr) {
    W seen = -7777, used = -7777;
    int calls = 0;
    cell.arm(script);
    const char* r = guarded([&] {
      N u = cell.ref().copy_and_verify([&](N v) {
        seen = (W)v;
        calls++;
        return v;
      });
      used = (W)u;
    });
    lw::disarm();
    tr::Ev e("fetch");
    e.str("kind", "verify").str("what", "copy_and_verify").str("nty", NName<N>::v);
    e.num("bits", std::is_same_v<N, bool> ? 1 : 8 * (long)sizeof(N)).boolean("signed", std::is_signed_v<N>);
    put_script(e, script);
    e.str("out", r).wide("seen", seen).wide("used", used).num("calls", calls).num("reads", lw::g.reads);
    out.put(e);
  }
  // the same cell through a pointer: the verifier gets a heap copy of the pointee
  for (auto& script : scr) {
    W seen = -7777, used = -7777;
    int calls = 0;
    cell.arm(script);
    const char* r = guarded([&] {
      N u = cell.p.copy_and_verify([&](std::unique_ptr<N> v) {
        seen = (W)*v;
        calls++;
        return *v;
      });
      used = (W)u;
    });
    lw::disarm();
    tr::Ev e("fetch");
    e.str("kind", "verify").str("what", "pointer.copy_and_verify").str("nty", NName<N>::v);
    e.num("bits", std::is_same_v<N, bool> ? 1 : 8 * (long)sizeof(N)).boolean("signed", std::is_signed_v<N>);
    put_script(e, script);
    e.str("out", r).wide("seen", seen).wide("used", used).num("calls", calls).num("reads", lw::g.reads);
    out.put(e);
  }
  // unverified reads are single fetches too: UNSAFE_unverified of the cell
  for (auto& script : scr) {
    W seen = -7777;
    cell.arm(script);
    const char* r = guarded([&] { seen = (W)cell.ref().UNSAFE_unverified(); });
    lw::disarm();
    tr::Ev e("fetch");
    e.str("kind", "verify").str("what", "UNSAFE_unverified").str("nty", NName<N>::v);
    e.num("bits", std::is_same_v<N, bool> ? 1 : 8 * (long)sizeof(N)).boolean("signed", std::is_signed_v<N>);
    put_script(e, script);
    e.str("out", r).wide("seen", seen).wide("used", seen).num("calls", 1).num("reads", lw::g.reads);
    out.put(e);
  }
}

static void c09_tests()
{
  std::vector<std::vector<W>> s = { { 5, 77 }, { 0, 1 }, { 1, 0 }, { 100, 101, 102 }, { 42 } };
  verify_case<int>(s);
  verify_case<long>(s);
  verify_case<unsigned short>(s);
  verify_case<i64>({ { 5, ((W)1 << 40) + 5 }, { ((W)1 << 40), 3 } });
  verify_case<unsigned char>(s);
  verify_case<bool>({ { 0, 1 }, { 1, 0 } });
  // a pointer cell: the address the verifier gets is the address that was translated and checked
  {
    Cell<int*> cell;
    for (auto script : std::vector<std::vector<W>>{ { 64, 128 }, { 128, 4092 }, { 64, 0 }, { 0, 64 }, { 256 } }) {
      for (int via = 0; via < 3; via++) {
        W seen = -7777, used = -7777;
        int calls = 0;
        cell.arm(script);
        const char* r = guarded([&] {
          if (via == 0) {
            uintptr_t a = cell.ref().copy_and_verify_address([&](uintptr_t v) {
              seen = v == 0 ? 0 : (W)v - (W)BASE;
              calls++;
              return v;
            });
            used = a == 0 ? 0 : (W)a - (W)BASE;
          } else if (via == 1) {
            uintptr_t a = cell.ref().copy_and_verify_buffer_address(
              [&](uintptr_t v) {
                seen = v == 0 ? 0 : (W)v - (W)BASE;
                calls++;
                return v;
              },
              4);
            used = a == 0 ? 0 : (W)a - (W)BASE;
          } else {
            int* a = cell.ref().UNSAFE_unverified();
            seen = used = a == nullptr ? 0 : rel(a);
            calls = 1;
          }
        });
        lw::disarm();
        tr::Ev e("fetch");
        e.str("kind", "verify").str("what", via == 0 ? "copy_and_verify_address" : via == 1 ? "copy_and_verify_buffer_address" : "pointer UNSAFE_unverified");
        e.str("nty", "int*");
        put_script(e, script);
        e.str("out", r).wide("seen", seen).wide("used", used).num("calls", calls).num("reads", lw::g.reads);
        out.put(e);
      }
    }
  }
  // copy_and_verify on a pointer CELL: the verifier gets a copy of the object at the address the
  // cell held (or null); redirecting the cell never yields an object from anywhere else
  {
    Cell<int*> cell;
    using GI = GuestRep<int>;
    auto put = [&](long off, long v) { *reinterpret_cast<GI*>(BASE + off) = (GI)v; };
    put(2048, 111);
    put(3072, 222);
    put(SIZE - (long)sizeof(GI), 333);
    for (auto script : std::vector<std::vector<W>>{ { 2048, 3072 }, { 3072, 2048 }, { 2048, 0 }, { 0, 2048 }, { 2048, SIZE - (long)sizeof(GI) },
                                                    { 2048, SIZE - 2 }, { SIZE - 1, 2048 }, { 3072 },
                                                    // three reads: null test, checked read, a further read at the use
                                                    { 2048, 3072, SIZE - 2 }, { 2048, 2048, SIZE - 1 }, { 3072, 2048, 2048, SIZE - 2 },
                                                    { 2048, 3072, 3072, SIZE - 1 } }) {
      W seen = -7777, used = -7777;
      int calls = 0;
      cell.arm(script);
      const char* r = guarded([&] {
        long u = cell.ref().copy_and_verify([&](std::unique_ptr<int> v) {
          seen = v == nullptr ? -1 : (W)*v;
          calls++;
          return v == nullptr ? -1L : (long)*v;
        });
        used = u;
      });
      lw::disarm();
      tr::Ev e("fetch");
      e.str("kind", "verifyptr").str("what", "pointer-cell.copy_and_verify").num("gs", (long)sizeof(GI)).num("size", SIZE);
      put_script(e, script);
      std::string vals = "[";
      for (size_t i = 0; i < script.size(); i++) {
        long o = (long)script[i];
        vals += (i ? "," : "") + std::to_string(o == 2048 ? 111 : o == 3072 ? 222 : o == SIZE - (long)sizeof(GI) ? 333 : -5);
      }
      e.raw("vals", vals + "]");
      e.str("out", r).wide("seen", seen).wide("used", used).num("calls", calls).num("reads", lw::g.reads);
      out.put(e);
    }
  }
  // a struct field: the verifier's copy holds one of the values the field held
  {
    auto ps = sb->malloc_in_sandbox<PS>();
    ps->a = 1;
    ps->b = 2;
    ps->c = nullptr;
    ps->d = 3;
    using GD = GuestRep<short>;
    void* dcell = const_cast<void*>(reinterpret_cast<const volatile void*>((&ps->d).UNSAFE_unverified()));
    for (auto script : std::vector<std::vector<W>>{ { 3, 9 }, { 9, 3, 11 } }) {
      W seen = -7777, used = -7777;
      int calls = 0;
      std::vector<std::vector<uint8_t>> vals;
      for (W x : script) {
        vals.push_back(lw::bytes<GD>((GD)x));
      }
      lw::arm(dcell, sizeof(GD), vals);
      const char* r = guarded([&] {
        PS u = ps->copy_and_verify([&](tainted<PS, Sbx> v) {
          seen = (W)v.d.UNSAFE_unverified();
          calls++;
          return v.UNSAFE_unverified();
        });
        used = (W)u.d;
      });
      lw::disarm();
      tr::Ev e("fetch");
      e.str("kind", "verify").str("what", "struct.copy_and_verify").str("nty", "short field");
      put_script(e, script);
      e.str("out", r).wide("seen", seen).wide("used", used).num("calls", calls).num("reads", lw::g.reads);
      out.put(e);
    }
  }
}

// ---------------------------------------------------------------- C06: converting loads of one cell
template<typename N>
static void conv_case()
{
  using G = GuestRep<N>;
  if (sizeof(G) <= sizeof(N) && std::is_signed_v<G> == std::is_signed_v<N>) {
    // widening (or same-width) loads need no check; still a single fetch
  }
  Cell<N> cell;
  W nmax = (W)std::numeric_limits<N>::max(), nmin = (W)std::numeric_limits<N>::min();
  W gmax = (W)std::numeric_limits<G>::max(), gmin = (W)std::numeric_limits<G>::min();
  const W lmax = std::min(nmax, gmax), lmin = std::max(nmin, gmin);
  std::vector<std::vector<W>> scr = { { 5, 77 }, { 5 }, { lmax, lmin }, { 0, lmax, 1 } };
  if (gmax > nmax) {
    for (W v : { (W)5, nmax, (W)0 }) {
      scr.push_back({ v, nmax + 1 + 7 });
      scr.push_back({ v, gmax });
      scr.push_back({ gmax, v });
      scr.push_back({ v, v, ((W)1 << (8 * sizeof(N))) + 7 });
    }
  }
  if (gmin < nmin) {
    scr.push_back({ 5, nmin - 1 });
    scr.push_back({ nmin, gmin });
  }
  for (auto& script : scr) {
    W got = -7777;
    cell.arm(script);
    const char* r = guarded([&] {
      tainted<N, Sbx> t = cell.ref();
      got = (W)t.UNSAFE_unverified();
    });
    lw::disarm();
    tr::Ev e("fetch");
    e.str("kind", "conv").str("what", "load").str("nty", NName<N>::v).num("bits", 8 * (long)sizeof(N)).boolean("signed", std::is_signed_v<N>);
    put_script(e, script);
    e.str("out", r).wide("got", got).num("reads", lw::g.reads);
    out.put(e);
  }
}
// a value that lives in sandbox memory assigned to a narrower cell of sandbox memory
template<typename T, typename U>
static void conv_store_case()
{
  using GT = GuestRep<T>;
  using GU = GuestRep<U>;
  Cell<U> src;
  Cell<T> dst;
  GT* draw = static_cast<GT*>(dst.raw());
  W tmax = (W)std::numeric_limits<GT>::max(), tmin = (W)std::numeric_limits<GT>::min();
  W umax = (W)std::numeric_limits<GU>::max(), umin = (W)std::numeric_limits<GU>::min();
  std::vector<std::vector<W>> scr = { { 5, 77 }, { 5 }, { 0, 1, 2 } };
  if (umax > tmax) {
    for (W v : { (W)5, tmax, (W)0 }) {
      scr.push_back({ v, tmax + 1 + 7 });
      scr.push_back({ v, umax });
      scr.push_back({ umax, v });
      scr.push_back({ v, v, ((W)1 << (8 * sizeof(GT))) + 7 });
    }
  }
  if (umin < tmin) {
    scr.push_back({ 5, tmin - 1 });
    scr.push_back({ 5, umin });
    scr.push_back({ 5, -1 });
  }
  for (auto& script : scr) {
    *draw = (GT)0x55;
    src.arm(script);
    const char* r = guarded([&] { dst.ref() = src.ref(); });
    lw::disarm();
    tr::Ev e("fetch");
    e.str("kind", "conv").str("what", "store-volatile").str("nty", NName<U>::v).str("dty", NName<T>::v);
    e.num("bits", std::is_same_v<T, bool> ? 1 : 8 * (long)sizeof(GT)).boolean("signed", std::is_signed_v<GT>);
    put_script(e, script);
    e.str("out", r).wide("got", (W)*draw).num("reads", lw::g.reads);
    out.put(e);
  }
}

static void c06_tests()
{
  conv_store_case<short, int>();
  conv_store_case<unsigned char, int>();
  conv_store_case<int, i64>();
  conv_store_case<unsigned, int>();
  conv_store_case<int, unsigned>();
  conv_store_case<unsigned short, u64>();
  conv_store_case<bool, int>();
  conv_case<int>();
  conv_case<unsigned>();
  conv_case<long>();
  conv_case<unsigned long>();
  conv_case<short>();
  conv_case<i64>();
  conv_case<unsigned char>();
}

int main(int argc, char** argv)
{
  if (argc < 4) {
    return 2;
  }
  std::string mode = argv[1];
  if (!out.open(argv[2])) {
    return 2;
  }
  std::set_terminate(on_terminate);
  RS sandbox;
  sandbox.create_sandbox();
  sb = &sandbox;
  BASE = sandbox.get_sandbox_impl()->base;
  if (mode == "c17") {
    c17_tests();
  } else if (mode == "c05") {
    c05_tests();
  } else if (mode == "c09") {
    c09_tests();
  } else if (mode == "c06") {
    c06_tests();
  } else if (mode == "c03") {
    c03_tests();
  } else if (mode == "c10") {
    c10_tests();
    c10_ptr_tests();
  } else {
    return 2;
  }
  sandbox.destroy_sandbox();
  out.close();
  return 0;
}
