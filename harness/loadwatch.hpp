// Adversarial sandbox memory for single-threaded drivers (x86-64 Linux).
//
// The sandbox may rewrite its own memory between any two reads the application makes.  A watch
// puts that adversary at the most effective place without any hook in the code under test: the
// page(s) holding the watched cell are made inaccessible; every access faults, the handler opens
// the page, single-steps the one faulting instruction (trap flag) and closes the page again.
// After each completed READ that (may) cover the cell the next value of the script is written
// into it, so the k-th read of the cell observes script[k-1]: whoever fetches the cell twice
// sees two different values.  The number of reads is reported as well.
//
// Soundness of what is concluded from it does not depend on where exactly the rewrites land:
// the cell only ever holds values of the script, and the Contracts (spec/Fetch.tla) accept any
// outcome that is explained by ONE of those values.
#pragma once
#include <csignal>
#include <cstdint>
#include <cstdio>
#include <cstring>
#include <sys/mman.h>
#include <ucontext.h>
#include <unistd.h>
#include <vector>

namespace lw {

struct State
{
  bool armed = false;
  uint8_t* page = nullptr;
  size_t pagelen = 0;
  uint8_t* cell = nullptr;
  size_t celllen = 0;
  uint8_t script[16][16];
  int nscript = 0;
  int reads = 0;       // completed reads covering the cell
  int accesses = 0;    // all trapped accesses to the page
  bool pending_read = false;
  bool stepping = false;
  struct sigaction old_segv, old_trap;
  bool installed = false;
};
static State g;

static void on_trap(int, siginfo_t*, void* ucv)
{
  ucontext_t* uc = static_cast<ucontext_t*>(ucv);
  if (!g.stepping) {
    return;
  }
  g.stepping = false;
  uc->uc_mcontext.gregs[REG_EFL] &= ~0x100LL;
  if (g.pending_read) {
    g.pending_read = false;
    g.reads++;
    int k = g.reads < g.nscript ? g.reads : g.nscript - 1;
    std::memcpy(g.cell, g.script[k], g.celllen);
  }
  if (g.armed) {
    mprotect(g.page, g.pagelen, PROT_NONE);
  }
}

static void on_segv(int sig, siginfo_t* si, void* ucv)
{
  ucontext_t* uc = static_cast<ucontext_t*>(ucv);
  uint8_t* a = static_cast<uint8_t*>(si->si_addr);
  if (!g.armed || a < g.page || a >= g.page + g.pagelen) {
    // not ours: hand over to whoever was installed before (crash reporters, guard-page catchers)
    struct sigaction& o = g.old_segv;
    if (o.sa_flags & SA_SIGINFO) {
      if (o.sa_sigaction != nullptr) {
        o.sa_sigaction(sig, si, ucv);
        return;
      }
    } else if (o.sa_handler != SIG_DFL && o.sa_handler != SIG_IGN) {
      o.sa_handler(sig);
      return;
    }
    signal(sig, SIG_DFL);
    return;
  }
  g.accesses++;
  bool is_write = (uc->uc_mcontext.gregs[REG_ERR] & 2) != 0;
  // a read that starts at or up to 63 bytes before the cell may cover it (vector / string moves)
  g.pending_read = !is_write && a < g.cell + g.celllen && a + 64 > g.cell;
  mprotect(g.page, g.pagelen, PROT_READ | PROT_WRITE);
  g.stepping = true;
  uc->uc_mcontext.gregs[REG_EFL] |= 0x100LL;
}

static void install()
{
  if (g.installed) {
    return;
  }
  struct sigaction sa;
  std::memset(&sa, 0, sizeof sa);
  sa.sa_flags = SA_SIGINFO | SA_NODEFER;
  sigemptyset(&sa.sa_mask);
  sa.sa_sigaction = on_segv;
  sigaction(SIGSEGV, &sa, &g.old_segv);
  sa.sa_sigaction = on_trap;
  sigaction(SIGTRAP, &sa, &g.old_trap);
  g.installed = true;
}

// cell: the watched object (celllen <= 16 bytes) inside sandbox memory; values: the script, each
// celllen bytes; the cell is initialised with values[0]
static void arm(void* cell, size_t celllen, const std::vector<std::vector<uint8_t>>& values)
{
  install();
  long ps = sysconf(_SC_PAGESIZE);
  uintptr_t lo = reinterpret_cast<uintptr_t>(cell) & ~(uintptr_t)(ps - 1);
  uintptr_t hi = (reinterpret_cast<uintptr_t>(cell) + celllen + ps - 1) & ~(uintptr_t)(ps - 1);
  g.page = reinterpret_cast<uint8_t*>(lo);
  g.pagelen = hi - lo;
  g.cell = static_cast<uint8_t*>(cell);
  g.celllen = celllen;
  g.nscript = 0;
  for (auto& v : values) {
    if (g.nscript < 16) {
      std::memcpy(g.script[g.nscript++], v.data(), celllen);
    }
  }
  std::memcpy(g.cell, g.script[0], celllen);
  g.reads = g.accesses = 0;
  g.pending_read = g.stepping = false;
  g.armed = true;
  mprotect(g.page, g.pagelen, PROT_NONE);
}

static void disarm()
{
  if (g.armed) {
    g.armed = false;
    mprotect(g.page, g.pagelen, PROT_READ | PROT_WRITE);
  }
}

template<typename T>
static std::vector<uint8_t> bytes(T v)
{
  std::vector<uint8_t> b(sizeof(T));
  std::memcpy(b.data(), &v, sizeof(T));
  return b;
}

}
