// C09 conformance driver: replays adversary schedules (emitted by TLC from spec/Copy.tla) on
// the real copy_and_verify family through the RLBOX_VERIF_YIELD hook: at each yield point the
// installed hook performs exactly the scripted writes to the source cells in sandbox memory.
// Records the object the verifier received (address class, content, content again after the
// post-call writes and after overwriting the whole source region).
//
// usage: c09_driver <schedules.ndjson-ish> <out>
//   schedule line: <variant> <n> <m1> .. <mn> <nwrites> { <pt> <idx> <cell> <val> }*
#define RLBOX_USE_EXCEPTIONS
#include "rlbox.hpp"
#include "vm_sandbox.hpp"
#include "trace.hpp"

#include <setjmp.h>
#include <signal.h>

#include <cstring>
#include <fstream>
#include <memory>
#include <sstream>
#include <string>
#include <vector>

using namespace rlbox;
using Sbx = rlbox_vm_sandbox<vm_abi_wasm32, 12>;
using RS = rlbox_sandbox<Sbx>;

struct S3
{
  int a;
  int b;
  int c;
};
struct S4
{
  int a;
  int b;
  int c;
  int d;
};
#define sandbox_fields_reflection_cp_class_S3(f, g, ...)                                                               \
  f(int, a, FIELD_NORMAL, ##__VA_ARGS__) g() f(int, b, FIELD_NORMAL, ##__VA_ARGS__) g()                                \
    f(int, c, FIELD_NORMAL, ##__VA_ARGS__) g()
#define sandbox_fields_reflection_cp_class_S4(f, g, ...)                                                               \
  f(int, a, FIELD_NORMAL, ##__VA_ARGS__) g() f(int, b, FIELD_NORMAL, ##__VA_ARGS__) g()                                \
    f(int, c, FIELD_NORMAL, ##__VA_ARGS__) g() f(int, d, FIELD_NORMAL, ##__VA_ARGS__) g()
#define sandbox_fields_reflection_cp_allClasses(f, ...) f(S3, cp, ##__VA_ARGS__) f(S4, cp, ##__VA_ARGS__)
rlbox_load_structs_from_library(cp);

static tr::Out out;
static RS* sb;
static uintptr_t BASE;
static unsigned char* MEM;
static const long SRC = 512; // source cells start here

struct Wr
{
  std::string pt;
  long idx;
  int cell;
  int val;
  bool done = false;
};
static std::vector<Wr> g_writes;
static int g_elsize = 1;
static long g_checked = -1;
static std::string g_performed; // json list of writes in the order performed

static void do_write(Wr& w)
{
  // cell k (1-based) of the source, element size g_elsize (little endian, small values)
  unsigned char* p = MEM + SRC + (w.cell - 1) * g_elsize;
  std::memset(p, 0, g_elsize);
  p[0] = (unsigned char)w.val;
  w.done = true;
  g_performed += std::string(g_performed.empty() ? "" : ",") + "{\"pt\":\"" + w.pt + "\",\"idx\":" + std::to_string(w.idx) +
                 ",\"cell\":" + std::to_string(w.cell) + ",\"val\":" + std::to_string(w.val) + "}";
}

static bool ends_with(const std::string& s, const std::string& suf)
{
  return s.size() >= suf.size() && s.compare(s.size() - suf.size(), suf.size(), suf) == 0;
}

static void hook(const char* point, size_t index)
{
  std::string p = point;
  if (p == "string:after-strlen") {
    g_checked = (long)index;
  }
  for (auto& w : g_writes) {
    if (w.done) {
      continue;
    }
    bool match = false;
    if (w.pt == "before-verifier") {
      match = ends_with(p, "before-verifier") || p == "deny:after-copy";
    } else if (w.pt == "range:elem") {
      // the Model's yield after the last element coincides with the before-verifier point
      match = (p == "range:elem" && (long)index == w.idx) || ends_with(p, "before-verifier");
    } else if (w.pt == "after") {
      match = false;
    } else {
      match = p == w.pt;
    }
    if (match) {
      do_write(w);
    }
  }
}

static bool in_app(const void* p)
{
  uintptr_t a = reinterpret_cast<uintptr_t>(p);
  return !(a >= BASE && a < BASE + 4096);
}

// called from inside the verifier: record content, do the "after" writes, overwrite the whole
// source region, record again
template<typename El>
static void observe(tr::Ev& e, const El* obj, size_t n, const void* addr)
{
  e.boolean("in_app", in_app(addr));
  std::vector<long> before(obj, obj + n);
  for (auto& w : g_writes) {
    if (!w.done && w.pt == "after") {
      do_write(w);
    }
  }
  std::memset(MEM + SRC - 64, 0x7F, 64 + 64 * g_elsize);
  std::vector<long> after(obj, obj + n);
  e.nums("seen", before.begin(), before.end()).nums("seen_after", after.begin(), after.end());
}

// ---- the source POINTER itself lives in sandbox memory (receiver is a tainted_volatile<T*>):
// the adversary redirects it to another in-sandbox string while RLBox runs its range check.
// A snapshot is acceptable if it comes from the string whose address was read before that
// (src), or from the new one (alt) provided the new address was range-checked as well.
static long ALT = SRC + 1024; // (second placement: the last two bytes of the region)
static sigjmp_buf g_pc_jmp;
static void pc_segv(int)
{
  siglongjmp(g_pc_jmp, 1);
}
static unsigned char* g_pcell = nullptr;
static bool g_pcell_written = false;
static std::string g_checks_after;
static void pcell_hook(const void* p1, const void*)
{
  uintptr_t a = reinterpret_cast<uintptr_t>(p1);
  const char* region = (a >= BASE + SRC && a < BASE + SRC + 64)   ? "src"
                       : (a >= BASE + ALT && a < BASE + ALT + 64) ? "alt"
                                                                    : "other";
  if (g_pcell_written) {
    g_checks_after += std::string(g_checks_after.empty() ? "" : ",") + "\"" + region + "\"";
  } else if (std::strcmp(region, "src") == 0) {
    uint32_t rep = (uint32_t)ALT;
    std::memcpy(g_pcell, &rep, 4);
    g_pcell_written = true;
  }
}
static void pcell_tests()
{
  auto pp = sb->malloc_in_sandbox<char*>();
  g_pcell = reinterpret_cast<unsigned char*>(pp.UNSAFE_unverified());
  signal(SIGSEGV, pc_segv);
  signal(SIGBUS, pc_segv);
  for (int placement = 0; placement < 2; placement++)
  for (const char* real : { "string/std::string", "string/unique_ptr", "buffer_address", "range/char" }) {
    std::memcpy(MEM + SRC, "\1\2\1\0", 4);
    if (placement == 0) {
      ALT = SRC + 1024;
      std::memcpy(MEM + ALT, "\3\3\3\3\3\0", 6);
    } else {
      // the other string sits in the last two bytes of the region: whoever copies the length
      // measured on the first string from there leaves the sandbox (guard page)
      ALT = 4096 - 2;
      std::memcpy(MEM + ALT, "\3\0", 2);
    }
    *pp = sb->UNSAFE_accept_pointer(reinterpret_cast<char*>(BASE + SRC));
    g_pcell_written = false;
    g_checks_after.clear();
    Sbx::same_sandbox_hook = pcell_hook;
    std::string region = "none";
    auto classify = [&](const char* s) { region = s[0] == 1 ? "src" : s[0] == 3 ? "alt" : "other"; };
    const char* outc = "ok";
    if (sigsetjmp(g_pc_jmp, 1) != 0) {
      outc = "fault"; // a read beyond the sandbox ended in the guard page
    } else
    try {
      std::string r = real;
      if (r == "string/std::string") {
        (*pp).copy_and_verify_string([&](std::string s) {
          classify(s.c_str());
          return 0;
        });
      } else if (r == "string/unique_ptr") {
        (*pp).copy_and_verify_string([&](std::unique_ptr<char[]> s) {
          classify(s.get());
          return 0;
        });
      } else if (r == "buffer_address") {
        uintptr_t a = (*pp).copy_and_verify_buffer_address([](uintptr_t v) { return v; }, 4);
        region = a == BASE + SRC ? "src" : a == BASE + ALT ? "alt" : "other";
      } else {
        (*pp).copy_and_verify_range(
          [&](std::unique_ptr<char[]> s) {
            classify(s.get());
            return 0;
          },
          3);
      }
    } catch (const std::runtime_error&) {
      outc = "abort";
    }
    Sbx::same_sandbox_hook = nullptr;
    tr::Ev e("pcopy");
    e.str("real", real).str("out", outc).str("region", region).boolean("redirected", g_pcell_written);
    e.str("alt", placement == 0 ? "interior" : "last-bytes");
    e.raw("checks_after", "[" + g_checks_after + "]");
    out.put(e);
  }
}

int main(int argc, char** argv)
{
  if (argc < 3) {
    return 2;
  }
  std::ifstream in(argv[1]);
  if (!in || !out.open(argv[2])) {
    return 2;
  }
  RS sandbox;
  sandbox.create_sandbox();
  sb = &sandbox;
  BASE = sandbox.get_sandbox_impl()->base;
  MEM = sandbox.get_sandbox_impl()->mem();
  detail::verif_yield_hook = hook;
  std::string line;
  while (std::getline(in, line)) {
    std::istringstream is(line);
    std::string variant;
    int n;
    is >> variant >> n;
    if (variant.empty()) {
      continue;
    }
    std::vector<int> mem0(n);
    for (auto& m : mem0) {
      is >> m;
    }
    int nw;
    is >> nw;
    g_writes.clear();
    for (int k = 0; k < nw; k++) {
      Wr w;
      is >> w.pt >> w.idx >> w.cell >> w.val;
      g_writes.push_back(w);
    }
    g_performed.clear();
    g_checked = -1;
    // real variants for each Model variant
    std::vector<std::string> reals;
    if (variant == "string_up") {
      reals = { "string/unique_ptr" };
    } else if (variant == "string_std") {
      reals = { "string/std::string" };
    } else if (variant == "range") {
      reals = { "range/short", "range/long" };
    } else {
#ifdef VM_GRANT_DENY
      // backend with the grant / deny interface that REFUSES the request: the result must still be
      // an application-memory snapshot
      reals = { "deny_access(refused)/char" };
#else
      reals = { "array/int", "struct", "deny_access/char" };
      reals.push_back("array2d/int"); // the same cells as int[1][3] / int[2][2]
#endif
    }
    for (auto& real : reals) {
      for (auto& w : g_writes) {
        w.done = false;
      }
      g_performed.clear();
      g_checked = -1;
      g_elsize = real == "range/short" ? 2 : (real == "range/long" || real == "array/int" || real == "array2d/int" || real == "struct") ? 4 : 1;
      std::memset(MEM + SRC - 64, 0x7F, 64 + 64 * g_elsize);
      for (int k = 0; k < n; k++) {
        unsigned char* p = MEM + SRC + k * g_elsize;
        std::memset(p, 0, g_elsize);
        p[0] = (unsigned char)mem0[k];
      }
      tr::Ev e("copy");
      e.str("variant", variant).str("real", real).nums("mem0", mem0.begin(), mem0.end());
      bool is_string = variant == "string_up" || variant == "string_std";
      e.boolean("string", is_string);
      const char* outc = "ok";
      try {
        if (real == "string/unique_ptr") {
          auto p = sb->UNSAFE_accept_pointer(reinterpret_cast<char*>(BASE + SRC));
          p.copy_and_verify_string([&](std::unique_ptr<char[]> s) {
            // the buffer has g_checked bytes: read all of them
            observe(e, s.get(), (size_t)(g_checked > 0 ? g_checked : 1), s.get());
            return 0;
          });
        } else if (real == "string/std::string") {
          auto p = sb->UNSAFE_accept_pointer(reinterpret_cast<char*>(BASE + SRC));
          p.copy_and_verify_string([&](std::string s) {
            // characters plus the terminator std::string guarantees at data()[size()]
            observe(e, s.c_str(), s.size() + 1, s.data());
            return 0;
          });
        } else if (real == "range/short") {
          auto p = sb->UNSAFE_accept_pointer(reinterpret_cast<short*>(BASE + SRC));
          p.copy_and_verify_range(
            [&](std::unique_ptr<short[]> v) {
              observe(e, v.get(), n, v.get());
              return 0;
            },
            n);
        } else if (real == "range/long") {
          auto p = sb->UNSAFE_accept_pointer(reinterpret_cast<long*>(BASE + SRC));
          p.copy_and_verify_range(
            [&](std::unique_ptr<long[]> v) {
              observe(e, v.get(), n, v.get());
              return 0;
            },
            n);
        } else if (real == "array/int") {
          if (n == 3) {
            auto p = sb->UNSAFE_accept_pointer(reinterpret_cast<int(*)[3]>(BASE + SRC));
            (*p).copy_and_verify([&](std::array<int, 3> a) {
              observe(e, a.data(), 3, a.data());
              return 0;
            });
          } else {
            auto p = sb->UNSAFE_accept_pointer(reinterpret_cast<int(*)[4]>(BASE + SRC));
            (*p).copy_and_verify([&](std::array<int, 4> a) {
              observe(e, a.data(), 4, a.data());
              return 0;
            });
          }
        } else if (real == "array2d/int") {
          if (n == 3) {
            auto p = sb->UNSAFE_accept_pointer(reinterpret_cast<int(*)[1][3]>(BASE + SRC));
            (*p).copy_and_verify([&](auto a) {
              observe(e, &a[0][0], 3, &a[0][0]);
              return 0;
            });
          } else {
            auto p = sb->UNSAFE_accept_pointer(reinterpret_cast<int(*)[2][2]>(BASE + SRC));
            (*p).copy_and_verify([&](auto a) {
              observe(e, &a[0][0], 4, &a[0][0]);
              return 0;
            });
          }
        } else if (real == "struct") {
          if (n == 3) {
            auto p = sb->UNSAFE_accept_pointer(reinterpret_cast<S3*>(BASE + SRC));
            p.copy_and_verify([&](std::unique_ptr<tainted<S3, Sbx>> s) {
              int vals[3] = { s->a.UNSAFE_unverified(), s->b.UNSAFE_unverified(), s->c.UNSAFE_unverified() };
              e.boolean("in_app", in_app(s.get()));
              for (auto& w : g_writes) {
                if (!w.done && w.pt == "after") {
                  do_write(w);
                }
              }
              std::memset(MEM + SRC - 64, 0x7F, 64 + 64 * g_elsize);
              int vals2[3] = { s->a.UNSAFE_unverified(), s->b.UNSAFE_unverified(), s->c.UNSAFE_unverified() };
              e.nums("seen", vals, vals + 3).nums("seen_after", vals2, vals2 + 3);
              return 0;
            });
          } else {
            auto p = sb->UNSAFE_accept_pointer(reinterpret_cast<S4*>(BASE + SRC));
            p.copy_and_verify([&](std::unique_ptr<tainted<S4, Sbx>> s) {
              int vals[4] = { s->a.UNSAFE_unverified(), s->b.UNSAFE_unverified(), s->c.UNSAFE_unverified(),
                              s->d.UNSAFE_unverified() };
              e.boolean("in_app", in_app(s.get()));
              for (auto& w : g_writes) {
                if (!w.done && w.pt == "after") {
                  do_write(w);
                }
              }
              std::memset(MEM + SRC - 64, 0x7F, 64 + 64 * g_elsize);
              int vals2[4] = { s->a.UNSAFE_unverified(), s->b.UNSAFE_unverified(), s->c.UNSAFE_unverified(),
                               s->d.UNSAFE_unverified() };
              e.nums("seen", vals, vals + 4).nums("seen_after", vals2, vals2 + 4);
              return 0;
            });
          }
        } else {
          // copy_memory_or_deny_access: the "verifier" is the caller receiving the buffer
          auto p = sb->UNSAFE_accept_pointer(reinterpret_cast<char*>(BASE + SRC));
          bool copied = false;
          char* got = copy_memory_or_deny_access(*sb, p, (size_t)n, false, copied);
          if (got) {
            observe(e, got, n, got);
            if (in_app(got)) {
              std::free(got); // (a buffer that is not in application memory is not ours to free)
            }
          } else {
            outc = "null";
          }
        }
      } catch (const std::runtime_error&) {
        outc = "abort";
      }
      e.str("out", outc).num("checked", is_string ? g_checked : n).raw("writes", "[" + g_performed + "]");
      int skipped = 0;
      for (auto& w : g_writes) {
        skipped += w.done ? 0 : 1;
      }
      e.num("unperformed", skipped);
      out.put(e);
    }
  }
#ifndef VM_GRANT_DENY
  pcell_tests();
#endif
  sandbox.destroy_sandbox();
  out.close();
  return 0;
}
