// C11 conformance driver: invokes a family of sandbox function signatures with boundary
// argument values in several wrapper forms on a foreign-ABI sandbox and records what the
// sandboxed function observed (values in the guest ABI, call count) and what came back.
// Flag-abort build: a failed dynamic_check is observed as a flag; when it is set the guest
// function may still run (with garbage) - the recorded count tells whether it did.
//
// usage: sig_driver <out> <seed>
#include <cstdint>
static thread_local bool g_abort_flag = false;
#define RLBOX_CUSTOM_ABORT(msg) (g_abort_flag = true)
#include "rlbox.hpp"
#include "vm_sandbox.hpp"
#include "trace.hpp"

#include <cstring>
#include <limits>
#include <random>
#include <string>
#include <tuple>
#include <vector>

using namespace rlbox;
using W = __int128;
#if defined(ABI_LP16)
using Abi = vm_abi_lp16;
#elif defined(ABI_LP64U)
using Abi = vm_abi_lp64u;
#else
using Abi = vm_abi_wasm32;
#endif
using Sbx = rlbox_vm_sandbox<Abi, 12>;
using RS = rlbox_sandbox<Sbx>;

static tr::Out out;
static RS* sb;
static uintptr_t BASE;

// ---- the harness' own statement of the guest type of each application type under the ABI in use ----
template<typename T, typename = void>
struct GInfo
{
  static constexpr int bits = sizeof(T) * 8;
  static constexpr bool sgn = std::is_signed_v<T>;
  static constexpr char cls = 'i';
};
template<>
struct GInfo<long>
{
  static constexpr int bits = 8 * sizeof(Abi::T_LongType);
  static constexpr bool sgn = true;
  static constexpr char cls = 'i';
};
template<>
struct GInfo<unsigned long>
{
  static constexpr int bits = 8 * sizeof(Abi::T_LongType);
  static constexpr bool sgn = false;
  static constexpr char cls = 'i';
};
template<>
struct GInfo<int>
{
  static constexpr int bits = 8 * sizeof(Abi::T_IntType);
  static constexpr bool sgn = true;
  static constexpr char cls = 'i';
};
template<>
struct GInfo<unsigned>
{
  static constexpr int bits = 8 * sizeof(Abi::T_IntType);
  static constexpr bool sgn = false;
  static constexpr char cls = 'i';
};
// char32_t is an unsigned type of int's rank: the ABI mapping treats it like unsigned int
template<>
struct GInfo<char32_t>
{
  static constexpr int bits = 8 * sizeof(Abi::T_IntType);
  static constexpr bool sgn = false;
  static constexpr char cls = 'i';
};
template<>
struct GInfo<bool>
{
  static constexpr int bits = 1;
  static constexpr bool sgn = false;
  static constexpr char cls = 'i';
};
template<>
struct GInfo<float>
{
  static constexpr int bits = 32;
  static constexpr bool sgn = false;
  static constexpr char cls = 'f';
};
template<>
struct GInfo<double>
{
  static constexpr int bits = 64;
  static constexpr bool sgn = false;
  static constexpr char cls = 'f';
};
template<typename T>
struct GInfo<T*, std::enable_if_t<!std::is_function_v<T>>>
{
  static constexpr int bits = 8 * sizeof(Abi::T_PointerType);
  static constexpr bool sgn = false;
  static constexpr char cls = 'p';
};
template<typename T>
struct GInfo<T*, std::enable_if_t<std::is_function_v<T>>>
{
  static constexpr int bits = 8 * sizeof(Abi::T_PointerType);
  static constexpr bool sgn = false;
  static constexpr char cls = 'c'; // callback / function pointer
};

// ---- guest side ----
struct Seen
{
  int count = 0;
  std::vector<W> vals;
  std::vector<int> gbits;
};
static Seen g_seen;
static W g_ret_value = 0;
static W g_cb_entry = 0;

template<typename G>
static W guest_val(G g)
{
  if constexpr (std::is_same_v<G, float>) {
    uint32_t b;
    std::memcpy(&b, &g, 4);
    return b;
  } else if constexpr (std::is_same_v<G, double>) {
    uint64_t b;
    std::memcpy(&b, &g, 8);
    return b;
  } else {
    return (W)g;
  }
}
template<typename G>
static G guest_from(W v)
{
  if constexpr (std::is_same_v<G, float>) {
    uint32_t b = (uint32_t)v;
    float f;
    std::memcpy(&f, &b, 4);
    return f;
  } else if constexpr (std::is_same_v<G, double>) {
    uint64_t b = (uint64_t)v;
    double f;
    std::memcpy(&f, &b, 8);
    return f;
  } else {
    return (G)v;
  }
}
template<typename GR, typename... GA>
static GR g_generic(GA... a)
{
  g_seen.count++;
  (g_seen.vals.push_back(guest_val(a)), ...);
  (g_seen.gbits.push_back(std::is_same_v<GA, bool> ? 1 : (int)sizeof(GA) * 8), ...);
  if constexpr (!std::is_void_v<GR>) {
    return guest_from<GR>(g_ret_value);
  }
}

// a callback so that function-pointer parameters have something to pass
static tainted<int, Sbx> app_cb(RS&, tainted<int, Sbx> x)
{
  return x;
}

// ---- application side ----
template<typename T>
static std::vector<W> candidates()
{
  std::vector<W> v;
  if constexpr (std::is_pointer_v<T>) {
    if constexpr (std::is_function_v<std::remove_pointer_t<T>>) {
      v = { g_cb_entry }; // entry point of the registered callback
    } else {
      v = { -1, 8, 2048, 4095 }; // -1 = null, else region offsets
    }
  } else if constexpr (std::is_floating_point_v<T>) {
    T vals[] = { (T)0, (T)1.5, (T)-2.25, std::numeric_limits<T>::max(), std::numeric_limits<T>::min(),
                 std::numeric_limits<T>::infinity() };
    for (T x : vals) {
      v.push_back(guest_val(x));
    }
  } else {
    W lo = (W)std::numeric_limits<T>::min(), hi = (W)std::numeric_limits<T>::max();
    int gb = GInfo<T>::bits;
    W glo = GInfo<T>::sgn ? -((W)1 << (gb - 1)) : 0;
    W ghi = GInfo<T>::sgn ? ((W)1 << (gb - 1)) - 1 : ((W)1 << gb) - 1;
    for (W c : { (W)0, (W)1, (W)-1, (W)2, lo, hi, lo + 1, hi - 1, glo, ghi, glo - 1, ghi + 1, glo + 1, ghi - 1 }) {
      if (c >= lo && c <= hi) {
        v.push_back(c);
      }
    }
  }
  return v;
}

// materialise abstract value v as application value of type T
template<typename T>
static T app_val(W v)
{
  if constexpr (std::is_pointer_v<T>) {
    return v < 0 ? nullptr : reinterpret_cast<T>(BASE + (uintptr_t)v);
  } else {
    return guest_from<T>(v);
  }
}

static sandbox_callback<int (*)(int), Sbx>* g_cb_owner;
static W g_guest_fn_index = 0; // function-pointer representation of the guest function "guest_fn_int_int"
static typename Abi::T_IntType guest_fn_int_int(typename Abi::T_IntType x) { return x; }

// wrapper forms: 0 plain (tainted for pointers), 1 tainted, 2 tainted_opaque
template<typename R, typename... A, size_t... I>
static void one_call(const char* name, int form, const std::vector<W>& vals_in, W retv, std::index_sequence<I...>)
{
  // function-pointer parameters: form 0 passes the registered callback (its entry point must
  // arrive), forms 1 / 2 pass the tainted / opaque ADDRESS OF A SANDBOX FUNCTION (its
  // function-pointer representation - the table index on this backend - must arrive)
  std::vector<W> vals = vals_in;
  {
    constexpr bool fnflags[] = { (std::is_pointer_v<A> && std::is_function_v<std::remove_pointer_t<A>>)..., false };
    for (size_t k = 0; k < sizeof...(A); k++) {
      if (fnflags[k] && form >= 1) {
        vals[k] = g_guest_fn_index;
      }
    }
  }
  g_seen = Seen{};
  g_ret_value = retv;
  g_abort_flag = false;
  W ret_app = 0;
  auto invoke = [&](auto&&... args) {
    if constexpr (std::is_void_v<R>) {
      sb->template INTERNAL_invoke_with_func_name<R(A...)>(name, args...);
    } else {
      auto r = sb->template INTERNAL_invoke_with_func_name<R(A...)>(name, args...);
      if constexpr (std::is_pointer_v<R>) {
        auto raw = r.UNSAFE_unverified();
        ret_app = raw == nullptr ? -1 : (W)reinterpret_cast<uintptr_t>(raw) - (W)BASE;
      } else {
        ret_app = guest_val(r.UNSAFE_unverified());
      }
    }
  };
  // plain / tainted / opaque are different static types, so dispatch on form at compile time
  auto call_form = [&](auto formc) {
    constexpr int F = decltype(formc)::value;
    auto mk = [&](auto tag, size_t i) -> decltype(auto) {
      using T = typename decltype(tag)::type;
      constexpr bool is_fn = std::is_pointer_v<T> && std::is_function_v<std::remove_pointer_t<T>>;
      if constexpr (is_fn && F == 0) {
        return (*g_cb_owner); // sandbox_callback is move-only: passed as an lvalue
      } else if constexpr (is_fn) {
        auto tf = sb->template INTERNAL_get_sandbox_function_name<std::remove_pointer_t<T>>("guest_fn_int_int");
        if constexpr (F == 2) {
          return tf.to_opaque();
        } else {
          return tf;
        }
      } else if constexpr (std::is_pointer_v<T>) {
        tainted<T, Sbx> t = vals[i] < 0 ? tainted<T, Sbx>(nullptr) : sb->UNSAFE_accept_pointer(app_val<T>(vals[i]));
        if constexpr (F == 2) {
          return t.to_opaque();
        } else {
          return t;
        }
      } else {
        if constexpr (F == 0) {
          return app_val<T>(vals[i]);
        } else if constexpr (F == 1) {
          return tainted<T, Sbx>(app_val<T>(vals[i]));
        } else {
          tainted<T, Sbx> t(app_val<T>(vals[i]));
          return t.to_opaque();
        }
      }
    };
    invoke(mk(std::common_type<A>{}, I)...);
  };
  switch (form) {
    case 0:
      call_form(std::integral_constant<int, 0>{});
      break;
    case 1:
      call_form(std::integral_constant<int, 1>{});
      break;
    default:
      call_form(std::integral_constant<int, 2>{});
      break;
  }
  tr::Ev e("call");
  e.str("sig", name).num("form", form).str("out", g_abort_flag ? "abort" : "ok").num("count", g_seen.count);
  std::string args = "[";
  size_t i = 0;
  auto add = [&](auto tag) {
    using T = typename decltype(tag)::type;
    tr::Ev a("x");
    a.s = "{";
    a.first = true;
    a.str("cls", std::string(1, GInfo<T>::cls)).num("gbits", GInfo<T>::bits).boolean("gs", GInfo<T>::sgn).wide("v", vals[i]);
    if (i < g_seen.vals.size()) {
      a.wide("seen", g_seen.vals[i]).num("sbits", g_seen.gbits[i]);
    }
    args += std::string(i ? "," : "") + a.s + "}";
    i++;
  };
  (add(std::common_type<A>{}), ...);
  e.raw("args", args + "]");
  if constexpr (!std::is_void_v<R>) {
    e.raw("ret", std::string("{\"cls\":\"") + GInfo<R>::cls + "\",\"gbits\":" + std::to_string(GInfo<R>::bits) + "}");
    e.wide("ret_guest", retv).wide("ret_app", ret_app);
  } else {
    e.raw("ret", "{\"cls\":\"v\",\"gbits\":0}").wide("ret_guest", 0).wide("ret_app", 0);
  }
  out.put(e);
}

static std::vector<vm_export> g_exports;

// ---------------------------------------------------------------- callbacks with the same signatures (C12)
// The guest calls the entry point it was given with guest-ABI values of every parameter kind;
// the application callback records what it received and returns a scripted value.
static std::vector<W> g_cbk_seen;
static int g_cbk_count = 0;
static W g_cbk_ret_host = 0;
static std::vector<W> g_cbk_args_guest;
static W g_cbk_ret_guest = 0;
static bool g_cbk_trap = false;
static uint32_t g_cbk_entry = 0;

template<typename T>
static W host_val(T v)
{
  if constexpr (std::is_pointer_v<T>) {
    return v == nullptr ? -1 : (W)reinterpret_cast<uintptr_t>(v) - (W)BASE;
  } else {
    return guest_val(v);
  }
}
template<typename R, typename... A>
static std::conditional_t<std::is_void_v<R>, void, tainted<R, Sbx>> cbk(RS&, tainted<A, Sbx>... a)
{
  g_cbk_count++;
  (g_cbk_seen.push_back(host_val(a.UNSAFE_unverified())), ...);
  if constexpr (std::is_void_v<R>) {
    return;
  } else if constexpr (std::is_pointer_v<R>) {
    if (g_cbk_ret_host < 0) {
      return tainted<R, Sbx>(nullptr);
    }
    return sb->UNSAFE_accept_pointer(app_val<R>(g_cbk_ret_host));
  } else {
    return tainted<R, Sbx>(app_val<R>(g_cbk_ret_host));
  }
}
// the same callback DECLARED with the opaque wrapper forms (register_callback accepts both)
template<typename R, typename... A>
static std::conditional_t<std::is_void_v<R>, void, tainted_opaque<R, Sbx>> cbk_opaque(RS&, tainted_opaque<A, Sbx>... a)
{
  g_cbk_count++;
  (g_cbk_seen.push_back(host_val(from_opaque(a).UNSAFE_unverified())), ...);
  if constexpr (std::is_void_v<R>) {
    return;
  } else if constexpr (std::is_pointer_v<R>) {
    if (g_cbk_ret_host < 0) {
      return tainted<R, Sbx>(nullptr).to_opaque();
    }
    return sb->UNSAFE_accept_pointer(app_val<R>(g_cbk_ret_host)).to_opaque();
  } else {
    return tainted<R, Sbx>(app_val<R>(g_cbk_ret_host)).to_opaque();
  }
}
template<typename GR, typename... GA, size_t... I>
static void g_call_cbk_impl(std::index_sequence<I...>)
{
  if constexpr (std::is_void_v<GR>) {
    g_cbk_trap = !Sbx::template call_indirect<void, GA...>(g_cbk_entry, (void*)nullptr, guest_from<GA>(g_cbk_args_guest[I])...);
  } else {
    GR r{};
    g_cbk_trap = !Sbx::template call_indirect<GR, GA...>(g_cbk_entry, &r, guest_from<GA>(g_cbk_args_guest[I])...);
    g_cbk_ret_guest = guest_val(r);
  }
}
template<typename GR, typename... GA>
static void g_call_cbk()
{
  g_call_cbk_impl<GR, GA...>(std::index_sequence_for<GA...>{});
}
template<typename T>
constexpr bool is_fnp = std::is_pointer_v<T> && std::is_function_v<std::remove_pointer_t<T>>;

// values a guest can pass for a parameter of application type T
template<typename T>
static std::vector<W> guest_candidates()
{
  std::vector<W> v;
  if constexpr (std::is_pointer_v<T>) {
    v = { 0, 8, 2048, 4095 }; // guest representations: 0 = null, else region offsets
  } else if constexpr (std::is_floating_point_v<T>) {
    v = candidates<T>();
  } else {
    int gb = GInfo<T>::bits;
    W glo = GInfo<T>::sgn ? -((W)1 << (gb - 1)) : 0;
    W ghi = GInfo<T>::sgn ? ((W)1 << (gb - 1)) - 1 : ((W)1 << gb) - 1;
    for (W c : { (W)0, (W)1, (W)-1, (W)2, glo, ghi, glo + 1, ghi - 1, (W)0x5A }) {
      if (c >= glo && c <= ghi) {
        v.push_back(c);
      }
    }
  }
  return v;
}

template<bool Opaque, typename R, typename... A>
static void run_cb_sig_impl(const char* name, std::mt19937_64& rng);
template<typename R, typename... A>
static void run_cb_sig(const char* name, std::mt19937_64& rng)
{
  run_cb_sig_impl<false, R, A...>(name, rng);
  run_cb_sig_impl<true, R, A...>(name, rng);
}
template<bool Opaque, typename R, typename... A>
static void run_cb_sig_impl(const char* name, std::mt19937_64& rng)
{
  if constexpr ((is_fnp<A> || ...) || is_fnp<R>) {
    return; // callbacks taking or returning callbacks are not part of this family
  } else {
    constexpr size_t NA = sizeof...(A);
    std::vector<std::vector<W>> cand = { guest_candidates<A>()... };
    std::vector<W> rets = { 0 };
    if constexpr (!std::is_void_v<R>) {
      if constexpr (std::is_pointer_v<R>) {
        rets = { -1, 8, 4092 }; // application values: null / region offsets
      } else if constexpr (std::is_floating_point_v<R>) {
        rets = { guest_val((R)0), guest_val((R)-1.75) };
      } else {
        int gb = GInfo<R>::bits;
        W glo = GInfo<R>::sgn ? -((W)1 << (gb - 1)) : 0;
        W ghi = GInfo<R>::sgn ? ((W)1 << (gb - 1)) - 1 : ((W)1 << gb) - 1;
        W hlo = (W)std::numeric_limits<R>::min(), hhi = (W)std::numeric_limits<R>::max();
        for (W c : { (W)0, (W)1, glo, ghi, ghi + 1, glo - 1, hhi, hlo }) {
          if (c >= hlo && c <= hhi) {
            rets.push_back(c);
          }
        }
      }
    }
    auto cb = [&] {
      if constexpr (Opaque) {
        return sb->register_callback(cbk_opaque<R, A...>);
      } else {
        return sb->register_callback(cbk<R, A...>);
      }
    }();
    g_cbk_entry = (uint32_t)cb.UNSAFE_sandboxed(*sb);
    std::string callee = std::string("cbk_") + name;
    size_t nret = 0;
    auto one = [&](const std::vector<W>& vals) {
      g_cbk_seen.clear();
      g_cbk_count = 0;
      g_cbk_args_guest = vals;
      g_cbk_ret_host = rets[nret++ % rets.size()];
      g_cbk_ret_guest = 0;
      g_cbk_trap = false;
      g_abort_flag = false;
      sb->template INTERNAL_invoke_with_func_name<void()>(callee.c_str());
      tr::Ev e("cbcall");
      e.str("sig", name).str("decl", Opaque ? "opaque" : "tainted").str("out", g_abort_flag ? "abort" : "ok").num("count", g_cbk_count).boolean("trap", g_cbk_trap);
      std::string args = "[";
      size_t i = 0;
      auto add = [&](auto tag) {
        using T = typename decltype(tag)::type;
        tr::Ev a("x");
        a.s = "{";
        a.first = true;
        a.str("cls", std::string(1, GInfo<T>::cls)).num("gbits", GInfo<T>::bits).boolean("gs", GInfo<T>::sgn).wide("v", vals[i]);
        if (i < g_cbk_seen.size()) {
          a.wide("seen", g_cbk_seen[i]);
        }
        args += std::string(i ? "," : "") + a.s + "}";
        i++;
      };
      (add(std::common_type<A>{}), ...);
      e.raw("args", args + "]");
      if constexpr (!std::is_void_v<R>) {
        e.raw("ret", std::string("{\"cls\":\"") + GInfo<R>::cls + "\",\"gbits\":" + std::to_string(GInfo<R>::bits) +
                       ",\"gs\":" + (GInfo<R>::sgn ? "true" : "false") + "}");
        e.wide("ret_host", g_cbk_ret_host).wide("ret_guest", g_cbk_ret_guest);
      } else {
        e.raw("ret", "{\"cls\":\"v\",\"gbits\":0,\"gs\":false}").wide("ret_host", 0).wide("ret_guest", 0);
      }
      out.put(e);
    };
    std::vector<W> base(NA, 0);
    for (size_t i = 0; i < NA; i++) {
      base[i] = cand[i][0];
    }
    for (size_t k = 0; k < rets.size(); k++) {
      one(base);
    }
    for (size_t i = 0; i < NA; i++) {
      for (W c : cand[i]) {
        std::vector<W> v = base;
        v[i] = c;
        one(v);
      }
    }
    for (int k = 0; k < 6 && NA > 0; k++) {
      std::vector<W> v(NA);
      for (size_t i = 0; i < NA; i++) {
        v[i] = cand[i][rng() % cand[i].size()];
      }
      one(v);
    }
    cb.unregister();
  }
}
template<typename R, typename... A>
static void reg_cb_sig(const char* name)
{
  if constexpr (!((is_fnp<A> || ...) || is_fnp<R>)) {
    static std::string n = std::string("cbk_") + name;
    g_exports.push_back({ n.c_str(), (void*)&g_call_cbk<detail::convert_to_sandbox_equivalent_t<R, Sbx>,
                                                         detail::convert_to_sandbox_equivalent_t<A, Sbx>...> });
  }
}

template<typename R, typename... A>
static void run_sig(const char* name, std::mt19937_64& rng)
{
  constexpr size_t NA = sizeof...(A);
  std::vector<std::vector<W>> cand = { candidates<A>()... };
  std::vector<W> base(NA, 0);
  for (size_t i = 0; i < NA; i++) {
    base[i] = cand[i][0];
  }
  std::vector<W> rets = { 0 };
  if constexpr (!std::is_void_v<R>) {
    if constexpr (std::is_pointer_v<R>) {
      rets = { 0, 8, 4092 }; // guest representation: offset (0 = null)
    } else if constexpr (std::is_floating_point_v<R>) {
      rets = { guest_val((R)0), guest_val((R)-1.75) };
    } else {
      int gb = GInfo<R>::bits;
      W glo = GInfo<R>::sgn ? -((W)1 << (gb - 1)) : 0;
      W ghi = GInfo<R>::sgn ? ((W)1 << (gb - 1)) - 1 : ((W)1 << gb) - 1;
      rets = { 0, 1, glo, ghi };
    }
  }
  auto seq = std::index_sequence_for<A...>{};
  int nret = 0;
  for (int form = 0; form < 3; form++) {
    one_call<R, A...>(name, form, base, rets[nret++ % rets.size()], seq);
    for (size_t i = 0; i < NA; i++) {
      for (W c : cand[i]) {
        std::vector<W> v = base;
        v[i] = c;
        one_call<R, A...>(name, form, v, rets[nret++ % rets.size()], seq);
      }
    }
    for (int k = 0; k < 6 && NA > 0; k++) {
      std::vector<W> v(NA);
      for (size_t i = 0; i < NA; i++) {
        v[i] = cand[i][rng() % cand[i].size()];
      }
      one_call<R, A...>(name, form, v, rets[nret++ % rets.size()], seq);
    }
  }
}

template<typename R, typename... A>
static void reg_sig(const char* name)
{
  using GR = detail::convert_to_sandbox_equivalent_t<R, Sbx>;
  g_exports.push_back({ name, (void*)&g_generic<GR, detail::convert_to_sandbox_equivalent_t<A, Sbx>...> });
}

#define SIGS(X)                                                                                                        \
  X(s00, void)                                                                                                         \
  X(s01, int, int)                                                                                                     \
  X(s02, long, long, long)                                                                                             \
  X(s03, unsigned long, unsigned long, int, short)                                                                     \
  X(s04, long long, long long, long, unsigned, char)                                                                   \
  X(s05, short, short, short, short, short, short, short)                                                              \
  X(s06, long, long, long, long, long, long, long, long, long, long, long, long, long)                                 \
  X(s07, double, double, float, int)                                                                                   \
  X(s08, int*, int*, long)                                                                                             \
  X(s09, void*, void*, char*, int**)                                                                                   \
  X(s10, unsigned char, unsigned char, bool, signed char, unsigned short)                                              \
  X(s11, long, int (*)(int), long)                                                                                     \
  X(s12, int, unsigned long long, long, unsigned long long, long)                                                      \
  X(s13, char16_t, char16_t, char32_t, unsigned)                                                                       \
  X(s14, unsigned long long, unsigned long, unsigned long long)                                                        \
  X(s15, float, float, double, float, long)                                                                            \
  X(s16, const char*, const char*, unsigned long)                                                                      \
  X(s17, bool, bool, long, bool)

// the generated family (gen/sig_family.py from the covering walks of spec/Sig.tla)
#ifdef GEN_SIGS
#  include "sig_gen.inc"
#else
#  define GEN_SIGS_LIST(X)
#endif

int main(int argc, char** argv)
{
  if (argc < 3 || !out.open(argv[1])) {
    return 2;
  }
  std::mt19937_64 rng(std::atoll(argv[2]));
#define REG(name, ...) reg_sig<__VA_ARGS__>(#name);
  SIGS(REG)
  GEN_SIGS_LIST(REG)
#define REGCB(name, ...) reg_cb_sig<__VA_ARGS__>(#name);
  SIGS(REGCB)
  GEN_SIGS_LIST(REGCB)
  g_exports.push_back({ "guest_fn_int_int", (void*)&guest_fn_int_int });
  static vm_library lib = { 1, g_exports };
  RS sandbox;
  sandbox.create_sandbox(&lib);
  sb = &sandbox;
  BASE = sandbox.get_sandbox_impl()->base;
  g_guest_fn_index = (W)sandbox.get_sandbox_impl()->func_index("guest_fn_int_int");
  auto cb = sandbox.register_callback(app_cb);
  g_cb_owner = &cb;
  g_cb_entry = (W)cb.UNSAFE_sandboxed(sandbox);
  {
    tr::Ev e("setup");
    e.num("cb_entry", (long long)cb.UNSAFE_sandboxed(sandbox));
    out.put(e);
  }
#define RUN(name, ...) run_sig<__VA_ARGS__>(#name, rng);
  SIGS(RUN)
  GEN_SIGS_LIST(RUN)
  cb.unregister();
#define RUNCB(name, ...) run_cb_sig<__VA_ARGS__>(#name, rng);
  SIGS(RUNCB)
  GEN_SIGS_LIST(RUNCB)
  sandbox.destroy_sandbox();
  out.close();
  return 0;
}
