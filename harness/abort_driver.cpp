// The library's DEFAULT failure configuration: neither RLBOX_USE_EXCEPTIONS nor RLBOX_CUSTOM_ABORT
// is defined, so a failed dynamic check must end the process (abort). Every other driver observes
// refusals as exceptions or through a custom handler; this one runs operations that the Contracts
// of the properties refuse, each in a forked child, and records how the child ended - a refusal
// that merely prints and carries on is no refusal. Controls (operations that must succeed) show
// that a child which is not refused exits normally.
//
// usage: abort_driver <out> [property filter, e.g. C17]
#include "rlbox.hpp"
#include "vm_sandbox.hpp"
#include "trace.hpp"

#include <csignal>
#include <fcntl.h>
#include <cstring>
#include <functional>
#include <string>
#include <sys/wait.h>
#include <unistd.h>

using namespace rlbox;
using Sbx = rlbox_vm_sandbox<vm_abi_wasm32, 12, false, 4>;
using RS = rlbox_sandbox<Sbx>;
static const long SIZE = 4096;
static tr::Out out;
static std::string g_filter;
static RS* sb;
static uintptr_t BASE;
static volatile uintptr_t g_sink; // results are used, so that nothing is optimised away

static tainted<int, Sbx> cb1(RS&, tainted<int, Sbx> x) { return x; }
static tainted<int, Sbx> cb2(RS&, tainted<int, Sbx> x) { return x + 1; }
static tainted<int, Sbx> cb3(RS&, tainted<int, Sbx> x) { return x + 2; }
static tainted<int, Sbx> cb4(RS&, tainted<int, Sbx> x) { return x + 3; }
static tainted<int, Sbx> cb5(RS&, tainted<int, Sbx> x) { return x + 4; }

static void probe(const char* prop, const char* what, bool must_abort, const std::function<void()>& f)
{
  if (!g_filter.empty() && g_filter != prop) {
    return;
  }
  out.flush();
  pid_t pid = fork();
  if (pid == 0) {
    // the library prints its message to stderr: keep the log of the check readable
    int devnull = open("/dev/null", O_WRONLY);
    if (devnull >= 0) {
      dup2(devnull, 1);
      dup2(devnull, 2);
    }
    f();
    _exit(0);
  }
  int st = 0;
  waitpid(pid, &st, 0);
  std::string outcome = WIFSIGNALED(st) ? (WTERMSIG(st) == SIGABRT ? "SIGABRT" : "signal " + std::to_string(WTERMSIG(st)))
                                        : "exit " + std::to_string(WEXITSTATUS(st));
  tr::Ev e("abortprobe");
  e.str("prop", prop).str("what", what).str("expect", must_abort ? "abort" : "ok").str("outcome", outcome);
  out.put(e);
}

int main(int argc, char** argv)
{
  if (argc < 2 || !out.open(argv[1])) {
    return 2;
  }
  g_filter = argc > 2 ? argv[2] : "";
  RS sandbox, other;
  sandbox.create_sandbox();
  other.create_sandbox();
  sb = &sandbox;
  BASE = sandbox.get_sandbox_impl()->base;
  auto at = [&](long off) { return sb->UNSAFE_accept_pointer(reinterpret_cast<int*>(BASE + off)); };
  static tainted<int[4], Sbx> app4;
  auto p4 = sb->malloc_in_sandbox<int[4]>();
  auto pl = sb->malloc_in_sandbox<long>();
  static int app_int = 0;

  // ---- C17
  probe("C17", "application array, index == length", true, [&] { g_sink = (uintptr_t)std::addressof(app4[4]); });
  probe("C17", "application array, index -1", true, [&] { g_sink = (uintptr_t)std::addressof(app4[-1]); });
  probe("C17", "application array, tainted index 200", true, [&] { g_sink = (uintptr_t)std::addressof(app4[tainted<unsigned char, Sbx>(200)]); });
  probe("C17", "sandbox array, index == length", true, [&] { g_sink = (uintptr_t)std::addressof((*p4)[4]); });
  probe("C17", "sandbox array, index 2^32", true, [&] { g_sink = (uintptr_t)std::addressof((*p4)[(long long)1 << 32]); });
  probe("C17", "control: index 3", false, [&] { g_sink = (uintptr_t)std::addressof(app4[3]) + (uintptr_t)std::addressof((*p4)[3]); });
  // ---- C05
  probe("C05", "p + n beyond the region", true, [&] { g_sink = (uintptr_t)(at(2048) + 100000).UNSAFE_unverified(); });
  probe("C05", "p - n before the region", true, [&] { g_sink = (uintptr_t)(at(8) - 3).UNSAFE_unverified(); });
  probe("C05", "p[n] beyond the region", true, [&] { g_sink = (uintptr_t)std::addressof(at(4092)[1]); });
  probe("C05", "null + 1", true, [&] {
    tainted<int*, Sbx> n = nullptr;
    g_sink = (uintptr_t)(n + 1).UNSAFE_unverified();
  });
  probe("C05", "p += n whose byte count wraps", true, [&] {
    auto p = at(16);
    p += ((unsigned long long)1 << 62);
    g_sink = (uintptr_t)p.UNSAFE_unverified();
  });
  probe("C05", "control: p + 1, p - 1, p[0]", false, [&] { g_sink = (uintptr_t)(at(2048) + 1).UNSAFE_unverified() + (uintptr_t)(at(2048) - 1).UNSAFE_unverified() + (uintptr_t)std::addressof(at(4092)[0]); });
  // ---- C03
  probe("C03", "dereferencing a null tainted pointer", true, [&] {
    tainted<int*, Sbx> n = nullptr;
    g_sink = (uintptr_t)std::addressof(*n);
  });
  probe("C03", "dereferencing a pointer whose pointee straddles the end", true, [&] {
    auto p = sb->UNSAFE_accept_pointer(reinterpret_cast<long long*>(BASE + SIZE - 4));
    g_sink = (uintptr_t)std::addressof(*p);
  });
  probe("C03", "control: dereferencing the last int", false, [&] { g_sink = (uintptr_t)std::addressof(*at(4092)); });
  // ---- C02
  probe("C02", "UNSAFE_accept_pointer(application address)", true, [&] { g_sink = (uintptr_t)sb->UNSAFE_accept_pointer(&app_int).UNSAFE_unverified(); });
  probe("C02", "UNSAFE_accept_pointer(address in another sandbox)", true, [&] {
    g_sink = (uintptr_t)sb->UNSAFE_accept_pointer(reinterpret_cast<int*>(other.get_sandbox_impl()->base + 64)).UNSAFE_unverified();
  });
  probe("C02", "assign_raw_pointer(application address)", true, [&] {
    tainted<int*, Sbx> t;
    t.assign_raw_pointer(*sb, &app_int);
    g_sink = (uintptr_t)t.UNSAFE_unverified();
  });
  probe("C02", "control: UNSAFE_accept_pointer(address inside)", false, [&] { g_sink = (uintptr_t)at(64).UNSAFE_unverified(); });
  // ---- C06
  probe("C06", "store of 2^40 into a 32-bit guest long", true, [&] {
    *pl = (long)1 << 40;
    g_sink = 1;
  });
  probe("C06", "store of a tainted 2^31 into a 32-bit guest long", true, [&] {
    tainted<long, Sbx> t = (long)1 << 31;
    *pl = t;
    g_sink = 1;
  });
  probe("C06", "control: store of 2^31 - 1", false, [&] {
    *pl = ((long)1 << 31) - 1;
    g_sink = 1;
  });
  // ---- C10
  probe("C10", "memset beyond the region", true, [&] { memset(*sb, at(4000), 0, (size_t)200); });
  probe("C10", "memcpy from an application buffer into a range leaving the region", true, [&] {
    static char src[64];
    memcpy(*sb, sandbox_reinterpret_cast<char*>(at(4090)), src, (size_t)16);
  });
  probe("C10", "copy_and_verify_range leaving the region", true, [&] {
    auto r = at(4088).copy_and_verify_range([](std::unique_ptr<int[]> v) { return v; }, 4);
    g_sink = (uintptr_t)r.get();
  });
  probe("C10", "unverified_safe_pointer_because leaving the region", true, [&] { g_sink = (uintptr_t)at(4088).unverified_safe_pointer_because(4, "probe"); });
  probe("C10", "control: memset of the last 96 bytes", false, [&] { memset(*sb, at(4000), 0, (size_t)96); });
  // ---- C13
  probe("C13", "registering a callback that is registered already", true, [&] {
    auto a = sb->register_callback(cb1);
    auto b = sb->register_callback(cb1);
    g_sink = a.is_unregistered() + b.is_unregistered();
  });
  probe("C13", "a fifth registration on a backend with four entry points", true, [&] {
    auto a = sb->register_callback(cb1);
    auto b = sb->register_callback(cb2);
    auto c = sb->register_callback(cb3);
    auto d = sb->register_callback(cb4);
    auto e = sb->register_callback(cb5);
    g_sink = e.is_unregistered();
  });
  probe("C13", "control: four registrations", false, [&] {
    auto a = sb->register_callback(cb1);
    auto b = sb->register_callback(cb2);
    auto c = sb->register_callback(cb3);
    auto d = sb->register_callback(cb4);
    g_sink = d.is_unregistered();
  });
  // ---- C14
  probe("C14", "create_sandbox on a created sandbox", true, [&] { g_sink = sb->create_sandbox(); });
  probe("C14", "destroy_sandbox on a sandbox that was never created", true, [&] {
    RS fresh;
    fresh.destroy_sandbox();
  });
  probe("C14", "register_callback on a sandbox that is not created", true, [&] {
    RS fresh;
    auto a = fresh.register_callback(cb1);
    g_sink = a.is_unregistered();
  });
  probe("C14", "control: create, destroy, create, destroy", false, [&] {
    RS fresh;
    fresh.create_sandbox();
    fresh.destroy_sandbox();
    fresh.create_sandbox();
    fresh.destroy_sandbox();
  });
  // ---- C15
  probe("C15", "lookup of a token that was never issued", true, [&] {
    app_pointer_map<uint8_t> m;
    g_sink = (uintptr_t)m.lookup_index(5);
  });
  probe("C15", "lookup of a released token", true, [&] {
    app_pointer_map<uint8_t> m;
    auto t = m.get_app_pointer_idx(&app_int, 10);
    m.remove_app_ptr(t);
    g_sink = (uintptr_t)m.lookup_index(t);
  });
  probe("C15", "registration beyond the limit", true, [&] {
    app_pointer_map<uint8_t> m;
    g_sink = m.get_app_pointer_idx(&app_int, 1) + m.get_app_pointer_idx(&g_filter, 1);
  });
  probe("C15", "control: register, look up, release", false, [&] {
    app_pointer_map<uint8_t> m;
    auto t = m.get_app_pointer_idx(&app_int, 10);
    g_sink = (uintptr_t)m.lookup_index(t);
    m.remove_app_ptr(t);
  });
  other.destroy_sandbox();
  sandbox.destroy_sandbox();
  out.close();
  return 0;
}
