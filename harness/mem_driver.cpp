// C07 / C04 / C03 conformance driver: records what stores and loads through tainted
// references do to sandbox memory (byte diffs of the whole 4 KiB region), and what application
// addresses come out of pointer-typed positions holding arbitrary guest representations.
// Exceptions build (an abort is a caught std::runtime_error); a fault in a guard page is
// caught by a SIGSEGV handler and recorded as out = "fault".
//
// usage: mem_driver store|load|ptr <out> <seed> <tier>
// -DUSE_FINDER=1 selects finder-based example translation in the backend.
#define RLBOX_USE_EXCEPTIONS
#include "rlbox.hpp"
#include "vm_sandbox.hpp"
#include "trace.hpp"

#include <csetjmp>
#include <csignal>
#include <cstring>
#include <limits>
#include <memory>
#include <random>
#include <map>
#include <string>
#include <vector>

#ifndef USE_FINDER
#  define USE_FINDER 0
#endif

using namespace rlbox;
using W = __int128;
#if defined(ABI_LP16)
using Abi = vm_abi_lp16;
#elif defined(ABI_LP64U)
using Abi = vm_abi_lp64u; // guest pointers as wide as host pointers, but offsets (not identity)
#else
using Abi = vm_abi_wasm32;
#endif
using Sbx = rlbox_vm_sandbox<Abi, 12, USE_FINDER != 0>;
using GP = typename Sbx::T_PointerType; // guest pointer representation
using RS = rlbox_sandbox<Sbx>;
static const long SIZE = 4096;

static tr::Out out;
static RS* sb;
static RS* others[2];
static uintptr_t BASE;
static unsigned char* MEM;

static sigjmp_buf g_jmp;
static volatile sig_atomic_t g_in_guard = 0;
static void on_segv(int)
{
  if (g_in_guard) {
    siglongjmp(g_jmp, 1);
  }
  _exit(11);
}

struct PS
{
  long a;
  char b;
  int* c;
  short d;
};
#define sandbox_fields_reflection_vlib_class_PS(f, g, ...)                                                             \
  f(long, a, FIELD_NORMAL, ##__VA_ARGS__) g() f(char, b, FIELD_NORMAL, ##__VA_ARGS__) g()                              \
    f(int*, c, FIELD_NORMAL, ##__VA_ARGS__) g() f(short, d, FIELD_NORMAL, ##__VA_ARGS__) g()
#define sandbox_fields_reflection_vlib_allClasses(f, ...) f(PS, vlib, ##__VA_ARGS__)
rlbox_load_structs_from_library(vlib);

enum testEnum
{
  E0,
  E1,
  E2 = 70000
};

// the harness' own statement of the guest type of each application type under the ABI in use
template<typename T>
struct GT
{
  using type = T;
};
template<typename T>
struct GT<const T>
{
  using type = const typename GT<T>::type;
};
#ifdef ABI_LP16
template<>
struct GT<int>
{
  using type = int16_t;
};
template<>
struct GT<unsigned>
{
  using type = uint16_t;
};
// char32_t is an unsigned type of int's rank: RLBox's ABI mapping treats it like unsigned int
template<>
struct GT<char32_t>
{
  using type = uint16_t;
};
#endif
#ifndef ABI_LP64U
template<>
struct GT<long>
{
  using type = int32_t;
};
template<>
struct GT<unsigned long>
{
  using type = uint32_t;
};
#endif
template<typename T>
struct GI
{
  using G = std::remove_const_t<typename GT<T>::type>;
  static constexpr long size = sizeof(G);
  static constexpr bool sgn = std::is_signed_v<G>;
  static constexpr char cls = std::is_same_v<G, bool> ? 'b' : std::is_floating_point_v<G> ? 'f' : 'i';
};
template<>
struct GI<testEnum>
{
  using G = testEnum;
  static constexpr long size = 4;
  static constexpr bool sgn = false;
  static constexpr char cls = 'i';
};
template<typename T>
struct TN;
#define TNM(T)                                                                                                         \
  template<>                                                                                                           \
  struct TN<T>                                                                                                         \
  {                                                                                                                    \
    static constexpr const char* v = #T;                                                                               \
  };
TNM(bool)
TNM(char)
TNM(signed char)
TNM(unsigned char)
TNM(short)
TNM(unsigned short)
TNM(int)
TNM(unsigned)
TNM(long)
TNM(unsigned long)
TNM(long long)
TNM(unsigned long long)
TNM(float)
TNM(double)
TNM(char16_t)
TNM(char32_t)
TNM(testEnum)
TNM(const int)
TNM(const long)
TNM(const short)
TNM(const unsigned long)
TNM(const long long)

template<typename T>
static W bits_of(T v)
{
  if constexpr (std::is_same_v<T, float>) {
    uint32_t b;
    std::memcpy(&b, &v, 4);
    return b;
  } else if constexpr (std::is_same_v<T, double>) {
    uint64_t b;
    std::memcpy(&b, &v, 8);
    return b;
  } else {
    return (W)v;
  }
}
template<typename T>
static T from_bits(W v)
{
  if constexpr (std::is_same_v<T, float>) {
    uint32_t b = (uint32_t)v;
    float f;
    std::memcpy(&f, &b, 4);
    return f;
  } else if constexpr (std::is_same_v<T, double>) {
    uint64_t b = (uint64_t)v;
    double f;
    std::memcpy(&f, &b, 8);
    return f;
  } else {
    return (T)v;
  }
}

template<typename T>
static std::vector<W> values(std::mt19937_64& rng, int nrand)
{
  std::vector<W> v;
  if constexpr (std::is_floating_point_v<T>) {
    for (T x : { (T)0, (T)1.5, (T)-2.75, std::numeric_limits<T>::max(), std::numeric_limits<T>::denorm_min() }) {
      v.push_back(bits_of(x));
    }
    // bit patterns that arithmetic would not leave alone: infinities, -0.0, quiet and SIGNALLING
    // NaNs with payloads (a store / load moves bits, it does not compute)
    if constexpr (sizeof(T) == 4) {
      for (W b : { (W)0x7F800000, (W)0xFF800000, (W)0x80000000, (W)0x7FC00000, (W)0x7FA00000, (W)0xFFA00001, (W)0x7F800001 }) {
        v.push_back(b);
      }
    } else {
      for (unsigned long long b : { 0x7FF0000000000000ull, 0xFFF0000000000000ull, 0x8000000000000000ull, 0x7FF8000000000000ull,
                                    0x7FF4000000000000ull, 0xFFF4000000000001ull, 0x7FF0000000000001ull }) {
        v.push_back((W)b);
      }
    }
    return v;
  } else if constexpr (std::is_same_v<T, bool>) {
    return { 0, 1 };
  } else if constexpr (std::is_enum_v<T>) {
    return { 0, 1, 70000 };
  } else {
    W lo = (W)std::numeric_limits<T>::min(), hi = (W)std::numeric_limits<T>::max();
    int gb = GI<T>::size * 8;
    W glo = GI<T>::sgn ? -((W)1 << (gb - 1)) : 0, ghi = GI<T>::sgn ? ((W)1 << (gb - 1)) - 1 : ((W)1 << gb) - 1;
    for (W c : { (W)0, (W)1, (W)-1, lo, hi, glo, ghi, glo - 1, ghi + 1, (W)0x5A, (W)0x1234, (W)-0x1234, (W)0x7F, (W)0x80,
                 (W)0x12345678, (W)-0x12345678 }) {
      if (c >= lo && c <= hi) {
        v.push_back(c);
      }
    }
    for (int i = 0; i < nrand; i++) {
      W c = (W)(T)(rng() >> (rng() % 64));
      v.push_back(c);
    }
    return v;
  }
}

static std::vector<unsigned char> snapshot()
{
  return std::vector<unsigned char>(MEM, MEM + SIZE);
}
static void fill_pattern(int pat, std::mt19937_64& rng)
{
  for (long i = 0; i < SIZE; i++) {
    MEM[i] = pat == 0 ? 0x00 : pat == 1 ? 0xFF : pat == 2 ? 0xA5 : (unsigned char)rng();
  }
}
static std::string changed_list(const std::vector<unsigned char>& before)
{
  std::string s = "[";
  bool first = true;
  int n = 0;
  for (long i = 0; i < SIZE; i++) {
    if (before[i] != MEM[i]) {
      if (n++ < 64) {
        s += std::string(first ? "" : ",") + std::to_string(i);
        first = false;
      }
    }
  }
  return s + "]";
}

template<typename T>
static tainted<T*, Sbx> ptr_at(long off)
{
  return sb->UNSAFE_accept_pointer(reinterpret_cast<T*>(BASE + off));
}

template<typename F>
static const char* guarded(F f)
{
  g_in_guard = 1;
  const char* res = "ok";
  if (sigsetjmp(g_jmp, 1) == 0) {
    try {
      f();
    } catch (const std::runtime_error&) {
      res = "abort";
    }
  } else {
    res = "fault";
  }
  g_in_guard = 0;
  return res;
}

// ---------------------------------------------------------------- stores
template<typename T>
static void store_tests(std::mt19937_64& rng, bool thorough)
{
  const long gs = GI<T>::size;
  std::vector<long> addrs = { 8, SIZE - gs, 2048 };
  for (int k = 1; k < 8; k++) {
    addrs.push_back(100 + k);
  }
  auto vals = values<T>(rng, thorough ? 6 : 2);
  int pat = 0;
  for (long addr : addrs) {
    for (W v : vals) {
      for (int path = 0; path < 5; path++) {
        if ((addr != 8 && addr != SIZE - gs) && path > 1 && !thorough) {
          continue;
        }
        if (path == 2 && addr < gs) {
          continue;
        }
        if (path == 3 && addr + 3 * gs > SIZE && addr != SIZE - gs) {
          continue;
        }
        fill_pattern(pat++ % 4, rng);
        // source cell for the tainted_volatile -> tainted_volatile path: far away from addr
        long src_addr = addr < 1024 ? 3000 : 16;
        if (path == 4) {
          // prepare the source through the already-checked plain path; skip values that do not fit
          try {
            *ptr_at<T>(src_addr) = from_bits<T>(v);
          } catch (const std::runtime_error&) {
            continue;
          }
        }
        auto before = snapshot();
        const char* res = guarded([&] {
          switch (path) {
            case 0:
              *ptr_at<T>(addr) = from_bits<T>(v);
              break;
            case 1: {
              tainted<T, Sbx> tv = from_bits<T>(v);
              *ptr_at<T>(addr) = tv;
              break;
            }
            case 2:
              ptr_at<T>(addr - gs)[1] = from_bits<T>(v);
              break;
            case 3: {
              // element 2 of an array object that ends exactly at addr + gs
              auto pa = sb->UNSAFE_accept_pointer(reinterpret_cast<T(*)[3]>(BASE + addr - 2 * gs));
              (*pa)[2] = from_bits<T>(v);
              break;
            }
            default:
              *ptr_at<T>(addr) = *ptr_at<T>(src_addr);
              break;
          }
        });
        if (path == 3 && addr < 2 * gs) {
          continue;
        }
        tr::Ev e("store");
        static const char* PN[] = { "deref=plain", "deref=tainted", "index=plain", "arrayelem=plain", "deref=volatile" };
        e.str("path", PN[path]).str("ty", TN<T>::v).str("cls", std::string(1, GI<T>::cls)).num("size", gs);
        e.boolean("signed", GI<T>::sgn && GI<T>::cls == 'i').num("addr", addr).wide("v", v).str("out", res);
        e.raw("changed", changed_list(before)).bytes("bytes", MEM + addr, gs);
        out.put(e);
      }
    }
  }
}

// ---------------------------------------------------------------- whole arrays (1-D and multi-dimensional)
template<typename T, size_t R, size_t C>
static void array_tests(std::mt19937_64& rng)
{
  const long gs = GI<T>::size;
  using G = typename GI<T>::G;
  const long n = (long)(R * C);
  int gb = gs * 8;
  W glo = GI<T>::sgn ? -((W)1 << (gb - 1)) : 0, ghi = GI<T>::sgn ? ((W)1 << (gb - 1)) - 1 : ((W)1 << gb) - 1;
  for (long addr : { 8L, 2048L + 1, SIZE - n * gs }) {
    std::vector<W> vals;
    for (long i = 0; i < n; i++) {
      W base = (i % 3 == 0) ? glo + i : (i % 3 == 1) ? ghi - i : (W)(3 + 7 * i);
      vals.push_back(base);
    }
    // (1) whole-array store of a tainted T[R][C]
    {
      fill_pattern(3, rng);
      tainted<T[R][C], Sbx> ta;
      for (size_t r = 0; r < R; r++) {
        for (size_t c = 0; c < C; c++) {
          ta[r][c] = (T)vals[r * C + c];
        }
      }
      auto before = snapshot();
      auto pa = sb->UNSAFE_accept_pointer(reinterpret_cast<T(*)[R][C]>(BASE + addr));
      const char* res = guarded([&] { *pa = ta; });
      tr::Ev e("astore");
      e.str("ty", TN<T>::v).str("shape", std::to_string(R) + "x" + std::to_string(C)).num("size", gs).num("n", n);
      e.boolean("signed", GI<T>::sgn).num("addr", addr).str("out", res);
      std::string vs = "[";
      for (long i = 0; i < n; i++) {
        tr::Ev t("x");
        t.s = "";
        t.first = true;
        t.wide("v", vals[i]);
        vs += std::string(i ? "," : "") + t.s.substr(4);
      }
      e.raw("vals", vs + "]").raw("changed", changed_list(before)).bytes("bytes", MEM + addr, n * gs);
      out.put(e);
    }
    // (2) whole-array load of what is there: to a tainted copy, and unwrapped
    for (int path = 0; path < 2; path++) {
      for (long i = 0; i < n; i++) {
        G gv = (G)vals[(i + 1) % n];
        std::memcpy(MEM + addr + i * gs, &gv, gs);
      }
      std::vector<W> got(n, 0);
      auto pa = sb->UNSAFE_accept_pointer(reinterpret_cast<T(*)[R][C]>(BASE + addr));
      const char* res = guarded([&] {
        if (path == 0) {
          tainted<T[R][C], Sbx> t = *pa;
          for (size_t r = 0; r < R; r++) {
            for (size_t c = 0; c < C; c++) {
              got[r * C + c] = bits_of(t[r][c].UNSAFE_unverified());
            }
          }
        } else {
          auto raw = (*pa).UNSAFE_unverified();
          for (size_t r = 0; r < R; r++) {
            for (size_t c = 0; c < C; c++) {
              // (written so that it still compiles if the unwrapped type loses a dimension: the
              // values recorded are then not those of the array, which is what gets judged)
              auto& row = raw[r];
              if constexpr (std::is_array_v<std::remove_reference_t<decltype(row)>>) {
                got[r * C + c] = bits_of((T)row[c]);
              } else {
                got[r * C + c] = (W)-424242;
              }
            }
          }
        }
      });
      tr::Ev e("aload");
      e.str("ty", TN<T>::v).str("shape", std::to_string(R) + "x" + std::to_string(C)).num("size", gs).num("n", n);
      e.str("path", path == 0 ? "to_tainted" : "unverified").boolean("signed", GI<T>::sgn).num("addr", addr).str("out", res);
      std::string gsx = "[";
      for (long i = 0; i < n; i++) {
        tr::Ev t("x");
        t.s = "";
        t.first = true;
        t.wide("v", got[i]);
        gsx += std::string(i ? "," : "") + t.s.substr(4);
      }
      e.raw("got", gsx + "]").bytes("bytes", MEM + addr, n * gs);
      out.put(e);
    }
  }
}

// ---------------------------------------------------------------- loads
template<typename T>
static void load_tests(std::mt19937_64& rng, bool thorough)
{
  const long gs = GI<T>::size;
  using G = typename GI<T>::G;
  using TV = std::remove_const_t<T>;
  std::vector<long> addrs = { 8, SIZE - gs, 2048 };
  for (int k = 1; k < 8; k++) {
    addrs.push_back(100 + k);
  }
  std::vector<W> cells;
  if constexpr (std::is_floating_point_v<T> || std::is_same_v<T, bool> || std::is_enum_v<T>) {
    cells = values<TV>(rng, 0);
  } else {
    int gb = gs * 8;
    W glo = GI<T>::sgn ? -((W)1 << (gb - 1)) : 0, ghi = GI<T>::sgn ? ((W)1 << (gb - 1)) - 1 : ((W)1 << gb) - 1;
    for (W c : { (W)0, (W)1, (W)-1, glo, ghi, glo + 1, ghi - 1, (W)0x5A, (W)0x64, (W)-0x12345678, (W)0x12345678 }) {
      if (c >= glo && c <= ghi) {
        cells.push_back(c);
      }
    }
    for (int i = 0; i < (thorough ? 6 : 2); i++) {
      cells.push_back((W)(G)(rng() >> (rng() % 64)));
    }
  }
  static const char* PN[] = { "to_tainted", "deref.unverified", "copy_and_verify(ptr)", "copy_and_verify_range[0]",
                              "copy_and_verify_range[last]", "index.unverified" };
  for (long addr : addrs) {
    for (W c : cells) {
      for (int path = 0; path < 6; path++) {
        if constexpr (std::is_same_v<T, bool> || std::is_enum_v<T>) {
          if (path == 3 || path == 4) {
            // copy_and_verify_range on these element types goes through the same element loop
          }
        }
        if ((addr != 8 && addr != SIZE - gs) && path > 1 && !thorough && addr != 101) {
          continue;
        }
        // range paths read 2 elements: [addr-gs, addr+gs) for "last", [addr, addr+2gs) for "[0]"
        if (path == 3 && addr + 2 * gs > SIZE) {
          continue;
        }
        if ((path == 4 || path == 5) && addr < gs) {
          continue;
        }
        W got[2] = { 0, 0 };
        const char* res = "ok";
        for (int round = 0; round < 2; round++) {
          std::memset(MEM, round == 0 ? 0x00 : 0xFF, SIZE);
          G gv;
          if constexpr (std::is_floating_point_v<T>) {
            gv = from_bits<TV>(c);
          } else {
            gv = (G)c;
          }
          std::memcpy(MEM + addr, &gv, gs);
          TV val{};
          const char* r = guarded([&] {
            switch (path) {
              case 0: {
                if constexpr (std::is_const_v<T>) {
                  val = (*ptr_at<T>(addr)).UNSAFE_unverified(); // no tainted<T> <- tainted_volatile<const T>
                } else {
                  tainted<TV, Sbx> t = *ptr_at<T>(addr);
                  val = t.UNSAFE_unverified();
                }
                break;
              }
              case 1:
                val = (*ptr_at<T>(addr)).UNSAFE_unverified();
                break;
              case 2:
                val = ptr_at<T>(addr).copy_and_verify([](std::unique_ptr<TV> v) { return v ? *v : TV{}; });
                break;
              case 3:
                val = ptr_at<T>(addr).copy_and_verify_range([](std::unique_ptr<TV[]> v) { return v ? v[0] : TV{}; }, 2);
                break;
              case 4:
                val = ptr_at<T>(addr - gs).copy_and_verify_range([](std::unique_ptr<TV[]> v) { return v ? v[1] : TV{}; }, 2);
                break;
              default:
                val = ptr_at<T>(addr - gs)[1].UNSAFE_unverified();
                break;
            }
          });
          if (std::strcmp(r, "ok") != 0) {
            res = r;
          }
          got[round] = bits_of(val);
        }
        tr::Ev e("load");
        e.str("path", PN[path]).str("ty", TN<T>::v).str("cls", std::string(1, GI<T>::cls)).num("size", gs);
        e.boolean("signed", GI<T>::sgn && GI<T>::cls == 'i').num("addr", addr).bytes("bytes", MEM + addr, gs);
        e.str("out", res).wide("got", got[0]).wide("got2", got[1]);
        out.put(e);
      }
    }
  }
}

// ---------------------------------------------------------------- pointer positions
static int which_sandbox(const void* p, long& off)
{
  uintptr_t a = reinterpret_cast<uintptr_t>(p);
  RS* all[3] = { sb, others[0], others[1] };
  for (int i = 0; i < 3; i++) {
    uintptr_t b = all[i]->get_sandbox_impl()->base;
    if (a >= b && a < b + SIZE) {
      off = (long)(a - b);
      return i;
    }
  }
  return -1;
}

using GInt = typename Abi::T_IntType;
static GP g_ret_rep = 0;
static GP g_ret_ptr(GInt) { return g_ret_rep; }
static GP g_cb_entry_rep = 0, g_cb_rep = 0;
static GInt g_call_cb_with_ptr(GInt)
{
  GInt ret = 0;
  Sbx::call_indirect<GInt, GP>(g_cb_entry_rep, &ret, g_cb_rep);
  return ret;
}
// guest calls a callback that RETURNS a pointer and records the representation it got back
static GP g_cbret_entry = 0, g_cbret_got = 0;
static bool g_cbret_trap = false;
static GInt g_call_cb_ret_ptr(GInt)
{
  GP ret = (GP)0xDEADBEEF;
  g_cbret_trap = !Sbx::call_indirect<GP>(g_cbret_entry, &ret);
  g_cbret_got = ret;
  return 0;
}
extern "C" {
int* ret_ptr(int);
int call_cb_with_ptr(int);
int call_cb_ret_ptr(int);
}
static tainted<int*, Sbx> g_cbret_value;
static tainted<int*, Sbx> ptr_ret_cb(RS&)
{
  return g_cbret_value;
}
static const void* g_cb_got = nullptr;
static tainted<int, Sbx> ptr_cb(RS&, tainted<int*, Sbx> p)
{
  g_cb_got = p.UNSAFE_unverified();
  return 0;
}

// One observation per (position, representation). Consecutive representations with the same
// outcome, class, sandbox and the same difference between the address obtained and the
// representation are logged as ONE run event (replo..rephi): the dense sweeps are long
// arithmetic progressions. A run of length one is logged as a plain "ptrload".
struct PtrRunAgg
{
  bool open = false;
  std::string pos, outc, cls, sbn;
  W lo = 0, hi = 0, d = 0; // d = off - rep ("in") or addr - rep ("out")
  long off_lo = 0;
  W addr_lo = 0;
  void flush()
  {
    if (!open) {
      return;
    }
    open = false;
    tr::Ev e(lo == hi ? "ptrload" : "ptrloadrun");
    e.str("pos", pos);
    if (lo == hi) {
      e.wide("rep", lo);
    } else {
      e.wide("replo", lo).wide("rephi", hi).wide("d", d);
    }
    e.num("size", SIZE).str("own", "s0").str("out", outc).str("cls", cls);
    if (cls == "in") {
      e.str("sb", sbn).num("off", off_lo);
    } else if (cls == "out") {
      e.wide("addr", addr_lo);
    }
    out.put(e);
  }
  void add(const char* p, W rep, const char* o, const char* c, const std::string& sb_, long off, W addr)
  {
    W dd = std::strcmp(c, "in") == 0 ? (W)off - rep : std::strcmp(c, "out") == 0 ? addr - rep : 0;
    if (open && rep == hi + 1 && outc == o && cls == c && sbn == sb_ && dd == d &&
        (cls == "in" || cls == "out")) {
      hi = rep;
      return;
    }
    flush();
    open = true;
    pos = p;
    outc = o;
    cls = c;
    sbn = sb_;
    lo = hi = rep;
    d = dd;
    off_lo = off;
    addr_lo = addr;
  }
};
static std::map<std::string, PtrRunAgg> g_ptr_runs;
static void ptr_flush()
{
  for (auto& kv : g_ptr_runs) {
    kv.second.flush();
  }
}

static void ptr_event(const char* pos, W rep, const void* got, const char* outc)
{
  long off = 0;
  const char* cls;
  std::string sbn;
  W addr = 0;
  if (std::strcmp(outc, "ok") != 0) {
    cls = "abort";
  } else if (got == nullptr) {
    cls = "null";
  } else {
    int w = which_sandbox(got, off);
    if (w < 0) {
      cls = "out";
      addr = (W)reinterpret_cast<uintptr_t>(got);
    } else {
      cls = "in";
      sbn = std::string("s") + std::to_string(w);
    }
  }
  g_ptr_runs[pos].add(pos, rep, outc, cls, sbn, off, addr);
}

// Pointer cells compared with each other: each cell is translated relative to the sandbox whose
// memory it lives in, so two cells are equal iff they designate the same object - equal
// representations in two different sandboxes are different pointers.
static void cellcmp_tests()
{
  auto pa = sb->malloc_in_sandbox<int*>();
  auto pb = sb->malloc_in_sandbox<int*>();
  auto qo = others[0]->malloc_in_sandbox<int*>();
  const uintptr_t obase = others[0]->get_sandbox_impl()->base;
  struct Case { const char* what; long offl; const char* sbr; long offr; };
  for (Case c : { Case{ "same sandbox, same offset", 16, "s0", 16 }, Case{ "same sandbox, other offset", 16, "s0", 2048 },
                  Case{ "two sandboxes, same offset", 16, "s1", 16 }, Case{ "two sandboxes, same offset", 2048, "s1", 2048 },
                  Case{ "two sandboxes, other offset", 16, "s1", 2048 } }) {
    bool other = std::string(c.sbr) == "s1";
    bool eq = false, ne = false;
    const char* r = guarded([&] {
      *pa = sb->UNSAFE_accept_pointer(reinterpret_cast<int*>(BASE + c.offl));
      if (other) {
        *qo = others[0]->UNSAFE_accept_pointer(reinterpret_cast<int*>(obase + c.offr));
        eq = (*pa == *qo).unverified_safe_because("observed");
        ne = (*pa != *qo).unverified_safe_because("observed");
      } else {
        *pb = sb->UNSAFE_accept_pointer(reinterpret_cast<int*>(BASE + c.offr));
        eq = (*pa == *pb).unverified_safe_because("observed");
        ne = (*pa != *pb).unverified_safe_because("observed");
      }
    });
    tr::Ev e("cellcmp");
    e.str("what", c.what).str("sbl", "s0").num("offl", c.offl).str("sbr", c.sbr).num("offr", c.offr);
    e.str("out", r).boolean("eq", eq).boolean("ne", ne);
    out.put(e);
  }
}

static void ptr_tests(std::mt19937_64& rng, bool thorough)
{
  std::vector<W> reps;
  long dense = thorough ? (1L << 20) : (1L << 16);
  for (long r = 0; r < dense && (W)r <= (W)std::numeric_limits<GP>::max(); r++) {
    reps.push_back(r);
  }
  for (int k : { 16, 20, 24, 31, 32, 33, 47, 48, 63, 64 }) {
    for (int d = -2; d <= 2; d++) {
      W x = ((W)1 << k) + d;
      if (x >= 0 && x <= (W)std::numeric_limits<GP>::max()) {
        reps.push_back(x);
      }
    }
  }
  if (sizeof(GP) == sizeof(void*)) {
    // host addresses as representations: inside this sandbox, inside the others, on the heap
    for (long o : { 0L, 8L, SIZE - 1, SIZE }) {
      reps.push_back((W)(BASE + o));
      reps.push_back((W)(others[0]->get_sandbox_impl()->base + o));
    }
    reps.push_back((W)reinterpret_cast<uintptr_t>(&reps));
    reps.push_back((W)reinterpret_cast<uintptr_t>(&out));
  }
  // representations that equal the low bits of the OTHER sandboxes' bases (+ a few offsets)
  for (int i = 0; i < 2; i++) {
    GP lowbase = (GP)others[i]->get_sandbox_impl()->base;
    GP delta = (GP)(others[i]->get_sandbox_impl()->base - BASE);
    for (GP o : { (GP)0, (GP)8, (GP)4095 }) {
      reps.push_back(lowbase + o);
      reps.push_back(delta + o);
    }
  }
  for (int i = 0; i < (thorough ? 60000 : 20000); i++) {
    reps.push_back((GP)rng());
  }
  auto pp = sb->malloc_in_sandbox<int*>();
  auto parr = sb->malloc_in_sandbox<int* [3]>();
  auto ps = sb->malloc_in_sandbox<PS>();
  GP* cell = reinterpret_cast<GP*>(pp.UNSAFE_unverified());
  GP* acell = reinterpret_cast<GP*>(parr.UNSAFE_unverified());
  // guest layout of PS: wasm32: a@0 (4) b@4 (1) c@8 (4) d@12 (2); lp16: a@0 (4) b@4 (1) c@6 (2) d@8 (2);
  // lp64u: a@0 (8) b@8 (1) c@16 (8) d@24 (2)
  GP* scell = reinterpret_cast<GP*>(reinterpret_cast<unsigned char*>(ps.UNSAFE_unverified()) + (sizeof(GP) == 4 ? 8 : sizeof(GP) == 8 ? 16 : 6));
  auto cb = sb->register_callback(ptr_cb);
  g_cb_entry_rep = (GP)cb.UNSAFE_sandboxed(*sb);
  size_t n = 0;
  for (W rw : reps) {
    GP rep = (GP)rw;
    bool all_positions = (n++ % (thorough ? 1 : 4)) == 0 || rep < 8192 || rep > (GP)(std::numeric_limits<GP>::max() - 0xFFF);
    const void* got = nullptr;
    const char* r;
    *cell = rep;
    r = guarded([&] {
      tainted<int*, Sbx> t = *pp;
      got = t.UNSAFE_unverified();
    });
    ptr_event("cell", rw, got, r);
    if (!all_positions) {
      continue;
    }
    r = guarded([&] { got = (*pp).UNSAFE_unverified(); });
    ptr_event("cell.unverified", rw, got, r);
    acell[0] = 8;
    acell[1] = rep;
    acell[2] = 0;
    r = guarded([&] { got = (*parr)[1].UNSAFE_unverified(); });
    ptr_event("array-element", rw, got, r);
    r = guarded([&] {
      tainted<int* [3], Sbx> ta = *parr;
      got = ta[1].UNSAFE_unverified();
    });
    ptr_event("array-copy", rw, got, r);
    {
      // a two-dimensional array of pointers loaded as a whole
      static auto p2d = sb->malloc_in_sandbox<int* [2][2]>();
      GP* c2d = reinterpret_cast<GP*>(p2d.UNSAFE_unverified());
      c2d[0] = 8;
      c2d[1] = 0;
      c2d[2] = 16;
      c2d[3] = rep;
      r = guarded([&] {
        tainted<int* [2][2], Sbx> t2 = *p2d;
        got = t2[1][1].UNSAFE_unverified();
        if (t2[0][0].UNSAFE_unverified() != (int*)(BASE + 8) || t2[0][1].UNSAFE_unverified() != nullptr ||
            t2[1][0].UNSAFE_unverified() != (int*)(BASE + 16)) {
          got = reinterpret_cast<const void*>(static_cast<uintptr_t>(0xBAD0BAD0)); // a neighbour came out wrong
        }
      });
      ptr_event("array2d-copy", rw, got, r);
      r = guarded([&] { got = (*p2d)[1][1].UNSAFE_unverified(); });
      ptr_event("array2d-element", rw, got, r);
    }
    *scell = rep;
    r = guarded([&] { got = ps->c.UNSAFE_unverified(); });
    ptr_event("struct-field", rw, got, r);
    r = guarded([&] {
      tainted<PS, Sbx> s = *ps;
      got = s.c.UNSAFE_unverified();
    });
    ptr_event("struct-copy", rw, got, r);
    r = guarded([&] {
      auto s = ps->UNSAFE_unverified();
      got = s.c;
    });
    ptr_event("struct-unverified", rw, got, r);
    g_ret_rep = rep;
    r = guarded([&] { got = sb->invoke_sandbox_function(ret_ptr, 0).UNSAFE_unverified(); });
    ptr_event("invoke-result", rw, got, r);
    g_cb_rep = rep;
    g_cb_got = nullptr;
    r = guarded([&] { sb->invoke_sandbox_function(call_cb_with_ptr, 0); });
    ptr_event("callback-argument", rw, g_cb_got, r);
    r = guarded([&] {
      tainted<int*, Sbx> t = *pp;
      auto o = t.to_opaque();
      got = from_opaque(o).UNSAFE_unverified();
    });
    ptr_event("opaque-roundtrip", rw, got, r);
    r = guarded([&] {
      tainted<int*, Sbx> t = *pp;
      got = sandbox_reinterpret_cast<char*>(t).UNSAFE_unverified();
    });
    ptr_event("reinterpret_cast", rw, got, r);
    r = guarded([&] { got = sandbox_reinterpret_cast<char*>(*pp).UNSAFE_unverified(); });
    ptr_event("reinterpret_cast(volatile)", rw, got, r);
    // cells whose pointee is itself a pointer (to a function, to a pointer) or an array: all of them
    // are DATA pointers, translated like any other
    {
      using FnPP = int (**)(int);
      static auto pfpp = sb->malloc_in_sandbox<FnPP>();
      *reinterpret_cast<GP*>(pfpp.UNSAFE_unverified()) = rep;
      r = guarded([&] {
        tainted<FnPP, Sbx> t = *pfpp;
        got = reinterpret_cast<const void*>(t.UNSAFE_unverified());
      });
      ptr_event("cell(fn**)", rw, got, r);
      r = guarded([&] { got = reinterpret_cast<const void*>((*pfpp).UNSAFE_unverified()); });
      ptr_event("cell(fn**).unverified", rw, got, r);
      static auto pppp = sb->malloc_in_sandbox<int***>();
      *reinterpret_cast<GP*>(pppp.UNSAFE_unverified()) = rep;
      r = guarded([&] {
        tainted<int***, Sbx> t = *pppp;
        got = t.UNSAFE_unverified();
      });
      ptr_event("cell(int***)", rw, got, r);
      using PArr = int (*)[3];
      static auto pparr = sb->malloc_in_sandbox<PArr>();
      *reinterpret_cast<GP*>(pparr.UNSAFE_unverified()) = rep;
      r = guarded([&] {
        tainted<PArr, Sbx> t = *pparr;
        got = t.UNSAFE_unverified();
      });
      ptr_event("cell(int(*)[3])", rw, got, r);
    }
    if (rw < (W)SIZE) {
      // the representation is what the sandbox's allocator answers (0 = allocation failed)
      sb->get_sandbox_impl()->malloc_override = true;
      sb->get_sandbox_impl()->malloc_override_val = rep;
      r = guarded([&] { got = sb->malloc_in_sandbox<char>(1).UNSAFE_unverified(); });
      sb->get_sandbox_impl()->malloc_override = false;
      ptr_event("allocation-result", rw, got, r);
      sb->get_sandbox_impl()->malloc_override = true;
      sb->get_sandbox_impl()->malloc_override_val = rep;
      r = guarded([&] { got = sb->malloc_in_sandbox<int*>(1).UNSAFE_unverified(); });
      sb->get_sandbox_impl()->malloc_override = false;
      ptr_event("allocation-result(int*)", rw, got, r);
    }
  }
  ptr_flush();
  cb.unregister();
  // function pointers: representation 0 is null on every path (with and without a sandbox at hand)
  {
    using Fn = int (*)(int);
    auto pf = sb->malloc_in_sandbox<Fn>();
    *reinterpret_cast<GP*>(pf.UNSAFE_unverified()) = 0;
    const void* got = reinterpret_cast<const void*>(0x1);
    const char* r = guarded([&] {
      tainted<Fn, Sbx> t = *pf;
      got = reinterpret_cast<const void*>(t.UNSAFE_unverified());
    });
    ptr_event("fn cell", 0, got, r);
    got = reinterpret_cast<const void*>(0x1);
    r = guarded([&] { got = reinterpret_cast<const void*>((*pf).UNSAFE_unverified()); });
    ptr_event("fn cell.unverified", 0, got, r);
    got = reinterpret_cast<const void*>(0x1);
    r = guarded([&] { got = reinterpret_cast<const void*>(sb->get_unsandboxed_pointer<Fn>((GP)0)); });
    ptr_event("fn get_unsandboxed_pointer(0)", 0, got, r);
    g_ret_rep = 0;
    got = reinterpret_cast<const void*>(0x1);
    r = guarded([&] {
      auto res = sb->template INTERNAL_invoke_with_func_name<Fn(int)>("ret_ptr", 0);
      got = reinterpret_cast<const void*>(res.UNSAFE_unverified());
    });
    ptr_event("fn invoke-result", 0, got, r);
    ptr_flush();
  }
  // stores: every offset of the region, null; the representation written must be the offset
  for (long off = -1; off < SIZE; off++) {
    tainted<int*, Sbx> t = off < 0 ? tainted<int*, Sbx>(nullptr) : ptr_at<int>(off);
    struct
    {
      const char* name;
      GP* c;
    } pos[3] = { { "cell", cell }, { "array-element", acell + 1 }, { "struct-field", scell } };
    for (int k = 0; k < 3; k++) {
      *pos[k].c = (GP)0xDEADBEEF;
      const char* r = guarded([&] {
        if (k == 0) {
          *pp = t;
        } else if (k == 1) {
          (*parr)[1] = t;
        } else {
          ps->c = t;
        }
      });
      tr::Ev e("ptrstore");
      e.str("pos", pos[k].name).str("own", "s0").str("out", r).num("size", SIZE);
      if (off < 0) {
        e.str("cls", "null");
      } else {
        e.str("cls", "in").str("sb", "s0").num("off", off);
      }
      e.wide("rep", (W)*pos[k].c);
      out.put(e);
    }
    // a callback returns the pointer to the guest
    {
      static auto rcb = sb->register_callback(ptr_ret_cb);
      g_cbret_entry = (GP)rcb.UNSAFE_sandboxed(*sb);
      g_cbret_value = t;
      g_cbret_got = (GP)0xDEADBEEF;
      const char* r = guarded([&] { sb->invoke_sandbox_function(call_cb_ret_ptr, 0); });
      tr::Ev e("ptrstore");
      e.str("pos", "callback-result").str("own", "s0").str("out", g_cbret_trap ? "trap" : r).num("size", SIZE);
      if (off < 0) {
        e.str("cls", "null");
      } else {
        e.str("cls", "in").str("sb", "s0").num("off", off);
      }
      e.wide("rep", (W)g_cbret_got);
      out.put(e);
    }
    // whole-array store
    {
      tainted<int* [3], Sbx> ta;
      ta[0] = nullptr;
      ta[1] = t;
      ta[2] = nullptr;
      acell[0] = acell[1] = acell[2] = (GP)0xDEADBEEF;
      const char* r = guarded([&] { *parr = ta; });
      tr::Ev e("ptrstore");
      e.str("pos", "array-copy").str("own", "s0").str("out", r).num("size", SIZE);
      if (off < 0) {
        e.str("cls", "null");
      } else {
        e.str("cls", "in").str("sb", "s0").num("off", off);
      }
      e.wide("rep", (W)(acell[0] == 0 && acell[2] == 0 ? acell[1] : (GP)0xBAD0BAD0));
      out.put(e);
    }
    // whole-struct store
    {
      tainted<PS, Sbx> s;
      s.a = 1;
      s.b = 2;
      s.c = t;
      s.d = 3;
      *scell = (GP)0xDEADBEEF;
      const char* r = guarded([&] { *ps = s; });
      tr::Ev e("ptrstore");
      e.str("pos", "struct-copy").str("own", "s0").str("out", r).num("size", SIZE);
      if (off < 0) {
        e.str("cls", "null");
      } else {
        e.str("cls", "in").str("sb", "s0").num("off", off);
      }
      e.wide("rep", (W)*scell);
      out.put(e);
    }
  }
}


// ---------------------------------------------------------------- chains of pointer-producing operations (C03)
extern "C" {
int n1(int);
}
static GInt g_n1(GInt x) { return x; }

static void chain_event(const std::string& chain, const void* got, const char* outc, const char* op = "", const void* from = nullptr)
{
  tr::Ev e("ptrchain");
  e.str("chain", chain).str("own", "s0").str("out", outc).str("op", op).num("size", SIZE);
  {
    // where the pointer the last operation was applied to pointed (offset in s0, -1 = null)
    long foff = 0;
    e.num("from", from == nullptr ? -1 : which_sandbox(from, foff) == 0 ? foff : -2);
    e.num("pssize", (long)sizeof(tainted_volatile<PS, Sbx>));
  }
  long off = 0;
  if (std::strcmp(outc, "ok") != 0) {
    e.str("cls", "abort");
  } else if (got == nullptr) {
    e.str("cls", "null");
  } else {
    int w = which_sandbox(got, off);
    if (w < 0) {
      e.str("cls", "out").wide("addr", (W)reinterpret_cast<uintptr_t>(got));
    } else {
      e.str("cls", "in").str("sb", std::string("s") + std::to_string(w)).num("off", off);
    }
  }
  out.put(e);
}

static const int NOPS = 22;
static const char* OPNAMES[NOPS] = { "+1", "-1", "+4095", "-4095", "+4096", "-4096", "&[1]", "&[-1]", "&[1<<20]",
                                     "cast-int*+1", "opaque", "cell", "+(1<<62)", "-(u64)-3", "cast-ll*-1", "memset-ret",
                                     "arr4[3]", "arr4[4]", "arr4[2^32+1]", "arr4[u64:-2^32+1]", "&PS->d", "&PS[0].d" };
static bool apply_op(int op, tainted<char*, Sbx>& p, tainted<char**, Sbx> cellp)
{
  switch (op) {
    case 0:
      p = p + 1;
      break;
    case 1:
      p = p - 1;
      break;
    case 2:
      p = p + 4095;
      break;
    case 3:
      p = p - 4095;
      break;
    case 4:
      p = p + 4096;
      break;
    case 5:
      p = p - 4096;
      break;
    case 6:
      p = &p[1];
      break;
    case 7:
      p = &p[-1];
      break;
    case 8:
      p = &p[1L << 20];
      break;
    case 9:
      p = sandbox_reinterpret_cast<char*>(sandbox_reinterpret_cast<int*>(p) + 1);
      break;
    case 10:
      p = from_opaque(p.to_opaque());
      break;
    case 11:
      *cellp = p;
      p = *cellp;
      break;
    case 12:
      p = p + (1LL << 62);
      break;
    case 13:
      p = p - (unsigned long long)-3;
      break;
    case 14:
      p = sandbox_reinterpret_cast<char*>(sandbox_reinterpret_cast<long long*>(p) - 1);
      break;
    case 15:
      if (p != nullptr) {
        p = rlbox::memset(*sb, p, 0, 1);
      }
      break;
    // the pointee seen as a fixed-size array in sandbox memory, indexed with narrow and wide indices
    case 16:
      p = &(*sandbox_reinterpret_cast<char(*)[4]>(p))[3];
      break;
    case 17:
      p = &(*sandbox_reinterpret_cast<char(*)[4]>(p))[4];
      break;
    case 18:
      p = &(*sandbox_reinterpret_cast<char(*)[4]>(p))[(1LL << 32) + 1];
      break;
    case 19:
      p = &(*sandbox_reinterpret_cast<char(*)[4]>(p))[0xffffffff00000001ULL];
      break;
    case 20:
      // address of the last field of a struct the pointer is taken to point to
      p = sandbox_reinterpret_cast<char*>(&(sandbox_reinterpret_cast<PS*>(p)->d));
      break;
    default:
      // the same through indexing: p[0] designates the element by its address alone
      p = sandbox_reinterpret_cast<char*>(&(sandbox_reinterpret_cast<PS*>(p)[0].d));
      break;
  }
  return true;
}

static void chain_dfs(const std::string& name, tainted<char*, Sbx> p, tainted<char**, Sbx> cellp, int depth)
{
  if (depth == 0) {
    return;
  }
  for (int op = 0; op < NOPS; op++) {
    tainted<char*, Sbx> q = p;
    const char* r = guarded([&] { apply_op(op, q, cellp); });
    std::string nm = name + " " + OPNAMES[op];
    const void* got = std::strcmp(r, "ok") == 0 ? q.UNSAFE_unverified() : nullptr;
    chain_event(nm, got, r, OPNAMES[op], p.UNSAFE_unverified());
    if (std::strcmp(r, "ok") == 0) {
      long off;
      // continue only from results the Contract accepts (null or inside): anything else is
      // already reported
      if (got == nullptr || which_sandbox(got, off) == 0) {
        chain_dfs(nm, q, cellp, depth - 1);
      }
    }
  }
}

static void chain_tests(bool thorough)
{
  auto cellp = sb->malloc_in_sandbox<char*>();
  int depth = thorough ? 4 : 3;
  chain_dfs("null", tainted<char*, Sbx>(nullptr), cellp, depth);
  chain_dfs("first", ptr_at<char>(0), cellp, depth);
  chain_dfs("last", ptr_at<char>(SIZE - 1), cellp, depth);
  chain_dfs("interior", ptr_at<char>(2048), cellp, depth);
  // other pointer sources
  const void* got = nullptr;
  const char* r;
  r = guarded([&] { got = sb->malloc_in_sandbox<int>(3).UNSAFE_unverified(); });
  chain_event("malloc(3 ints)", got, r);
  r = guarded([&] { got = sb->malloc_in_sandbox<char>(4000).UNSAFE_unverified(); });
  chain_event("malloc(4000)", got, r);
  r = guarded([&] { got = sb->malloc_in_sandbox<char>(5000).UNSAFE_unverified(); });
  chain_event("malloc(5000)", got, r);
  // a misbehaving allocator: block that starts inside and ends outside / starts outside
  for (unsigned long rep : { 4090ul, 4095ul, 4096ul, 8192ul, 0xFFFFFFF0ul }) {
    sb->get_sandbox_impl()->malloc_override = true;
    sb->get_sandbox_impl()->malloc_override_val = (GP)rep;
    r = guarded([&] { got = sb->malloc_in_sandbox<long long>(2).UNSAFE_unverified(); });
    sb->get_sandbox_impl()->malloc_override = false;
    // the block must lie wholly inside: report the address of its LAST byte
    if (std::strcmp(r, "ok") == 0 && got != nullptr) {
      chain_event("malloc-override(" + std::to_string(rep) + ").last-byte", (const char*)got + 15, r);
    }
    chain_event("malloc-override(" + std::to_string(rep) + ")", got, r);
  }
  // the same allocator on a backend that does not confine representations: only RLBox's own
  // checks of the allocation result stand between a bad block and the application
  for (unsigned long rep : { 4090ul, 4095ul, 4096ul, 8192ul, 100000ul }) {
    sb->get_sandbox_impl()->malloc_override = true;
    sb->get_sandbox_impl()->malloc_override_val = (GP)rep;
    Sbx::confine_pointers = false;
    r = guarded([&] { got = sb->malloc_in_sandbox<long long>(2).UNSAFE_unverified(); });
    Sbx::confine_pointers = true;
    sb->get_sandbox_impl()->malloc_override = false;
    if (std::strcmp(r, "ok") == 0 && got != nullptr) {
      chain_event("malloc-override-unconfined(" + std::to_string(rep) + ").last-byte", (const char*)got + 15, r);
    }
    chain_event("malloc-override-unconfined(" + std::to_string(rep) + ")", got, r);
  }
#ifdef VM_GRANT_DENY
  // granting access on a backend that offers the interface: refused (the library must fall back
  // to a copy inside the sandbox) and accepted-by-the-backend-with-the-same-pointer is NOT offered
  // by this variant, so whatever comes back must be null or inside the sandbox
  for (int mode = 0; mode < 1; mode++) {
    Sbx::grant_mode = 0;
    static char app_buf[64] = "application buffer";
    bool copied = false;
    r = guarded([&] {
      auto t = copy_memory_or_grant_access(*sb, app_buf, sizeof app_buf, false, copied);
      got = t.UNSAFE_unverified();
    });
    chain_event("copy_memory_or_grant_access(refused)", got, r);
    static double app_dbl[4] = { 1, 2, 3, 4 };
    r = guarded([&] {
      auto t = copy_memory_or_grant_access(*sb, app_dbl, (size_t)4, false, copied);
      got = t.UNSAFE_unverified();
    });
    chain_event("copy_memory_or_grant_access(refused, double[4])", got, r);
  }
#endif
  {
    int app_obj = 0;
    r = guarded([&] {
      auto ap = sb->get_app_pointer(&app_obj);
      got = ap.to_tainted().UNSAFE_unverified();
      ap.unregister();
    });
    chain_event("app_pointer.to_tainted", got, r);
  }
  // the entry points for raw pointers: every address class
  int on_stack = 0;
  static int in_data = 0;
  auto heap = std::make_unique<int>(0);
  struct
  {
    const char* name;
    const void* p;
  } raws[] = { { "base-1", (const void*)(BASE - 1) },
               { "base", (const void*)BASE },
               { "last", (const void*)(BASE + SIZE - 1) },
               { "last+1", (const void*)(BASE + SIZE) },
               { "stack", &on_stack },
               { "data", &in_data },
               { "heap", heap.get() },
               { "other-sandbox", (const void*)(others[0]->get_sandbox_impl()->base + 16) },
               { "other-sandbox2", (const void*)(others[1]->get_sandbox_impl()->base + 4095) } };
  for (auto& rw : raws) {
    r = guarded([&] { got = sb->UNSAFE_accept_pointer((const char*)rw.p).UNSAFE_unverified(); });
    chain_event(std::string("UNSAFE_accept_pointer(") + rw.name + ")", got, r);
    tainted<const char*, Sbx> held = sb->UNSAFE_accept_pointer((const char*)(BASE + 48));
    r = guarded([&] {
      held.assign_raw_pointer(*sb, (const char*)rw.p);
      got = held.UNSAFE_unverified();
    });
    chain_event(std::string("tainted.assign_raw_pointer(") + rw.name + ")", got, r);
    // whatever the outcome, the tainted pointer assigned to is still a tainted pointer
    chain_event(std::string("tainted.assign_raw_pointer(") + rw.name + ").held-afterwards", held.UNSAFE_unverified(), "ok");
    r = guarded([&] {
      auto cp = sb->malloc_in_sandbox<const char*>();
      *cp = nullptr;
      (*cp).assign_raw_pointer(*sb, (const char*)rw.p);
      got = (*cp).UNSAFE_unverified();
    });
    chain_event(std::string("volatile.assign_raw_pointer(") + rw.name + ")", got, r);
  }
}


// ---------------------------------------------------------------- the checked raw-pointer entry points (C02)
static void entry_tests()
{
  auto cell = sb->malloc_in_sandbox<const char*>();
  GP* rawcell = reinterpret_cast<GP*>(cell.UNSAFE_unverified());
  auto one = [&](const char* cls, const char* sbname, long off, const void* addr) {
    for (int api = 0; api < 3; api++) {
      static const char* AN[] = { "UNSAFE_accept_pointer", "tainted.assign_raw_pointer", "tainted_volatile.assign_raw_pointer" };
      const void* got = nullptr;
      *rawcell = (GP)0xBEEF;
      // the tainted pointer assigned to already designates sandbox memory (offset 48): after a
      // refused assignment it is read again
      tainted<const char*, Sbx> held = sb->UNSAFE_accept_pointer((const char*)(BASE + 48));
      const char* r = guarded([&] {
        if (api == 0) {
          got = sb->UNSAFE_accept_pointer((const char*)addr).UNSAFE_unverified();
        } else if (api == 1) {
          held.assign_raw_pointer(*sb, (const char*)addr);
        } else {
          (*cell).assign_raw_pointer(*sb, (const char*)addr);
        }
      });
      if (api == 1) {
        got = held.UNSAFE_unverified();
      }
      tr::Ev e("entry");
      e.str("api", AN[api]).str("cls", cls).str("sb", sbname).num("off", off).str("out", r).num("size", SIZE);
      e.boolean("heldapi", api == 1);
      if (api < 2) {
        e.wide("stored", got == nullptr ? -1 : (W)reinterpret_cast<uintptr_t>(got) - (W)BASE);
      } else {
        e.wide("stored", (W)*rawcell);
      }
      e.boolean("cellapi", api == 2);
      out.put(e);
    }
  };
  for (long off = 0; off < SIZE; off++) {
    one("in", "s0", off, (const void*)(BASE + off));
  }
  for (long d : { -4096L, -17L, -1L }) {
    one("out", "", d, (const void*)(BASE + d));
  }
  for (long d : { 0L, 1L, 4095L, 100000L }) {
    one("out", "", SIZE + d, (const void*)(BASE + SIZE + d));
  }
  for (int k = 0; k < 2; k++) {
    uintptr_t ob = others[k]->get_sandbox_impl()->base;
    for (long off = 0; off < SIZE; off += 97) {
      one("in", k == 0 ? "s1" : "s2", off, (const void*)(ob + off));
    }
    one("in", k == 0 ? "s1" : "s2", SIZE - 1, (const void*)(ob + SIZE - 1));
  }
  int on_stack = 0;
  static int in_data = 0;
  auto heap = std::make_unique<int>(0);
  one("out", "", 0, &on_stack);
  one("out", "", 0, &in_data);
  one("out", "", 0, heap.get());
  one("null", "", 0, nullptr);
  // raw function pointers: an application function, and the application-side address of a
  // sandbox function; neither lies in sandbox memory, so both entry points must refuse them
  using EFn = int (*)(int);
  auto fcell = sb->malloc_in_sandbox<EFn>();
  GP* rawfcell = reinterpret_cast<GP*>(fcell.UNSAFE_unverified());
  EFn app_fn = [](int x) { return x + 1; };
  EFn sbx_fn = reinterpret_cast<EFn>(sb->get_sandbox_function_address(call_cb_with_ptr).UNSAFE_unverified());
  for (EFn f : { app_fn, sbx_fn }) {
    for (int api = 0; api < 3; api++) {
      static const char* AN[] = { "UNSAFE_accept_pointer(fn)", "tainted.assign_raw_pointer(fn)", "tainted_volatile.assign_raw_pointer(fn)" };
      const void* got = nullptr;
      *rawfcell = (GP)0xBEEF;
      const char* r = guarded([&] {
        if (api == 0) {
          got = reinterpret_cast<const void*>(sb->UNSAFE_accept_pointer(f).UNSAFE_unverified());
        } else if (api == 1) {
          tainted<EFn, Sbx> t;
          t.assign_raw_pointer(*sb, f);
          got = reinterpret_cast<const void*>(t.UNSAFE_unverified());
        } else {
          (*fcell).assign_raw_pointer(*sb, f);
        }
      });
      tr::Ev e("entry");
      e.boolean("heldapi", false);
      e.str("api", AN[api]).str("cls", "out").str("sb", "").num("off", f == app_fn ? 0 : 1).str("out", r).num("size", SIZE);
      e.wide("stored", api < 2 ? (got == nullptr ? -1 : (W)reinterpret_cast<uintptr_t>(got) - (W)BASE) : (W)*rawfcell);
      e.boolean("cellapi", api == 2);
      out.put(e);
    }
  }
}

// ---------------------------------------------------------------- arrays of pointers entering sandbox memory (C02)
// what reaches the sandbox cells is the representation of each pointer, never an application address
static void ptrarray_tests()
{
  auto parr = sb->malloc_in_sandbox<const char* [3]>();
  GP* raw = reinterpret_cast<GP*>(parr.UNSAFE_unverified());
  auto ps = sb->malloc_in_sandbox<PS>();
  for (long off : { 16L, 2048L, SIZE - 1 }) {
    tainted<const char* [3], Sbx> ta;
    ta[0] = sb->UNSAFE_accept_pointer((const char*)(BASE + off));
    ta[1] = nullptr;
    ta[2] = sb->UNSAFE_accept_pointer((const char*)(BASE + 32));
    raw[0] = raw[1] = raw[2] = (GP)0xBEEF;
    const char* r = guarded([&] { *parr = ta; });
    for (int k = 0; k < 3; k++) {
      tr::Ev e("ptrstore");
      e.str("pos", "entry: whole array of pointers").str("own", "s0").str("out", r).num("size", SIZE);
      if (k == 1) {
        e.str("cls", "null");
      } else {
        e.str("cls", "in").str("sb", "s0").num("off", k == 0 ? off : 32);
      }
      e.wide("rep", (W)raw[k]);
      out.put(e);
    }
    // the same array handed to the sandbox as its representation (UNSAFE_sandboxed)
    GP seen[3] = { (GP)0xBEEF, (GP)0xBEEF, (GP)0xBEEF };
    r = guarded([&] {
      auto sbxed = ta.UNSAFE_sandboxed(*sb);
      for (int k = 0; k < 3; k++) {
        seen[k] = (GP)sbxed[k];
      }
    });
    for (int k = 0; k < 3; k++) {
      tr::Ev e("ptrstore");
      e.str("pos", "entry: array of pointers, UNSAFE_sandboxed").str("own", "s0").str("out", r).num("size", SIZE);
      if (k == 1) {
        e.str("cls", "null");
      } else {
        e.str("cls", "in").str("sb", "s0").num("off", k == 0 ? off : 32);
      }
      e.wide("rep", (W)seen[k]);
      out.put(e);
    }
  }
  (void)ps;
}

// ---------------------------------------------------------------- addresses of sandbox functions (C02)
// The tainted function pointer the application obtains for a sandbox function designates that
// function INSIDE the sandbox (its table index), never the host-side entry point used to invoke it -
// before the function was ever called, after it was called, and when asked again.
static void fnaddr_tests()
{
  using RFn = int* (*)(int);
  auto fcell = sb->malloc_in_sandbox<RFn>();
  GP* rawf = reinterpret_cast<GP*>(fcell.UNSAFE_unverified());
  long want = sb->get_sandbox_impl()->func_index("ret_ptr");
  auto one = [&](const char* when) {
    W rep = -1, cellrep = -1;
    *rawf = (GP)0xBEEF;
    const char* r = guarded([&] {
      auto fa = sb->get_sandbox_function_address(ret_ptr);
      rep = (W)fa.UNSAFE_sandboxed(*sb);
      *fcell = fa;
      cellrep = (W)*rawf;
    });
    tr::Ev e("fnaddr");
    e.str("when", when).str("out", r).num("want", want).wide("rep", rep).wide("cellrep", cellrep);
    out.put(e);
  };
  one("before the first call");
  one("asked again");
  g_ret_rep = 0;
  guarded([&] { sb->invoke_sandbox_function(ret_ptr, 0); });
  one("after a call");
  guarded([&] { sb->invoke_sandbox_function(ret_ptr, 0); });
  one("after a second call");
}

#ifdef VM_GRANT_DENY
// ---------------------------------------------------------------- handing application buffers over (C02)
// copy_memory_or_grant_access is the one route by which a RAW application pointer is given to the
// backend: the range must have been accepted (non-null, no wrap, entirely application memory or
// entirely this sandbox's) before the backend sees it.
template<typename T>
static void grant_one(const char* what, bool rangeok, T* src, size_t num, int mode)
{
  Sbx::grant_mode = mode;
  Sbx::grant_log.clear();
  bool copied = false;
  const void* got = nullptr;
  const char* r = guarded([&] {
    auto t = copy_memory_or_grant_access(*sb, src, num, false, copied);
    got = t.UNSAFE_unverified();
  });
  tr::Ev e("grant");
  e.str("what", what).boolean("rangeok", rangeok).num("mode", mode).str("out", r).boolean("copied", copied);
  e.num("asked", (long)Sbx::grant_log.size());
  bool same = !Sbx::grant_log.empty() && Sbx::grant_log[0].first == reinterpret_cast<uintptr_t>(src) &&
              Sbx::grant_log[0].second == num * sizeof(T);
  e.boolean("asked_same", same);
  uintptr_t a = reinterpret_cast<uintptr_t>(got);
  e.str("cls", std::strcmp(r, "ok") != 0 ? "abort" : got == nullptr ? "null" : (a >= BASE && a < BASE + SIZE) ? "in" : "out");
  out.put(e);
  Sbx::grant_mode = 0;
  Sbx::grant_log.clear();
}
static void grant_tests()
{
  static char app_buf[64] = "application buffer";
  static double app_dbl[4] = { 1, 2, 3, 4 };
  for (int mode : { 0, 2 }) {
    grant_one("app char[64]", true, app_buf, sizeof app_buf, mode);
    grant_one("app double[4]", true, app_dbl, (size_t)4, mode);
    grant_one("app char[1]", true, app_buf + 63, (size_t)1, mode);
    grant_one("sandbox char[16]", true, (char*)(BASE + 64), (size_t)16, mode);
    grant_one("null", false, (char*)nullptr, (size_t)8, mode);
    grant_one("enters the region", false, (char*)(BASE - 4), (size_t)8, mode);
    grant_one("leaves the region", false, (char*)(BASE + SIZE - 4), (size_t)8, mode);
    grant_one("wraps", false, (char*)(~(uintptr_t)0 - 3), (size_t)8, mode);
    grant_one("wraps from the region", false, (char*)(BASE + 8), ~(size_t)0 - 3, mode);
    grant_one("double enters the region", false, (double*)(BASE - 8), (size_t)2, mode);
    grant_one("enters another sandbox", false, (char*)(others[0]->get_sandbox_impl()->base - 2), (size_t)4, mode);
  }
}
#endif

static vm_library lib = { 1, { { "ret_ptr", (void*)&g_ret_ptr }, { "call_cb_with_ptr", (void*)&g_call_cb_with_ptr },
                                { "call_cb_ret_ptr", (void*)&g_call_cb_ret_ptr } } };

int main(int argc, char** argv)
{
  if (argc < 5) {
    return 2;
  }
  std::string mode = argv[1];
  if (!out.open(argv[2])) {
    return 2;
  }
  std::mt19937_64 rng(std::atoll(argv[3]));
  bool thorough = std::atoi(argv[4]) != 0;
  struct sigaction sa;
  std::memset(&sa, 0, sizeof sa);
  sa.sa_handler = on_segv;
  sa.sa_flags = SA_NODEFER;
  sigaction(SIGSEGV, &sa, nullptr);
  sigaction(SIGBUS, &sa, nullptr);

  RS o1, sandbox, o2;
  o1.create_sandbox(&lib);
  sandbox.create_sandbox(&lib);
  o2.create_sandbox(&lib);
  sb = &sandbox;
  others[0] = &o1;
  others[1] = &o2;
  BASE = sandbox.get_sandbox_impl()->base;
  MEM = sandbox.get_sandbox_impl()->mem();
  {
    tr::Ev e("setup");
    e.boolean("finder", USE_FINDER != 0).str("abi", Abi::name);
    out.put(e);
  }
  if (mode == "store") {
#define ST(T) store_tests<T>(rng, thorough);
    ST(bool) ST(char) ST(signed char) ST(unsigned char) ST(short) ST(unsigned short) ST(int) ST(unsigned) ST(long)
      ST(unsigned long) ST(long long) ST(unsigned long long) ST(float) ST(double) ST(char16_t) ST(char32_t) ST(testEnum)
    // whole arrays, one- and multi-dimensional; element types that keep or change their width
    array_tests<int, 1, 6>(rng);
    array_tests<int, 2, 3>(rng);
    array_tests<char, 3, 4>(rng);
    array_tests<long, 2, 3>(rng);
    array_tests<long long, 2, 2>(rng);
    array_tests<unsigned short, 4, 2>(rng);
  } else if (mode == "load") {
#define LD(T) load_tests<T>(rng, thorough);
    LD(const int) LD(const long) LD(const short) LD(const unsigned long) LD(const long long)
    LD(char) LD(signed char) LD(unsigned char) LD(short) LD(unsigned short) LD(int) LD(unsigned) LD(long)
      LD(unsigned long) LD(long long) LD(unsigned long long) LD(float) LD(double) LD(char16_t) LD(char32_t) LD(testEnum)
  } else if (mode == "ptr") {
    ptr_tests(rng, thorough);
    cellcmp_tests();
  } else if (mode == "chain") {
    chain_tests(thorough);
  } else if (mode == "entry") {
    entry_tests();
    fnaddr_tests();
    ptrarray_tests();
#ifdef VM_GRANT_DENY
    grant_tests();
#endif
  } else {
    return 2;
  }
  o2.destroy_sandbox();
  sandbox.destroy_sandbox();
  o1.destroy_sandbox();
  out.close();
  return 0;
}
