// RLBOX_NO_COMPILE_CHECKS without exceptions: the library's compile-time rejections become run-time
// failures that END THE PROCESS (the configuration used to unit-test the rejections on compilers
// without exceptions).  Every use of sandbox data that the default build refuses to compile is run
// here in a forked child and must die with SIGABRT; permitted uses (controls) exit normally.
// The verdicts are those of Abort.tla (Trace_Abort), as for abort_driver.
// usage: nocc_driver <out> [property filter]
#define RLBOX_SINGLE_THREADED_INVOCATIONS
#define RLBOX_NO_COMPILE_CHECKS
#include "rlbox.hpp"
#include "rlbox_noop_sandbox.hpp"
#include "trace.hpp"

#include <csignal>
#include <fcntl.h>
#include <functional>
#include <string>
#include <sys/wait.h>
#include <unistd.h>

using namespace rlbox;
using Sbx = rlbox_noop_sandbox;
using RS = rlbox_sandbox<Sbx>;
static tr::Out out;
static volatile long g_sink;
static std::string g_filter;

static void probe(const char* prop, const char* what, bool must_abort, const std::function<void()>& f)
{
  if (!g_filter.empty() && g_filter != prop) {
    return;
  }
  out.flush();
  pid_t pid = fork();
  if (pid == 0) {
    int devnull = open("/dev/null", O_WRONLY);
    if (devnull >= 0) {
      dup2(devnull, 1);
      dup2(devnull, 2);
    }
    f();
    _exit(0);
  }
  int st = 0;
  waitpid(pid, &st, 0);
  std::string outcome = WIFSIGNALED(st) ? (WTERMSIG(st) == SIGABRT ? "SIGABRT" : "signal " + std::to_string(WTERMSIG(st)))
                                        : "exit " + std::to_string(WEXITSTATUS(st));
  tr::Ev e("abortprobe");
  e.str("prop", prop).str("what", what).str("expect", must_abort ? "abort" : "ok").str("outcome", outcome);
  out.put(e);
}

int main(int argc, char** argv)
{
  if (argc < 2 || !out.open(argv[1])) {
    return 2;
  }
  g_filter = argc > 2 ? argv[2] : "";
  RS sandbox;
  sandbox.create_sandbox();
  auto p = sandbox.malloc_in_sandbox<int>();
  *p = 7;
  auto pp = sandbox.malloc_in_sandbox<int*>();
  *pp = p;
  static int app_int = 3;
  static int* app_ptr = &app_int;

  // ---- C01: sandbox data used as a plain value without a named unwrapping call
  probe("C01", "if (*p): a tainted_volatile number as a condition", true, [&] {
    if (*p) {
      g_sink = 1;
    } else {
      g_sink = 2;
    }
  });
  probe("C01", "bool b = *pp: a tainted_volatile pointer converted to bool", true, [&] {
    bool b = *pp;
    g_sink = b;
  });
  probe("C01", "copy_and_verify on a tainted_boolean_hint", true, [&] {
    auto hint = (*p == 7);
    g_sink = hint.copy_and_verify([](bool v) { return v; });
  });
  probe("C01", "copy_and_verify on a tainted_int_hint", true, [&] {
    int local = 7;
    auto hint = rlbox::memcmp(sandbox, p, &local, sizeof(int));
    g_sink = hint.copy_and_verify();
  });
  probe("C01", "p < p2: ordering of tainted pointers", true, [&] {
    auto p2 = sandbox.malloc_in_sandbox<int>();
    auto r = p < p2;
    g_sink = r.UNSAFE_unverified();
  });
  probe("C01", "control: null test of a tainted pointer, hint with unverified_safe_because", false, [&] {
    if (p != nullptr) {
      g_sink = (*p == 7).unverified_safe_because("observed");
    }
  });
  // ---- C02: raw application pointers entering through the tainted constructors
  probe("C02", "tainted<int*> constructed from a raw pointer", true, [&] {
    tainted<int*, Sbx> z(&app_int);
    g_sink = (long)z.UNSAFE_unverified();
  });
  probe("C02", "tainted<int**> constructed from a raw pointer to pointer", true, [&] {
    tainted<int**, Sbx> z(&app_ptr);
    g_sink = (long)z.UNSAFE_unverified();
  });
  probe("C02", "control: tainted pointer from nullptr and from a tainted pointer", false, [&] {
    tainted<int*, Sbx> z = nullptr;
    tainted<int*, Sbx> y = p;
    g_sink = (long)z.UNSAFE_unverified() + (long)y.UNSAFE_unverified();
  });
  sandbox.destroy_sandbox();
  out.close();
  return 0;
}
