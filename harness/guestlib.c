/* Guest library for the dylib backend (two builds, LIBID 1 and 2, export the same names).
   The tree logic lives in the harness; the library reaches it through dlsym on the main
   program (the driver is linked with -rdynamic). */
#define _GNU_SOURCE
#include <dlfcn.h>
#include <stddef.h>
#ifndef LIBID
#define LIBID 1
#endif
typedef long (*tree_body_t)(long, long, int);
long tree_fn(long node, long poison)
{
  static tree_body_t body = NULL;
  if (!body) {
    body = (tree_body_t)dlsym(RTLD_DEFAULT, "harness_tree_body");
  }
  return body ? body(node, poison, LIBID) : -1;
}
int lib_id(void) { return LIBID; }
/* exported state and an exported helper used by the functions below: each library uses ITS OWN
   (a loader that merges the libraries' symbol scopes would bind the second library to the first's) */
int guest_calls = 0;
int guest_bump(void) { return ++guest_calls; }
typedef void (*ran_t)(int, const char*);
int n1(int x)
{
  /* drivers that want to know which library ran export harness_ran */
  static ran_t ran = NULL;
  static int looked = 0;
  if (!looked) {
    ran = (ran_t)dlsym(RTLD_DEFAULT, "harness_ran");
    looked = 1;
  }
  guest_bump();
  if (ran) {
    ran(lib_id(), "n1");
  }
  return x + lib_id();
}
/* call an entry point the library was given (callback trampolines are host functions) */
int callA_raw(unsigned long long entry, int arg) { return ((int (*)(int))entry)(arg); }
long callB_raw(unsigned long long entry, int a, int b) { return ((long (*)(int, int))entry)(a, b); }
