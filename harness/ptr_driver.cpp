// C05 / C17 conformance driver (flag-abort build): records what tainted pointer arithmetic
// and fixed-size array indexing do on a foreign-ABI sandbox with a 4 KiB region.
// Leaf operations only (nothing is dereferenced after a failed check).
//
// usage: ptr_driver c05 <out> <seed> <tier>      tier: 0 quick, 1 thorough
//        ptr_driver c17 <out> <seed> <tier>
#include <cstdint>
static thread_local bool g_abort_flag = false;
#define RLBOX_CUSTOM_ABORT(msg) (g_abort_flag = true)
#include "rlbox.hpp"
#include "vm_sandbox.hpp"
#include "trace.hpp"

#include <algorithm>
#include <limits>
#include <memory>
#include <random>
#include <string>
#include <vector>

using namespace rlbox;
using W = __int128;
#if defined(ABI_LP16)
using Abi = vm_abi_lp16;
#elif defined(ABI_ILP64)
using Abi = vm_abi_ilp64; // int is 64 bits in the guest: indices read from sandbox memory narrow
#elif defined(ABI_LP64U)
using Abi = vm_abi_lp64u;
#else
using Abi = vm_abi_wasm32;
#endif
#if !defined(REGION_BITS)
#  define REGION_BITS 12
#endif
using Sbx = rlbox_vm_sandbox<Abi, REGION_BITS>;
using RS = rlbox_sandbox<Sbx>;
static const long SIZE = 1L << REGION_BITS;

static tr::Out out;
static RS* sb;
static uintptr_t BASE;

struct PS
{
  long a;
  char b;
  int* c;
  short d;
};
#define sandbox_fields_reflection_vlib_class_PS(f, g, ...)                                                             \
  f(long, a, FIELD_NORMAL, ##__VA_ARGS__) g() f(char, b, FIELD_NORMAL, ##__VA_ARGS__) g()                              \
    f(int*, c, FIELD_NORMAL, ##__VA_ARGS__) g() f(short, d, FIELD_NORMAL, ##__VA_ARGS__) g()
#define sandbox_fields_reflection_vlib_allClasses(f, ...) f(PS, vlib, ##__VA_ARGS__)
rlbox_load_structs_from_library(vlib);

// The harness' own statement of the guest size of each pointee used below, per guest ABI.
template<typename T>
struct GuestSize;
#define GS(T, N)                                                                                                       \
  template<>                                                                                                           \
  struct GuestSize<T>                                                                                                  \
  {                                                                                                                    \
    static constexpr long v = N;                                                                                       \
    static constexpr const char* name = #T;                                                                            \
  };
GS(char, 1)
GS(short, 2)
GS(unsigned short, 2)
GS(char16_t, 2)
GS(unsigned char, 1)
GS(long long, 8)
GS(double, 8)
using IntArr4 = int[4];
using IntArr2x3 = int[2][3];
using LongArr2x2 = long[2][2];
#if defined(ABI_LP16)
GS(IntArr2x3, 12)
GS(LongArr2x2, 16)
#elif defined(ABI_ILP64)
GS(IntArr2x3, 48)
GS(LongArr2x2, 32)
#elif defined(ABI_LP64U)
GS(IntArr2x3, 24)
GS(LongArr2x2, 32)
#else
GS(IntArr2x3, 24)
GS(LongArr2x2, 16)
#endif
#if defined(ABI_LP16)
GS(int, 2)
GS(long, 4)
GS(unsigned long, 4)
GS(int*, 2)
GS(int**, 2)
GS(PS, 12) // a@0 (4) b@4 (1) c@6 (2) d@8 (2), alignment 4
GS(IntArr4, 8)
#elif defined(ABI_ILP64)
GS(int, 8)
GS(long, 8)
GS(unsigned long, 8)
GS(int*, 8)
GS(int**, 8)
GS(PS, 32)
GS(IntArr4, 32)
#elif defined(ABI_LP64U)
GS(int, 4)
GS(long, 8)
GS(unsigned long, 8)
GS(int*, 8)
GS(int**, 8)
GS(PS, 32) // a@0 (8) b@8 (1) c@16 (8) d@24 (2), alignment 8
GS(IntArr4, 16)
#else
GS(int, 4)
GS(long, 4)
GS(unsigned long, 4)
GS(int*, 4)
GS(int**, 4)
GS(PS, 16)
GS(IntArr4, 16)
#endif

template<typename N>
struct NName;
#define NN(T, S)                                                                                                       \
  template<>                                                                                                           \
  struct NName<T>                                                                                                      \
  {                                                                                                                    \
    static constexpr const char* v = S;                                                                                \
  };
NN(int8_t, "i8")
NN(uint8_t, "u8")
NN(int16_t, "i16")
NN(uint16_t, "u16")
NN(int32_t, "i32")
NN(uint32_t, "u32")
// 64-bit operands are long long (int64_t is long, which the wasm32 ABI narrows to 32 bits:
// a tainted_volatile<long> cell could not even hold the operand)
using i64 = long long;
using u64 = unsigned long long;
NN(i64, "i64")
NN(u64, "u64")

template<typename T>
static tainted<T*, Sbx> ptr_at(long off)
{
  if (off < 0) {
    return tainted<T*, Sbx>(nullptr);
  }
  return sb->UNSAFE_accept_pointer(reinterpret_cast<T*>(BASE + off));
}
static W rel(const volatile void* p)
{
  return (W)reinterpret_cast<uintptr_t>(p) - (W)BASE;
}

// sparse operand values for operand type N, stride s, base offset `base`
template<typename N>
static std::vector<W> sparse_n(std::mt19937_64& rng, long s, long base, int nrand)
{
  std::vector<W> v;
  auto add = [&](W x) {
    if (x >= (W)std::numeric_limits<N>::min() && x <= (W)std::numeric_limits<N>::max()) {
      v.push_back(x);
    }
  };
  long b = base < 0 ? 0 : base;
  W nmaxp = (SIZE - 1 - b) / s, nmaxm = b / s;
  for (W c : { (W)0, nmaxp, -nmaxp, nmaxm, -nmaxm, (W)std::numeric_limits<N>::min(), (W)std::numeric_limits<N>::max() }) {
    for (int d = -2; d <= 2; d++) {
      add(c + d);
    }
  }
  // operands whose byte offset n*s is a multiple of 2^k (wraps at 2^32 / 2^64), +- one element
  for (int k : { 16, 31, 32, 33, 48, 62, 63, 64 }) {
    W q = ((W)1 << k) / s;
    for (W c : { q, -q, q + nmaxp, q - nmaxm, -q + nmaxp }) {
      add(c);
      add(c + 1);
      add(c - 1);
    }
  }
  for (int i = 0; i < nrand; i++) {
    add((W)(N)(rng() >> (rng() % 64)));
  }
  std::sort(v.begin(), v.end());
  v.erase(std::unique(v.begin(), v.end()), v.end());
  return v;
}

struct PtrRun
{
  std::string op, pt, nty, w;
  long base = 0, s = 0;
  bool open = false;
  W nlo = 0, nhi = 0, d = 0;
  int cls = -1;
  void flush()
  {
    if (!open) {
      return;
    }
    tr::Ev e("ptrrun");
    e.str("op", op).str("pt", pt).str("nty", nty).str("w", w).num("base", base).num("s", s).num("size", SIZE);
    e.wide("nlo", nlo).wide("nhi", nhi).str("cls", cls == 0 ? "ok" : "abort");
    if (cls == 0) {
      // d is small whenever the Contract can accept it; anything else is logged as -999999
      e.num("d", (d >= -100000 && d <= 100000) ? (long long)d : -999999);
    }
    out.put(e);
    open = false;
  }
  void add(W n, int c, W dd)
  {
    if (open && c == cls && n == nhi + 1 && (c == 1 || dd == d)) {
      nhi = n;
      return;
    }
    flush();
    open = true;
    nlo = nhi = n;
    cls = c;
    d = dd;
  }
};

// one binary operation p OP n; returns class and result address relative to the region
enum Op
{
  ADD,
  SUB,
  ADDEQ,
  SUBEQ,
  IDX,
  AIDX
};
static const char* OPN[] = { "+", "-", "+=", "-=", "[]", "&[]" };

template<typename T, typename NV>
static inline int do_op(Op op, tainted<T*, Sbx> p, const NV& n, W& r, bool& rnull)
{
  g_abort_flag = false;
  const volatile void* res = nullptr;
  switch (op) {
    case ADD:
      res = (p + n).UNSAFE_unverified();
      break;
    case SUB:
      res = (p - n).UNSAFE_unverified();
      break;
    case ADDEQ:
      p += n;
      res = p.UNSAFE_unverified();
      break;
    case SUBEQ:
      p -= n;
      res = p.UNSAFE_unverified();
      break;
    case IDX:
      res = std::addressof(p[n]);
      break;
    case AIDX:
      if constexpr (std::is_class_v<T>) {
        // operator& of a tainted_volatile struct does not compile (casts away const); measured as []
        res = std::addressof(p[n]);
      } else {
        res = (&p[n]).UNSAFE_unverified();
      }
      break;
  }
  rnull = res == nullptr;
  r = rel(res);
  return g_abort_flag ? 1 : 0;
}

template<typename T, typename N>
static void sweep(std::mt19937_64& rng, Op op, long base, int wrapper, bool exhaustive)
{
  const long s = GuestSize<T>::v;
  const int sgn = (op == SUB || op == SUBEQ) ? -1 : 1;
  auto p = ptr_at<T>(base);
  PtrRun run;
  run.op = OPN[op];
  run.pt = GuestSize<T>::name;
  run.nty = NName<N>::v;
  run.w = wrapper == 0 ? "P" : wrapper == 1 ? "T" : "V";
  run.base = base;
  run.s = s;
  // a cell in sandbox memory for the tainted_volatile operand
  static tainted<N*, Sbx> cell = sb->malloc_in_sandbox<N>();
  // an operand type the guest ABI narrows cannot be held by a tainted_volatile cell
  if (wrapper == 2 && sizeof(tainted_volatile<N, Sbx>) != sizeof(N)) {
    return;
  }
  auto one = [&](W x) {
    N n = (N)x;
    W r = 0;
    bool rnull = false;
    int c;
    if (wrapper == 0) {
      c = do_op<T>(op, p, n, r, rnull);
    } else if (wrapper == 1) {
      tainted<N, Sbx> tn = n;
      c = do_op<T>(op, p, tn, r, rnull);
    } else {
      *cell = n;
      c = do_op<T>(op, p, *cell, r, rnull);
    }
    if (base < 0) {
      // null base: single events (no runs)
      tr::Ev e("ptrop");
      e.str("op", OPN[op]).str("pt", GuestSize<T>::name).str("nty", NName<N>::v).str("w", run.w);
      e.num("base", -1).num("s", s).num("size", SIZE).wide("n", x).str("out", c ? "abort" : "ok");
      e.boolean("rnull", rnull).wide("r", rnull ? 0 : r + (W)BASE);
      out.put(e);
      return;
    }
    run.add(x, c, r - (W)sgn * x * s);
  };
  if (exhaustive) {
    for (W x = std::numeric_limits<N>::min();; x++) {
      one(x);
      if (x == (W)std::numeric_limits<N>::max()) {
        break;
      }
    }
  } else {
    for (W x : sparse_n<N>(rng, s, base, 6)) {
      one(x);
    }
  }
  run.flush();
}

template<typename T>
static void incdec(long base)
{
  const long s = GuestSize<T>::v;
  for (int which = 0; which < 4; which++) {
    auto p = ptr_at<T>(base);
    g_abort_flag = false;
    tainted<T*, Sbx> ret;
    switch (which) {
      case 0:
        ret = ++p;
        break;
      case 1:
        ret = p++;
        break;
      case 2:
        ret = --p;
        break;
      default:
        ret = p--;
        break;
    }
    static const char* names[] = { "++pre", "++post", "--pre", "--post" };
    tr::Ev e("ptrop");
    e.str("op", names[which]).str("pt", GuestSize<T>::name).str("nty", "i32").str("w", "P");
    e.num("base", base < 0 ? -1 : base).num("s", s).num("size", SIZE).wide("n", 1);
    e.str("out", g_abort_flag ? "abort" : "ok");
    const void* after = p.UNSAFE_unverified();
    e.boolean("rnull", after == nullptr).wide("r", after ? rel(after) : 0);
    const void* rv = ret.UNSAFE_unverified();
    e.wide("ret", rv ? rel(rv) : 0);
    out.put(e);
  }
}

// the prefix forms yield the operand itself: chained, and on a pointer that lives in sandbox memory
template<typename T>
static void incdec_more(long base)
{
  const long s = GuestSize<T>::v;
  static tainted<T**, Sbx> cellp = sb->malloc_in_sandbox<T*>();
  for (int which = 0; which < 4; which++) {
    // 0: ++(++p)   1: --(--p)   2: q = ++(*cell)   3: q = --(*cell)
    auto p = ptr_at<T>(base);
    g_abort_flag = false;
    tainted<T*, Sbx> ret;
    const void* after = nullptr;
    if (which == 0) {
      ret = ++(++p);
      after = p.UNSAFE_unverified();
    } else if (which == 1) {
      ret = --(--p);
      after = p.UNSAFE_unverified();
    } else {
      if (base == 0) {
        continue; // (offset 0 is the representation of null: not storable as a non-null pointer)
      }
      *cellp = p;
      if (which == 2) {
        ret = ++(*cellp);
      } else {
        ret = --(*cellp);
      }
      tainted<T*, Sbx> now = *cellp;
      after = now.UNSAFE_unverified();
    }
    tr::Ev e("ptrop");
    e.str("op", which % 2 == 0 ? "++pre" : "--pre").str("pt", GuestSize<T>::name).str("nty", "i32");
    e.str("w", which < 2 ? "P" : "V").num("base", base < 0 ? -1 : base).num("s", s).num("size", SIZE).wide("n", which < 2 ? 2 : 1);
    e.str("out", g_abort_flag ? "abort" : "ok");
    e.boolean("rnull", after == nullptr).wide("r", after ? rel(after) : 0);
    const void* rv = ret.UNSAFE_unverified();
    e.wide("ret", rv ? rel(rv) : 0);
    out.put(e);
  }
}

template<typename T>
static void c05_pointee(std::mt19937_64& rng, bool thorough, bool dense)
{
  const long s = GuestSize<T>::v;
  std::vector<long> bases = { 0, SIZE - s, SIZE / 2, -1 };
  for (long base : bases) {
    incdec<T>(base);
    if (base >= 0) {
      incdec_more<T>(base);
    }
    for (int op = 0; op < 6; op++) {
      for (int w = 0; w < 3; w++) {
        if (base >= 0 && dense && (w == 0 || thorough)) {
          sweep<T, int16_t>(rng, (Op)op, base, w, true);
          sweep<T, uint16_t>(rng, (Op)op, base, w, true);
          sweep<T, int8_t>(rng, (Op)op, base, w, true);
        } else {
          sweep<T, int16_t>(rng, (Op)op, base, w, false);
          sweep<T, uint8_t>(rng, (Op)op, base, w, false);
        }
        sweep<T, int32_t>(rng, (Op)op, base, w, false);
        sweep<T, uint32_t>(rng, (Op)op, base, w, false);
        sweep<T, i64>(rng, (Op)op, base, w, false);
        sweep<T, u64>(rng, (Op)op, base, w, false);
      }
    }
  }
  // a pointer in the last bytes of the region whose pointee would extend beyond them: the
  // arithmetic is about ADDRESSES (p +/- n*s inside the sandbox), also for p[n] / &p[n] on a
  // non-const pointer
  if (s > 1) {
    for (int op = 0; op < 6; op++) {
      sweep<T, int16_t>(rng, (Op)op, SIZE - 1, 0, false);
      sweep<T, int32_t>(rng, (Op)op, SIZE - s + 1, 1, false);
    }
  }
}

// ---------------------------------------------------------------- C17
struct IdxRun
{
  std::string kind, el, ity, w;
  long len = 0, es = 0;
  bool open = false;
  W ilo = 0, ihi = 0, d = 0;
  int cls = -1;
  void flush()
  {
    if (!open) {
      return;
    }
    tr::Ev e("idxrun");
    e.str("kind", kind).str("el", el).str("ity", ity).str("w", w).num("len", len).num("es", es);
    e.wide("ilo", ilo).wide("ihi", ihi).str("cls", cls == 0 ? "ok" : "abort");
    if (cls == 0) {
      e.num("d", (d >= -100000 && d <= 100000) ? (long long)d : -999999);
    }
    out.put(e);
    open = false;
  }
  void add(W i, int c, W dd)
  {
    if (open && c == cls && i == ihi + 1 && (c == 1 || dd == d)) {
      ihi = i;
      return;
    }
    flush();
    open = true;
    ilo = ihi = i;
    cls = c;
    d = dd;
  }
};

template<typename I>
static std::vector<W> sparse_idx(std::mt19937_64& rng, long len)
{
  std::vector<W> v;
  auto add = [&](W x) {
    if (x >= (W)std::numeric_limits<I>::min() && x <= (W)std::numeric_limits<I>::max()) {
      v.push_back(x);
    }
  };
  for (W c : { (W)0, (W)len, (W)std::numeric_limits<I>::min(), (W)std::numeric_limits<I>::max() }) {
    for (int d = -2; d <= 2; d++) {
      add(c + d);
    }
  }
  // values that alias a valid index after truncation to 8/16/32 bits
  for (int k : { 8, 16, 31, 32, 33, 63 }) {
    for (W valid : { (W)0, (W)(len - 1) }) {
      add(((W)1 << k) + valid);
      add(-((W)1 << k) + valid);
      add(((W)3 << k) + valid);
    }
  }
  for (int i = 0; i < 4; i++) {
    add((W)(I)(rng() >> (rng() % 64)));
  }
  std::sort(v.begin(), v.end());
  v.erase(std::unique(v.begin(), v.end()), v.end());
  return v;
}

template<typename Arr, typename I>
static void idx_sweep(std::mt19937_64& rng, Arr& arr, const char* kind, const char* el, long len, long es, int wrapper,
                      bool exhaustive)
{
  IdxRun run;
  run.kind = kind;
  run.el = el;
  run.ity = NName<I>::v;
  run.w = wrapper == 0 ? "P" : "T";
  run.len = len;
  run.es = es;
  auto one = [&](W x) {
    I i = (I)x;
    g_abort_flag = false;
    const volatile void* el_addr;
    if (wrapper == 0) {
      el_addr = std::addressof(arr[i]);
    } else {
      tainted<I, Sbx> ti = i;
      el_addr = std::addressof(arr[ti]);
    }
    W eoff = (W)reinterpret_cast<uintptr_t>(el_addr) - (W)reinterpret_cast<uintptr_t>(std::addressof(arr));
    run.add(x, g_abort_flag ? 1 : 0, eoff - x * es);
  };
  if (exhaustive) {
    for (W x = std::numeric_limits<I>::min();; x++) {
      one(x);
      if (x == (W)std::numeric_limits<I>::max()) {
        break;
      }
    }
  } else {
    for (W x : sparse_idx<I>(rng, len)) {
      one(x);
    }
  }
  run.flush();
}

#ifdef ABI_ILP64
// the index is tainted data IN SANDBOX MEMORY, where an int has 64 bits: unwrapping it narrows,
// so a wide value whose low bits alias a valid index must abort, not be truncated
template<typename Arr>
static void idx_sweep_cell(std::mt19937_64& rng, Arr& arr, const char* kind, const char* el, long len, long es)
{
  static tainted<int*, Sbx> pc = sb->malloc_in_sandbox<int>();
  int64_t* rawc = reinterpret_cast<int64_t*>(pc.UNSAFE_unverified());
  IdxRun run;
  run.kind = kind;
  run.el = el;
  run.ity = "i64";
  run.w = "V";
  run.len = len;
  run.es = es;
  for (W x : sparse_idx<i64>(rng, len)) {
    *rawc = (int64_t)x;
    g_abort_flag = false;
    const volatile void* el_addr = std::addressof(arr[*pc]);
    W eoff = (W)reinterpret_cast<uintptr_t>(el_addr) - (W)reinterpret_cast<uintptr_t>(std::addressof(arr));
    run.add(x, g_abort_flag ? 1 : 0, eoff - x * es);
  }
  run.flush();
}
#endif

template<typename T, size_t N>
static void c17_shape(std::mt19937_64& rng, bool thorough)
{
  const char* el = GuestSize<T>::name;
  // application memory: element size = host sizeof(T); sandbox memory: guest size
  tainted<T[N], Sbx> app_arr;
  auto parr = sb->malloc_in_sandbox<T[N]>();
  auto& vol_arr = *parr;
#ifdef ABI_ILP64
  idx_sweep_cell(rng, app_arr, "T", el, N, sizeof(T));
  idx_sweep_cell(rng, vol_arr, "V", el, N, GuestSize<T>::v);
#endif
  for (int w = 0; w < 2; w++) {
    idx_sweep<decltype(app_arr), int8_t>(rng, app_arr, "T", el, N, sizeof(T), w, true);
    idx_sweep<decltype(app_arr), uint8_t>(rng, app_arr, "T", el, N, sizeof(T), w, true);
    idx_sweep<decltype(vol_arr), int8_t>(rng, vol_arr, "V", el, N, GuestSize<T>::v, w, true);
    idx_sweep<decltype(vol_arr), uint8_t>(rng, vol_arr, "V", el, N, GuestSize<T>::v, w, true);
    bool ex16 = thorough || (w == 0 && (N == 1 || N == 16));
    idx_sweep<decltype(app_arr), int16_t>(rng, app_arr, "T", el, N, sizeof(T), w, ex16);
    idx_sweep<decltype(app_arr), uint16_t>(rng, app_arr, "T", el, N, sizeof(T), w, ex16);
    idx_sweep<decltype(vol_arr), int16_t>(rng, vol_arr, "V", el, N, GuestSize<T>::v, w, ex16);
    idx_sweep<decltype(vol_arr), uint16_t>(rng, vol_arr, "V", el, N, GuestSize<T>::v, w, ex16);
    idx_sweep<decltype(app_arr), int32_t>(rng, app_arr, "T", el, N, sizeof(T), w, false);
    idx_sweep<decltype(app_arr), uint32_t>(rng, app_arr, "T", el, N, sizeof(T), w, false);
    idx_sweep<decltype(app_arr), i64>(rng, app_arr, "T", el, N, sizeof(T), w, false);
    idx_sweep<decltype(app_arr), u64>(rng, app_arr, "T", el, N, sizeof(T), w, false);
    idx_sweep<decltype(vol_arr), int32_t>(rng, vol_arr, "V", el, N, GuestSize<T>::v, w, false);
    idx_sweep<decltype(vol_arr), uint32_t>(rng, vol_arr, "V", el, N, GuestSize<T>::v, w, false);
    idx_sweep<decltype(vol_arr), i64>(rng, vol_arr, "V", el, N, GuestSize<T>::v, w, false);
    idx_sweep<decltype(vol_arr), u64>(rng, vol_arr, "V", el, N, GuestSize<T>::v, w, false);
  }
}

template<typename T>
static void c17_elem(std::mt19937_64& rng, bool thorough)
{
  c17_shape<T, 1>(rng, thorough);
  c17_shape<T, 2>(rng, thorough);
  c17_shape<T, 3>(rng, thorough);
  c17_shape<T, 5>(rng, thorough);
  c17_shape<T, 8>(rng, thorough);
  c17_shape<T, 16>(rng, thorough);
  if (thorough) {
    c17_shape<T, 4>(rng, thorough);
    c17_shape<T, 7>(rng, thorough);
    c17_shape<T, 9>(rng, thorough);
    c17_shape<T, 15>(rng, thorough);
  }
}

// arrays longer than the range of a narrow index type: a negative 8-bit (16-bit) index that is
// merely converted to unsigned is smaller than the length
static void c17_long(std::mt19937_64& rng)
{
  static tainted<char[300], Sbx> app300;
  auto p300 = sb->malloc_in_sandbox<char[300]>();
  auto& vol300 = *p300;
  static tainted<short[40000], Sbx> app40k;
  for (int w = 0; w < 2; w++) {
    idx_sweep<decltype(app300), int8_t>(rng, app300, "T", "char", 300, 1, w, true);
    idx_sweep<decltype(app300), uint8_t>(rng, app300, "T", "char", 300, 1, w, true);
    idx_sweep<decltype(vol300), int8_t>(rng, vol300, "V", "char", 300, 1, w, true);
    idx_sweep<decltype(vol300), int16_t>(rng, vol300, "V", "char", 300, 1, w, true);
    idx_sweep<decltype(app300), int16_t>(rng, app300, "T", "char", 300, 1, w, true);
    idx_sweep<decltype(app300), i64>(rng, app300, "T", "char", 300, 1, w, false);
    idx_sweep<decltype(app40k), int16_t>(rng, app40k, "T", "short", 40000, sizeof(short), w, true);
    idx_sweep<decltype(app40k), uint16_t>(rng, app40k, "T", "short", 40000, sizeof(short), w, true);
    idx_sweep<decltype(app40k), int32_t>(rng, app40k, "T", "short", 40000, sizeof(short), w, false);
    idx_sweep<decltype(app40k), int8_t>(rng, app40k, "T", "short", 40000, sizeof(short), w, true);
  }
}

// arrays whose ELEMENTS are const-qualified (reached through a pointer-to-const-array): the
// element size in sandbox memory is still the guest size of the unqualified type
static void c17_const(std::mt19937_64& rng)
{
  auto pi = sb->malloc_in_sandbox<int[4]>();
  auto pl = sb->malloc_in_sandbox<long[3]>();
  auto pul = sb->malloc_in_sandbox<unsigned long[3]>();
  auto cpi = sandbox_const_cast<const int(*)[4]>(pi);
  auto cpl = sandbox_const_cast<const long(*)[3]>(pl);
  auto cpul = sandbox_const_cast<const unsigned long(*)[3]>(pul);
  auto& ci = *cpi;
  auto& cl = *cpl;
  auto& cul = *cpul;
  // (application-side tainted arrays of const elements cannot be constructed at all)
  for (int w = 0; w < 2; w++) {
    idx_sweep<decltype(ci), int16_t>(rng, ci, "V", "const int", 4, GuestSize<int>::v, w, true);
    idx_sweep<decltype(cl), int16_t>(rng, cl, "V", "const long", 3, GuestSize<long>::v, w, true);
    idx_sweep<decltype(cul), uint8_t>(rng, cul, "V", "const unsigned long", 3, GuestSize<unsigned long>::v, w, true);
    idx_sweep<decltype(ci), i64>(rng, ci, "V", "const int", 4, GuestSize<int>::v, w, false);
  }
}

// the first index of a multi-dimensional array designates a ROW: an array of the remaining extent,
// i rows from the start (what it designates has the row's size, not an element's)
template<typename A>
static void row_events(A& arr, const char* kind, int rows, int cols, long es)
{
  for (int i = 0; i < rows; i++) {
    auto& row = arr[i];
    tr::Ev e("row");
    e.str("kind", kind).num("rows", rows).num("cols", cols).num("es", es).num("i", i);
    e.num("bytes", (long long)sizeof(row));
    e.num("off", (long long)(reinterpret_cast<uintptr_t>(std::addressof(row)) - reinterpret_cast<uintptr_t>(std::addressof(arr))));
    out.put(e);
  }
}

static void c17_2d(std::mt19937_64& rng)
{
  // multi-dimensional shape: outer index selects a row (row size = 4 elements)
  tainted<int[3][4], Sbx> app2;
  auto p2 = sb->malloc_in_sandbox<int[3][4]>();
  auto& vol2 = *p2;
  for (int w = 0; w < 2; w++) {
    idx_sweep<decltype(app2), int16_t>(rng, app2, "T", "int[4]", 3, sizeof(int) * 4, w, true);
    idx_sweep<decltype(vol2), int16_t>(rng, vol2, "V", "int[4]", 3, GuestSize<IntArr4>::v, w, true);
    idx_sweep<decltype(app2), i64>(rng, app2, "T", "int[4]", 3, sizeof(int) * 4, w, false);
    idx_sweep<decltype(vol2), u64>(rng, vol2, "V", "int[4]", 3, GuestSize<IntArr4>::v, w, false);
    auto& row_app = app2[1];
    auto& row_vol = vol2[2];
    // (a row that is not a row cannot be indexed again: visible in the `row` events)
    if constexpr (sizeof(row_app) == sizeof(int) * 4) {
      idx_sweep<decltype(row_app), int16_t>(rng, row_app, "T", "int", 4, sizeof(int), w, true);
    }
    if constexpr (sizeof(row_vol) == GuestSize<IntArr4>::v) {
      idx_sweep<decltype(row_vol), int16_t>(rng, row_vol, "V", "int", 4, GuestSize<int>::v, w, true);
      idx_sweep<decltype(row_vol), u64>(rng, row_vol, "V", "int", 4, GuestSize<int>::v, w, false);
    }
  }
  row_events(app2, "T", 3, 4, sizeof(int));
  row_events(vol2, "V", 3, 4, GuestSize<int>::v);
  {
    tainted<short[4][2][5], Sbx> app3;
    auto p3 = sb->malloc_in_sandbox<short[4][2][5]>();
    row_events(app3, "T", 4, 10, sizeof(short));
    row_events(*p3, "V", 4, 10, GuestSize<short>::v);
  }
}

int main(int argc, char** argv)
{
  if (argc < 5) {
    return 2;
  }
  std::string mode = argv[1];
  if (!out.open(argv[2])) {
    return 2;
  }
  std::mt19937_64 rng(std::atoll(argv[3]));
  bool thorough = std::atoi(argv[4]) != 0;
  // a second and third live sandbox, so that "outside this sandbox" includes "inside another";
  // the sandbox under test is the first one created, or (SBX_LAST) the last
  RS sandbox;
  RS other1, other2;
#if defined(SBX_ALONE)
  // the sandbox under test is the only live sandbox of its type
  sandbox.create_sandbox();
#elif defined(SBX_LAST)
  other1.create_sandbox();
  other2.create_sandbox();
  sandbox.create_sandbox();
  // ... and the oldest one is gone again before anything is computed (not in creation order)
  other1.destroy_sandbox();
#else
  sandbox.create_sandbox();
  other1.create_sandbox();
  other2.create_sandbox();
#endif
  sb = &sandbox;
  BASE = sandbox.get_sandbox_impl()->base;
  if (mode == "c05") {
    c05_pointee<char>(rng, thorough, true);
    c05_pointee<int>(rng, thorough, true);
    c05_pointee<long>(rng, thorough, true);
    c05_pointee<PS>(rng, thorough, true);
    c05_pointee<int*>(rng, thorough, true);
    c05_pointee<IntArr2x3>(rng, thorough, false);
    c05_pointee<LongArr2x2>(rng, thorough, false);
    c05_pointee<short>(rng, thorough, thorough);
    c05_pointee<long long>(rng, thorough, thorough);
    c05_pointee<double>(rng, thorough, thorough);
    c05_pointee<int**>(rng, thorough, thorough);
    c05_pointee<IntArr4>(rng, thorough, thorough);
    c05_pointee<unsigned long>(rng, thorough, thorough);
  } else if (mode == "c17") {
    c17_elem<char>(rng, thorough);
    c17_elem<short>(rng, thorough);
    c17_elem<int>(rng, thorough);
    c17_elem<long>(rng, thorough);
    c17_elem<long long>(rng, thorough);
    c17_elem<int*>(rng, thorough);
    c17_shape<unsigned short, 5>(rng, thorough);
    c17_shape<char16_t, 3>(rng, thorough);
    c17_shape<unsigned char, 8>(rng, thorough);
    c17_2d(rng);
    c17_long(rng);
    c17_const(rng);
  } else {
    return 2;
  }
#if !defined(SBX_ALONE)
  other2.destroy_sandbox();
#  if !defined(SBX_LAST)
  other1.destroy_sandbox();
#  endif
#endif
  sandbox.destroy_sandbox();
  out.close();
  return 0;
}
