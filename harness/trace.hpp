#pragma once
// ndjson event writer for the conformance harness (DESIGN.md 4.3).
// Wide values (anything that may exceed 31 bits) are written as sign + little-endian
// base-256 digits: {"n":0|1,"d":[...]} so that TLC (32-bit ints) can do exact arithmetic.

#include <unistd.h>

#include <cinttypes>
#include <cstdint>
#include <cstdio>
#include <cstdlib>
#include <string>
#include <type_traits>

namespace tr {

struct Ev
{
  std::string s;
  bool first = true;
  explicit Ev(const char* e)
  {
    s = "{";
    str("e", e);
  }
  void key(const char* k)
  {
    if (!first) {
      s += ",";
    }
    first = false;
    s += "\"";
    s += k;
    s += "\":";
  }
  Ev& str(const char* k, const char* v)
  {
    key(k);
    s += "\"";
    for (const char* p = v; *p; p++) {
      if (*p == '"' || *p == '\\') {
        s += '\\';
      }
      s += *p;
    }
    s += "\"";
    return *this;
  }
  Ev& str(const char* k, const std::string& v) { return str(k, v.c_str()); }
  Ev& num(const char* k, long long v)
  {
    key(k);
    s += std::to_string(v);
    return *this;
  }
  Ev& boolean(const char* k, bool v)
  {
    key(k);
    s += v ? "true" : "false";
    return *this;
  }
  // exact wide integer (128-bit range), sign-magnitude, little-endian base 256
  Ev& wide(const char* k, __int128 v)
  {
    key(k);
    bool neg = v < 0;
    unsigned __int128 m = neg ? (unsigned __int128)(-(v + 1)) + 1 : (unsigned __int128)v;
    s += "{\"n\":";
    s += neg ? "1" : "0";
    s += ",\"d\":[";
    bool f = true;
    while (m != 0) {
      if (!f) {
        s += ",";
      }
      f = false;
      s += std::to_string((unsigned)(m & 0xff));
      m >>= 8;
    }
    s += "]}";
    return *this;
  }
  template<typename T>
  Ev& wideint(const char* k, T v)
  {
    static_assert(std::is_integral_v<T>);
    return wide(k, (__int128)v);
  }
  Ev& bytes(const char* k, const void* p, size_t n)
  {
    key(k);
    s += "[";
    auto b = static_cast<const unsigned char*>(p);
    for (size_t i = 0; i < n; i++) {
      if (i) {
        s += ",";
      }
      s += std::to_string((unsigned)b[i]);
    }
    s += "]";
    return *this;
  }
  Ev& raw(const char* k, const std::string& json)
  {
    key(k);
    s += json;
    return *this;
  }
  template<typename It>
  Ev& nums(const char* k, It b, It e)
  {
    key(k);
    s += "[";
    bool f = true;
    for (; b != e; ++b) {
      if (!f) {
        s += ",";
      }
      f = false;
      s += std::to_string((long long)*b);
    }
    s += "]";
    return *this;
  }
};

// the wide encoding as a JSON value of its own (for lists of wide values)
inline std::string wide_json(__int128 v)
{
  Ev e("x");
  size_t before = e.s.size();
  e.wide("v", v);
  size_t colon = e.s.find("\"v\":", before);
  return e.s.substr(colon + 4);
}

struct Out
{
  FILE* f = nullptr;
  unsigned long n = 0;
  bool open(const char* path)
  {
    f = std::fopen(path, "a"); // append mode: forked children may write to the same file
    if (f) {
      if (::ftruncate(fileno(f), 0) != 0) {
      }
    }
    return f != nullptr;
  }
  void put(Ev& e)
  {
    e.s += "}\n";
    std::fwrite(e.s.data(), 1, e.s.size(), f);
    n++;
  }
  void flush()
  {
    if (f) {
      std::fflush(f);
    }
  }
  void close()
  {
    if (f) {
      std::fclose(f);
      f = nullptr;
    }
  }
};

} // namespace tr
