// C20 conformance driver: opaque round trips and the three sandbox casts, each evaluated next
// to the plain C++ cast on the unwrapped value in this translation unit. Records result bits of
// both, and for pointers the sandbox address designated before and after.
//
// usage: cast_driver <out> <seed>
#define RLBOX_USE_EXCEPTIONS
#include "rlbox.hpp"
#include "vm_sandbox.hpp"
#include "trace.hpp"

#include <cstring>
#include <limits>
#include <memory>
#include <random>
#include <cmath>
#include <string>
#include <vector>

using namespace rlbox;
using W = __int128;
#if defined(ABI_LP16)
using Abi = vm_abi_lp16;
#define ABI_FOREIGN
#elif defined(ABI_LP64U)
using Abi = vm_abi_lp64u; // pointers as wide as the host's, but offsets from the sandbox base
#define ABI_FOREIGN
#else
using Abi = vm_abi_wasm32;
#endif
using Sbx = rlbox_vm_sandbox<Abi, 12>;
using RS = rlbox_sandbox<Sbx>;
static tr::Out out;
static RS* sb;
static uintptr_t BASE;

struct PS
{
  long a;
  char b;
  int* c;
  short d;
};
#define sandbox_fields_reflection_vlib_class_PS(f, g, ...)                                                             \
  f(long, a, FIELD_NORMAL, ##__VA_ARGS__) g() f(char, b, FIELD_NORMAL, ##__VA_ARGS__) g()                              \
    f(int*, c, FIELD_NORMAL, ##__VA_ARGS__) g() f(short, d, FIELD_NORMAL, ##__VA_ARGS__) g()
#define sandbox_fields_reflection_vlib_allClasses(f, ...) f(PS, vlib, ##__VA_ARGS__)
rlbox_load_structs_from_library(vlib);

template<typename T>
static W bits_of(T v)
{
  if constexpr (std::is_same_v<T, float>) {
    uint32_t b;
    std::memcpy(&b, &v, 4);
    return b;
  } else if constexpr (std::is_same_v<T, double>) {
    uint64_t b;
    std::memcpy(&b, &v, 8);
    return b;
  } else if constexpr (std::is_pointer_v<T>) {
    return v == nullptr ? -1 : (W)reinterpret_cast<uintptr_t>(v) - (W)BASE;
  } else {
    return (W)v;
  }
}
template<typename T>
static const char* tyname()
{
  return __PRETTY_FUNCTION__;
}

template<typename T>
static std::vector<T> values(std::mt19937_64& rng)
{
  std::vector<T> v;
  if constexpr (std::is_pointer_v<T>) {
    for (long off : { -1L, 0L, 8L, 2048L, 4092L, 4095L }) {
      v.push_back(off < 0 ? nullptr : reinterpret_cast<T>(BASE + off));
    }
  } else if constexpr (std::is_floating_point_v<T>) {
    v = { (T)0, (T)1.5, (T)-2.25e10, std::numeric_limits<T>::max(), std::numeric_limits<T>::denorm_min(), (T)70000.75,
          std::numeric_limits<T>::infinity(), -std::numeric_limits<T>::infinity(), (T)-0.0, std::numeric_limits<T>::quiet_NaN() };
    // signalling NaNs with payloads, built from their bits (a cast to the same type moves bits)
    if constexpr (sizeof(T) == 4) {
      for (uint32_t b : { 0x7FA00000u, 0xFFA00001u, 0x7F800001u }) {
        T x;
        std::memcpy(&x, &b, 4);
        v.push_back(x);
      }
    } else {
      for (uint64_t b : { 0x7FF4000000000000ull, 0xFFF4000000000001ull }) {
        T x;
        std::memcpy(&x, &b, 8);
        v.push_back(x);
      }
    }
  } else if constexpr (std::is_same_v<T, bool>) {
    v = { false, true };
  } else {
    v = { (T)0, (T)1, (T)-1, std::numeric_limits<T>::min(), std::numeric_limits<T>::max(), (T)0x5A, (T)0x1234, (T)70000,
          (T)0x7FFFFFFF, (T)0x80000000u, (T)0x123456789ALL };
    for (int i = 0; i < 6; i++) {
      v.push_back((T)(rng() >> (rng() % 64)));
    }
  }
  return v;
}

template<typename T>
static tainted<T, Sbx> mk_tainted(T v)
{
  if constexpr (std::is_pointer_v<T>) {
    return v == nullptr ? tainted<T, Sbx>(nullptr) : sb->UNSAFE_accept_pointer(v);
  } else {
    return tainted<T, Sbx>(v);
  }
}

// a tainted_volatile<T> cell in sandbox memory holding v (representable values only)
template<typename T>
static tainted_volatile<T, Sbx>* mk_volatile(T v)
{
  static tainted<T*, Sbx> c = sb->malloc_in_sandbox<T>();
  try {
    *c = mk_tainted<T>(v);
  } catch (const std::runtime_error&) {
    return nullptr;
  }
  return std::addressof(*c);
}

static void ev(const char* kind, const char* cast, const std::string& from, const std::string& to, const char* src, W in, W plain,
               W wrapped, bool isptr, const char* outc)
{
  tr::Ev e(kind);
  e.str("cast", cast).str("from", from).str("to", to).str("src", src).wide("in", in).wide("plain", plain).wide("wrapped", wrapped);
  e.boolean("ptr", isptr).str("out", outc);
  out.put(e);
}

#define TNAME(T) #T

// CAST: 0 static, 1 reinterpret, 2 const
template<int CAST, typename D, typename S>
static void cast_pair(std::mt19937_64& rng, const char* sname, const char* dname)
{
  for (S v : values<S>(rng)) {
    if constexpr (std::is_floating_point_v<S> && std::is_integral_v<D>) {
      if (!std::isfinite(v)) {
        continue; // (converting a NaN or an infinity to an integer has no defined result to compare with)
      }
    }
    D plain;
    if constexpr (CAST == 0) {
      plain = static_cast<D>(v);
    } else if constexpr (CAST == 1) {
      plain = reinterpret_cast<D>(v);
    } else {
      plain = const_cast<D>(v);
    }
    static const char* CN[] = { "static", "reinterpret", "const" };
    for (int src = 0; src < 2; src++) {
      W got = 0;
      const char* outc = "ok";
      try {
        if (src == 0) {
          tainted<S, Sbx> t = mk_tainted<S>(v);
          if constexpr (CAST == 0) {
            got = bits_of(sandbox_static_cast<D>(t).UNSAFE_unverified());
          } else if constexpr (CAST == 1) {
            got = bits_of(sandbox_reinterpret_cast<D>(t).UNSAFE_unverified());
          } else {
            got = bits_of(sandbox_const_cast<D>(t).UNSAFE_unverified());
          }
        } else {
          if constexpr (std::is_pointer_v<S>) {
            if (v != nullptr && reinterpret_cast<uintptr_t>(v) == BASE) {
              continue; // offset 0 is the representation of null: not storable as a non-null pointer
            }
          }
          auto* pv = mk_volatile<S>(v);
          if (pv == nullptr) {
            continue; // value not representable in sandbox memory
          }
          if constexpr (CAST == 0) {
            got = bits_of(sandbox_static_cast<D>(*pv).UNSAFE_unverified());
          } else if constexpr (CAST == 1) {
            got = bits_of(sandbox_reinterpret_cast<D>(*pv).UNSAFE_unverified());
          } else {
            got = bits_of(sandbox_const_cast<D>(*pv).UNSAFE_unverified());
          }
        }
      } catch (const std::runtime_error&) {
        outc = "abort";
      }
      ev("cast", CN[CAST], sname, dname, src == 0 ? "tainted" : "tainted_volatile", bits_of(v), bits_of(plain), got,
         std::is_pointer_v<D>, outc);
    }
  }
}

template<typename T>
static void opaque_roundtrip(std::mt19937_64& rng, const char* name)
{
  for (T v : values<T>(rng)) {
    tainted<T, Sbx> t = mk_tainted<T>(v);
    auto o = t.to_opaque();
    auto t2 = from_opaque(o);
    bool same_bytes = std::memcmp(&t, &t2, sizeof t) == 0 && sizeof(o) == sizeof(t);
    tr::Ev e("opaque");
    e.str("ty", name).wide("in", bits_of(v)).wide("back", bits_of(t2.UNSAFE_unverified())).boolean("same_bytes", same_bytes);
    out.put(e);
  }
}

// opaque values as callback results and invoke arguments: the guest must see what it sees for
// the tainted value they came from
extern "C" {
long call_cb(long);
long echo2(long, int*);
}
static uint32_t g_entry = 0;
static int32_t g_seen_ret = 0;
static int32_t g_call_cb(int32_t x)
{
  int32_t r = 0;
#ifndef ABI_FOREIGN
  Sbx::call_indirect<int32_t, int32_t>(g_entry, &r, x);
#endif
  g_seen_ret = r;
  return r;
}
static int32_t g_seen_a = 0;
static uint32_t g_seen_p = 0;
static int32_t g_echo2(int32_t a, uint32_t p)
{
  g_seen_a = a;
  g_seen_p = p;
  return a;
}
static long g_cb_value = 0;
static tainted_opaque<long, Sbx> cb_opaque(RS&, tainted_opaque<long, Sbx> x)
{
  (void)x;
  tainted<long, Sbx> t = g_cb_value;
  return t.to_opaque();
}
static tainted<long, Sbx> cb_tainted(RS&, tainted<long, Sbx> x)
{
  (void)x;
  return tainted<long, Sbx>(g_cb_value);
}

// a callback that RETURNS A POINTER into the sandbox, declared with the tainted and with the
// opaque form: the guest gets the representation of exactly that address
#ifndef ABI_FOREIGN
extern "C" {
long call_cbp(long);
}
static uint32_t g_cbp_entry = 0, g_cbp_seen = 0;
static bool g_cbp_trap = false;
static int32_t g_call_cbp(int32_t x)
{
  uint32_t r = 0xDEADBEEF;
  g_cbp_trap = !Sbx::call_indirect<uint32_t, int32_t>(g_cbp_entry, &r, x);
  g_cbp_seen = r;
  return 0;
}
static long g_cbp_off = 0;
static tainted<int*, Sbx> cbp_tainted(RS&, tainted<long, Sbx>)
{
  return g_cbp_off < 0 ? tainted<int*, Sbx>(nullptr) : sb->UNSAFE_accept_pointer(reinterpret_cast<int*>(BASE + g_cbp_off));
}
static tainted_opaque<int*, Sbx> cbp_opaque(RS&, tainted_opaque<long, Sbx>)
{
  tainted<int*, Sbx> t = g_cbp_off < 0 ? tainted<int*, Sbx>(nullptr) : sb->UNSAFE_accept_pointer(reinterpret_cast<int*>(BASE + g_cbp_off));
  return t.to_opaque();
}
#endif

int main(int argc, char** argv)
{
  if (argc < 3 || !out.open(argv[1])) {
    return 2;
  }
  std::mt19937_64 rng(std::atoll(argv[2]));
#ifndef ABI_FOREIGN
  static vm_library lib = { 1, { { "call_cb", (void*)&g_call_cb }, { "echo2", (void*)&g_echo2 }, { "call_cbp", (void*)&g_call_cbp } } };
#else
  static vm_library lib = { 1, { { "call_cb", (void*)&g_call_cb }, { "echo2", (void*)&g_echo2 } } };
#endif
  RS sandbox, other;
  other.create_sandbox(&lib);
  sandbox.create_sandbox(&lib);
  sb = &sandbox;
  BASE = sandbox.get_sandbox_impl()->base;
#define OP(T) opaque_roundtrip<T>(rng, #T);
  OP(bool) OP(char) OP(short) OP(int) OP(unsigned) OP(long) OP(unsigned long) OP(long long) OP(unsigned long long)
    OP(float) OP(double) OP(int*) OP(const char*) OP(void*) OP(int**)
  {
    // struct and array values: byte images
    tainted<PS, Sbx> s;
    s.a = 0x123456789L;
    s.b = 'x';
    s.c = sb->UNSAFE_accept_pointer(reinterpret_cast<int*>(BASE + 64));
    s.d = -5;
    auto o = s.to_opaque();
    auto s2 = from_opaque(o);
    tr::Ev e("opaque");
    e.str("ty", "struct PS").wide("in", 0).wide("back", 0).boolean("same_bytes", std::memcmp(&s, &s2, sizeof s) == 0);
    out.put(e);
    {
      // the opaque value is the value it was converted from, also when it is held by reference
      // while the source changes afterwards
      tainted<PS, Sbx> src = s;
      const auto& held = src.to_opaque();
      tainted<PS, Sbx> expect = src;
      src.a = 7;
      src.d = 9;
      auto back = from_opaque(held);
      tr::Ev e3("opaque");
      e3.str("ty", "struct PS (held by reference, source modified)").wide("in", 0).wide("back", 0);
      e3.boolean("same_bytes", std::memcmp(&expect, &back, sizeof expect) == 0);
      out.put(e3);
      tainted<long, Sbx> lsrc = 0x1234;
      const auto& lheld = lsrc.to_opaque();
      lsrc = 99;
      auto lback = from_opaque(lheld);
      tr::Ev e4("opaque");
      e4.str("ty", "long (held by reference, source modified)").wide("in", 0x1234).wide("back", lback.UNSAFE_unverified());
      e4.boolean("same_bytes", lback.UNSAFE_unverified() == 0x1234);
      out.put(e4);
    }
    {
      // ... and the tainted value obtained back is a value of its own: overwriting the opaque it
      // came from afterwards does not change it
      tainted<long, Sbx> lsrc = 0x2345;
      auto lo = lsrc.to_opaque();
      auto&& lback = from_opaque(lo);
      lo.set_zero();
      tr::Ev e5("opaque");
      e5.str("ty", "long (result held by reference, opaque overwritten)").wide("in", 0x2345).wide("back", lback.UNSAFE_unverified());
      e5.boolean("same_bytes", lback.UNSAFE_unverified() == 0x2345);
      out.put(e5);
      tainted<int*, Sbx> psrc = sb->UNSAFE_accept_pointer(reinterpret_cast<int*>(BASE + 64));
      auto po = psrc.to_opaque();
      const auto& pback = from_opaque(po);
      po.set_zero();
      tr::Ev e6("opaque");
      e6.str("ty", "int* (result held by reference, opaque overwritten)").wide("in", 64).wide("back", bits_of(pback.UNSAFE_unverified()));
      e6.boolean("same_bytes", pback.UNSAFE_unverified() == reinterpret_cast<int*>(BASE + 64));
      out.put(e6);
    }
#ifndef C20_NO_OPAQUE_ARRAY
    tainted<int[4], Sbx> arr;
    for (int i = 0; i < 4; i++) {
      arr[i] = i * 1000 - 7;
    }
    auto ao = arr.to_opaque();
    auto a2 = from_opaque(ao);
    tr::Ev e2("opaque");
    e2.str("ty", "int[4]").wide("in", 0).wide("back", 0).boolean("same_bytes", std::memcmp(&arr, &a2, sizeof arr) == 0);
    out.put(e2);
#endif
  }
  // opaque vs tainted through the boundary (the guest side below is written for wasm32)
#ifndef ABI_FOREIGN
  for (long off : { -1L, 8L, 128L, 4092L }) {
    for (int variant = 0; variant < 2; variant++) {
      g_cbp_off = off;
      g_cbp_seen = 0xDEADBEEF;
      const char* outc = "ok";
      try {
        if (variant == 0) {
          auto cb = sb->register_callback(cbp_tainted);
          g_cbp_entry = (uint32_t)cb.UNSAFE_sandboxed(*sb);
          sb->invoke_sandbox_function(call_cbp, 1L);
        } else {
          auto cb = sb->register_callback(cbp_opaque);
          g_cbp_entry = (uint32_t)cb.UNSAFE_sandboxed(*sb);
          sb->invoke_sandbox_function(call_cbp, 1L);
        }
      } catch (const std::runtime_error&) {
        outc = "abort";
      }
      tr::Ev e("cbptr");
      e.str("form", variant == 0 ? "tainted" : "opaque").str("out", g_cbp_trap ? "trap" : outc);
      e.wide("want", off < 0 ? 0 : off).wide("guest_saw", (W)g_cbp_seen);
      out.put(e);
    }
  }
  for (long v : { 0L, 1L, -1L, 2147483647L, -2147483648L, 2147483648L, -2147483649L, 70000L }) {
    for (int variant = 0; variant < 2; variant++) {
      g_cb_value = v;
      g_seen_ret = 123456;
      const char* outc = "ok";
      try {
        if (variant == 0) {
          auto cb = sb->register_callback(cb_tainted);
          g_entry = (uint32_t)cb.UNSAFE_sandboxed(*sb);
          sb->invoke_sandbox_function(call_cb, 1L);
        } else {
          auto cb = sb->register_callback(cb_opaque);
          g_entry = (uint32_t)cb.UNSAFE_sandboxed(*sb);
          sb->invoke_sandbox_function(call_cb, 1L);
        }
      } catch (const std::runtime_error&) {
        outc = "abort";
      }
      tr::Ev e("boundary");
      e.str("what", "callback-result").str("form", variant == 0 ? "tainted" : "opaque").wide("in", v).str("out", outc);
      e.wide("guest_saw", std::strcmp(outc, "ok") == 0 ? (W)g_seen_ret : 0);
      out.put(e);
    }
    for (int variant = 0; variant < 2; variant++) {
      g_seen_a = 123456;
      g_seen_p = 123456;
      const char* outc = "ok";
      try {
        tainted<long, Sbx> ta = v;
        tainted<int*, Sbx> tp = sb->UNSAFE_accept_pointer(reinterpret_cast<int*>(BASE + 128));
        if (variant == 0) {
          sb->invoke_sandbox_function(echo2, ta, tp);
        } else {
#ifdef C20_NO_OPAQUE_PTR_INVOKE
          // (the opaque pointer form was rejected by the compiler: reported as a form pair)
          sb->invoke_sandbox_function(echo2, ta.to_opaque(), tp);
#else
          sb->invoke_sandbox_function(echo2, ta.to_opaque(), tp.to_opaque());
#endif
        }
      } catch (const std::runtime_error&) {
        outc = "abort";
      }
      tr::Ev e("boundary");
      e.str("what", "invoke-arguments").str("form", variant == 0 ? "tainted" : "opaque").wide("in", v).str("out", outc);
      e.wide("guest_saw", std::strcmp(outc, "ok") == 0 ? (W)g_seen_a * 100000 + g_seen_p : 0);
      out.put(e);
    }
  }
#endif
  // pointers to function pointers (and to data pointers) are DATA pointers: their cells hold
  // offsets, whatever the backend does with function pointers themselves
  using FnPP = int (**)(int);
  using CFnPP = int (*const*)(int);
  using IntPPP = int***;
#define SC(D, S) cast_pair<0, D, S>(rng, #S, #D);
  SC(int, long) SC(long, int) SC(short, long long) SC(unsigned, int) SC(int, unsigned) SC(long long, unsigned long)
    SC(unsigned char, int) SC(bool, int) SC(double, int) SC(int, double) SC(float, double) SC(long, float) SC(float, float) SC(double, double) SC(double, float)
      SC(unsigned long, long) SC(char, unsigned long long) SC(int, char) SC(void*, int*) SC(const int*, int*)
#define RC(D, S) cast_pair<1, D, S>(rng, #S, #D);
  RC(char*, int*) RC(int*, char*) RC(void*, long*) RC(long*, void*) RC(const char*, int**) RC(int**, void*)
    RC(unsigned long long*, char*) RC(PS*, char*) RC(char*, PS*) RC(char*, FnPP) RC(FnPP, char*) RC(void*, FnPP)
      RC(FnPP, IntPPP) RC(IntPPP, FnPP)
#define CC(D, S) cast_pair<2, D, S>(rng, #S, #D);
  CC(int*, const int*) CC(const int*, int*) CC(char*, const char*) CC(const PS*, PS*) CC(void*, const void*)
    CC(FnPP, CFnPP) CC(CFnPP, FnPP) SC(void*, FnPP) SC(CFnPP, FnPP)
  sandbox.destroy_sandbox();
  other.destroy_sandbox();
  out.close();
  return 0;
}
