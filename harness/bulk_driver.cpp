// C10 conformance driver: records what the bulk memory operations do for every start
// address class and extent: outcome (ok / abort / null / fault), which bytes of the sandbox
// region changed, whether application buffers' red zones are intact, whether the operation
// had its effect. Exceptions build; faults in guard pages are caught and recorded.
//
// usage: bulk_driver <out> <seed> <tier>
#define RLBOX_USE_EXCEPTIONS
#include "rlbox.hpp"
#include "vm_sandbox.hpp"
#include "trace.hpp"

#include <csetjmp>
#include <csignal>
#include <sys/resource.h>

#include <cstring>
#include <memory>
#include <random>
#include <string>
#include <vector>

using namespace rlbox;
using W = __int128;
using Sbx = rlbox_vm_sandbox<vm_abi_wasm32, 12>;
using RS = rlbox_sandbox<Sbx>;
static const long SIZE = 4096;

static tr::Out out;
static RS* sb;
static RS* other;
static uintptr_t BASE;
static unsigned char* MEM;

static sigjmp_buf g_jmp;
static volatile sig_atomic_t g_in_guard = 0;
static void on_segv(int)
{
  if (g_in_guard) {
    siglongjmp(g_jmp, 1);
  }
  _exit(11);
}
template<typename F>
static const char* guarded(F f)
{
  g_in_guard = 1;
  const char* res = "ok";
  if (sigsetjmp(g_jmp, 1) == 0) {
    try {
      f();
    } catch (const std::runtime_error&) {
      res = "abort";
    } catch (const std::bad_alloc&) {
      res = "allocfail"; // "or fail allocation"
    } catch (const std::length_error&) {
      res = "allocfail";
    }
  } else {
    res = "fault";
  }
  g_in_guard = 0;
  return res;
}

// application buffer with red zones
struct AppBuf
{
  static const size_t RZ = 64;
  std::vector<unsigned char> store;
  size_t n;
  explicit AppBuf(size_t len)
    : store(len + 2 * RZ, 0xCD)
    , n(len)
  {
    for (size_t i = 0; i < len; i++) {
      store[RZ + i] = (unsigned char)(i * 7 + 1);
    }
  }
  unsigned char* data() { return store.data() + RZ; }
  bool zones_ok() const
  {
    for (size_t i = 0; i < RZ; i++) {
      if (store[i] != 0xCD || store[RZ + n + i] != 0xCD) {
        return false;
      }
    }
    return true;
  }
};

static std::vector<unsigned char> g_before;
static void snap()
{
  g_before.assign(MEM, MEM + SIZE);
}
static void diff(long& tmin, long& tmax, long& tcount)
{
  tmin = -1;
  tmax = -1;
  tcount = 0;
  for (long i = 0; i < SIZE; i++) {
    if (g_before[i] != MEM[i]) {
      if (tmin < 0) {
        tmin = i;
      }
      tmax = i;
      tcount++;
    }
  }
}
static void fill(std::mt19937_64& rng)
{
  for (long i = 0; i < SIZE; i++) {
    MEM[i] = (unsigned char)(0x80 | (rng() & 0x3F)); // never 0x00 / 0x5A / 0x33 so effects are visible
  }
}

template<typename T>
static tainted<T*, Sbx> ptr_at(long off)
{
  if (off < 0) {
    return tainted<T*, Sbx>(nullptr);
  }
  return sb->UNSAFE_accept_pointer(reinterpret_cast<T*>(BASE + off));
}

struct Ev
{
  tr::Ev e;
  Ev(const char* op, const char* variant)
    : e("bulk")
  {
    e.str("op", op).str("variant", variant).num("size", SIZE);
  }
  // a range the operation was given: side "sbx" (start = offset, -1 null) or "app"/"straddle"/"other"
  std::string ranges = "[";
  void range(const char* side, long start, W bytes)
  {
    tr::Ev r("x");
    r.s = "{";
    r.first = true;
    r.str("side", side).num("start", start).wide("bytes", bytes);
    ranges += std::string(ranges.size() > 1 ? "," : "") + r.s + "}";
  }
  void finish(const char* outc, bool zones, bool effect, long dst_start)
  {
    long tmin, tmax, tcount;
    diff(tmin, tmax, tcount);
    e.raw("ranges", ranges + "]").str("out", outc).num("tmin", tmin).num("tmax", tmax).num("tcount", tcount);
    e.boolean("zones", zones).boolean("effect", effect).num("dst", dst_start);
    out.put(e);
  }
};

static std::vector<W> extents(bool thorough)
{
  std::vector<W> v;
  for (W x = 0; x <= SIZE + 2; x += (thorough ? 1 : 61)) {
    v.push_back(x);
  }
  for (W x : { (W)1, (W)2, (W)7, (W)8, (W)SIZE - 1, (W)SIZE, (W)SIZE + 1, (W)SIZE + 2, (W)2047, (W)2048, (W)2049 }) {
    v.push_back(x);
  }
  for (int k : { 31, 32, 63 }) {
    for (int d = -1; d <= 1; d++) {
      v.push_back(((W)1 << k) + d);
    }
  }
  for (int d = 1; d <= 9; d += 4) {
    v.push_back(((W)1 << 64) - d);
  }
  return v;
}
static const std::vector<long> STARTS = { 0, 1, 8, 2048, SIZE - 8, SIZE - 1, -1 };

static void op_memset(std::mt19937_64& rng, bool thorough)
{
  for (long st : STARTS) {
    for (W x : extents(thorough)) {
      for (int variant = 0; variant < 2; variant++) {
        if (variant > 0 && (x % 61 != 0 && x > 16 && x < ((W)1 << 31))) {
          continue;
        }
        fill(rng);
        snap();
        size_t n = (size_t)x;
        Ev ev("memset", variant == 0 ? "plain-num" : variant == 1 ? "tainted-num" : "volatile-ptr");
        ev.range("sbx", st, x);
        const char* r = guarded([&] {
          auto p = ptr_at<char>(st);
          if (variant == 0) {
            rlbox::memset(*sb, p, 0x5A, n);
          } else {
            // (a tainted_volatile pointer cannot be passed: its copy constructor is private)
            tainted<size_t, Sbx> tn = n;
            rlbox::memset(*sb, p, tainted<int, Sbx>(0x5A), tn);
          }
        });
        bool effect = true;
        if (std::strcmp(r, "ok") == 0 && st >= 0 && x <= SIZE - st) {
          for (W i = 0; i < x; i++) {
            effect = effect && MEM[st + (long)i] == 0x5A;
          }
        }
        ev.finish(r, true, effect, st);
      }
    }
  }
}

static void op_memcpy(std::mt19937_64& rng, bool thorough)
{
  // dest in sandbox; src: app buffer | tainted src | raw pointer straddling the region start / end |
  // raw pointer into another sandbox
  for (long st : STARTS) {
    for (W x : extents(thorough)) {
      size_t n = (size_t)x;
      for (int variant = 0; variant < 6; variant++) {
        if (variant >= 2 && (x > SIZE + 2 || (x % 61 != 0 && x > 16))) {
          continue;
        }
        fill(rng);
        size_t blen = x <= SIZE + 2 ? (size_t)x : 16;
        AppBuf ab(blen);
        long src_off = st < 2048 ? 3000 : 100; // tainted source far from dest
        snap();
        static const char* VN[] = { "app-src", "app-src/tainted-num", "tainted-src", "straddle-start-src",
                                    "straddle-end-src", "other-sandbox-src" };
        Ev ev("memcpy", VN[variant]);
        ev.range("sbx", st, x);
        const unsigned char* raw_src = nullptr;
        if (variant <= 1) {
          ev.range("app", 0, x);
        } else if (variant == 2) {
          ev.range("sbx", src_off, x);
        } else if (variant == 3) {
          if (x <= 4) {
            continue; // wholly inside the (unreadable) guard page: not a meaningful request
          }
          ev.range("straddle", -4, x); // starts 4 bytes before the region and runs into it
          raw_src = reinterpret_cast<const unsigned char*>(BASE - 4);
        } else if (variant == 4) {
          // raw pointer to the last 4 bytes: inside for x <= 4, straddling the end beyond
          ev.range(x <= 4 ? "sbx" : "straddle", SIZE - 4, x);
          raw_src = reinterpret_cast<const unsigned char*>(BASE + SIZE - 4);
        } else {
          ev.range(16 + x <= SIZE ? "other" : "straddle", 16, x); // wholly inside the other sandbox, or leaving it
          raw_src = reinterpret_cast<const unsigned char*>(other->get_sandbox_impl()->base + 16);
        }
        const char* r = guarded([&] {
          auto d = ptr_at<unsigned char>(st);
          if (variant == 0) {
            rlbox::memcpy(*sb, d, ab.data(), n);
          } else if (variant == 1) {
            tainted<size_t, Sbx> tn = n;
            rlbox::memcpy(*sb, d, ab.data(), tn);
          } else if (variant == 2) {
            rlbox::memcpy(*sb, d, ptr_at<unsigned char>(src_off), n);
          } else {
            rlbox::memcpy(*sb, d, raw_src, n);
          }
        });
        bool effect = true;
        if (std::strcmp(r, "ok") == 0 && st >= 0 && x <= SIZE - st && variant <= 1) {
          effect = std::memcmp(MEM + st, ab.data(), n) == 0;
        }
        ev.finish(r, ab.zones_ok(), effect, st);
      }
    }
  }
}

static void op_memcmp(std::mt19937_64& rng, bool thorough)
{
  for (long st : STARTS) {
    for (W x : extents(thorough)) {
      if (x > SIZE + 2 && x < ((W)1 << 63)) {
        continue;
      }
      size_t n = (size_t)x;
      fill(rng);
      size_t blen = x <= SIZE + 2 ? (size_t)x : 16;
      AppBuf ab(blen);
      if (st >= 0 && x <= SIZE - st) {
        std::memcpy(MEM + st, ab.data(), n);
      }
      snap();
      Ev ev("memcmp", "app-src");
      ev.range("sbx", st, x);
      ev.range("app", 0, x);
      int res = 99;
      const char* r = guarded([&] {
        auto d = ptr_at<unsigned char>(st);
        res = rlbox::memcmp(*sb, d, ab.data(), n).UNSAFE_unverified();
      });
      ev.finish(r, ab.zones_ok(), std::strcmp(r, "ok") != 0 || res == 0, st);
    }
  }
}

template<typename T, long GS>
static void op_range(std::mt19937_64& rng, bool thorough, const char* tname)
{
  for (long st : STARTS) {
    if (st > 0 && st % GS != 0 && st != SIZE - 1) {
      continue;
    }
    for (W cnt : extents(thorough)) {
      if (cnt > SIZE + 2 && cnt < ((W)1 << 31)) {
        continue;
      }
      size_t n = (size_t)cnt;
      fill(rng);
      snap();
      // (a) copy_and_verify_range
      {
        Ev ev("copy_and_verify_range", tname);
        ev.range("sbx", st, cnt * GS);
        bool effect = true;
        const char* r = guarded([&] {
          auto p = ptr_at<T>(st);
          p.copy_and_verify_range(
            [&](std::unique_ptr<T[]> v) {
              if (v && st >= 0) {
                for (size_t i = 0; i < n && i < 4096; i++) {
                  // element i must decode the guest bytes at st + i*GS
                  long long g = 0;
                  std::memcpy(&g, MEM + st + i * GS, GS);
                  if (GS < 8 && std::is_signed_v<T> && (g >> (GS * 8 - 1)) & 1) {
                    g |= ~0ULL << (GS * 8);
                  }
                  effect = effect && (long long)v[i] == g;
                }
              }
              return 0;
            },
            n);
        });
        // a null start returns a null buffer to the verifier without touching anything
        ev.e.boolean("nullstart", st < 0);
        ev.finish(r, true, effect, st);
      }
      // (b) unverified_safe_pointer_because: the count of whole elements handed back
      {
        Ev ev("unverified_safe_pointer_because", tname);
        long hs = (long)sizeof(T);
        // the caller receives a T* and walks it with host-sized elements: "that many whole
        // elements" are elements of the pointer type handed back
        ev.range("sbx", st, cnt * hs);
        ev.e.wide("bytes_max", cnt * (GS < hs ? hs : GS));
        const void* got = nullptr;
        const char* r = guarded([&] { got = ptr_at<T>(st).unverified_safe_pointer_because(n, "test"); });
        ev.e.boolean("nullstart", st < 0);
        ev.finish(r, true, std::strcmp(r, "ok") != 0 || got == (st < 0 ? nullptr : (const void*)(BASE + st)), st);
      }
    }
  }
}

static void op_buffer_address(std::mt19937_64& rng, bool thorough)
{
  for (long st : STARTS) {
    for (W x : extents(thorough)) {
      if (x > SIZE + 2 && x < ((W)1 << 31)) {
        continue;
      }
      fill(rng);
      snap();
      Ev ev("copy_and_verify_buffer_address", "char");
      ev.range("sbx", st, x);
      uintptr_t got = 1;
      const char* r = guarded([&] {
        got = ptr_at<char>(st).copy_and_verify_buffer_address([](uintptr_t v) { return v; }, (size_t)x);
      });
      ev.e.boolean("nullstart", st < 0);
      ev.finish(r, true, std::strcmp(r, "ok") != 0 || got == (st < 0 ? 0 : BASE + st), st);
    }
  }
}

// adversary for the string copies: once RLBox has measured and range-checked the string, the
// sandbox overwrites its terminator (inside the range that was given)
static long g_drop_nul_at = -1;
static void drop_nul_hook(const char* point, size_t)
{
  if (g_drop_nul_at >= 0 && std::strcmp(point, "string:after-check") == 0) {
    MEM[g_drop_nul_at] = 'X';
  }
}

static void op_string(std::mt19937_64& rng)
{
  // strings of every length that end inside, exactly at the last byte, or run to the end
  // of the region without a terminator
  for (long st : { 0L, 100L, SIZE - 40, SIZE - 2, SIZE - 1 }) {
    for (long len = 0; len <= 45; len++) {
      for (int variant = 0; variant < 4; variant++) {
        // variants 2, 3: the same two calls with the adversary above (terminated strings only)
        bool adversary = variant >= 2;
        fill(rng);
        bool unterminated = st + len >= SIZE;
        if (adversary && unterminated) {
          continue;
        }
        for (long i = 0; i < len && st + i < SIZE; i++) {
          MEM[st + i] = 'a' + (i % 26);
        }
        if (!unterminated) {
          MEM[st + len] = 0;
        }
        snap();
        static const char* SV[] = { "unique_ptr", "std::string", "unique_ptr+terminator-dropped", "std::string+terminator-dropped" };
        Ev ev("copy_and_verify_string", SV[variant]);
        std::vector<unsigned char> want(MEM + st, MEM + st + (unterminated ? 0 : len));
        g_drop_nul_at = adversary ? st + len : -1;
        rlbox::detail::verif_yield_hook = drop_nul_hook;
        // the range given is strlen+1 bytes; an unterminated string extends past the region
        ev.range("sbx", st, unterminated ? (W)(SIZE - st + 1) : (W)(len + 1));
        bool effect = true;
        const char* r = guarded([&] {
          auto p = ptr_at<char>(st);
          if (variant % 2 == 0) {
            p.copy_and_verify_string([&](std::unique_ptr<char[]> s) {
              effect = s && (long)std::strlen(s.get()) == len && std::memcmp(s.get(), want.data(), len) == 0;
              return 0;
            });
          } else {
            p.copy_and_verify_string([&](std::string s) {
              effect = (long)s.size() == len && std::memcmp(s.data(), want.data(), len) == 0;
              return 0;
            });
          }
        });
        rlbox::detail::verif_yield_hook = nullptr;
        g_drop_nul_at = -1;
        if (adversary && !unterminated) {
          MEM[st + len] = 0; // the adversary's write is not RLBox's: not part of the diff
        }
        ev.finish(r, true, std::strcmp(r, "ok") != 0 || effect, st);
      }
    }
  }
}

static void op_grant_deny(std::mt19937_64& rng, bool thorough)
{
  // copy_memory_or_grant_access: application buffer -> freshly allocated sandbox memory
  for (W x : extents(thorough)) {
    if (x > SIZE + 2 && x < ((W)1 << 31)) {
      continue;
    }
    if (x == 0) {
      continue; // zero-length malloc aborts in the allocator wrapper: covered by the zero-length rule below
    }
    fill(rng);
    sb->get_sandbox_impl()->bump = 8;
    size_t blen = x <= SIZE + 2 ? (size_t)x : 16;
    AppBuf ab(blen);
    snap();
    Ev ev("copy_memory_or_grant_access", "char");
    bool copied = false;
    const char* got = nullptr;
    const char* r = guarded([&] {
      auto t = copy_memory_or_grant_access(*sb, (char*)ab.data(), (size_t)x, false, copied);
      got = t.UNSAFE_unverified();
    });
    long dst = got ? (long)(reinterpret_cast<uintptr_t>(got) - BASE) : -1;
    ev.range("sbx", dst >= 0 && dst < SIZE ? dst : 8, x); // where the allocator would place / placed it
    ev.range("app", 0, x);
    const char* outc = r;
    if (std::strcmp(r, "ok") == 0 && got == nullptr) {
      outc = "null"; // allocation failed
    }
    bool effect = true;
    if (std::strcmp(outc, "ok") == 0 && dst >= 0 && x <= SIZE - dst) {
      effect = copied && std::memcmp(MEM + dst, ab.data(), (size_t)x) == 0;
    }
    ev.finish(outc, ab.zones_ok(), effect, dst >= 0 ? dst : 8);
  }
  // the same with an allocator (sandbox code!) that hands out a block whose LAST element starts
  // inside the region and ends beyond it: the copy into it must not proceed
  for (auto ac : { std::pair<long, long>{ SIZE - 4, 1 }, { SIZE - 7, 1 }, { SIZE - 8, 1 }, { SIZE - 12, 2 }, { SIZE - 16, 2 } }) {
    const long at = ac.first, cnt = ac.second, nbytes = 8 * ac.second;
    fill(rng);
    AppBuf ab(16);
    snap();
    Ev ev("copy_memory_or_grant_access", "double/allocator-at-the-end");
    bool copied = false;
    const char* got = nullptr;
    sb->get_sandbox_impl()->malloc_override = true;
    sb->get_sandbox_impl()->malloc_override_val = (Sbx::T_PointerType)at;
    const char* r = guarded([&] {
      auto t = copy_memory_or_grant_access(*sb, (double*)ab.data(), (size_t)cnt, false, copied);
      got = (const char*)t.UNSAFE_unverified();
    });
    sb->get_sandbox_impl()->malloc_override = false;
    ev.range("sbx", at, nbytes);
    ev.range("app", 0, nbytes);
    const char* outc = r;
    if (std::strcmp(r, "ok") == 0 && got == nullptr) {
      outc = "null";
    }
    bool effect = true;
    if (std::strcmp(outc, "ok") == 0 && at + nbytes <= SIZE) {
      effect = copied && std::memcmp(MEM + at, ab.data(), nbytes) == 0;
    }
    ev.finish(outc, ab.zones_ok(), effect, at);
  }
  // copy_memory_or_deny_access: sandbox buffer -> freshly allocated application memory; on the
  // backend variant with the grant / deny interface a second pass in which the backend ACCEPTS:
  // the raw pointer handed back stands for `count` whole elements inside the sandbox
#ifdef VM_GRANT_DENY
  const int npass = 2;
#else
  const int npass = 1;
#endif
  for (int pass = 0; pass < npass; pass++)
  for (long st : STARTS) {
    for (W x : extents(thorough)) {
      if (x > SIZE + 2 || x == 0) {
        continue; // (extents beyond the region make the driver's own malloc fail or huge: not meaningful)
      }
      for (int variant = 0; variant < 4; variant++) {
        static const char* VN[] = { "char", "char16_t", "float", "double" };
        static const long ES[] = { 1, 2, 4, 8 };
        long es = ES[variant];
        if (variant >= 1 && st > 0 && st % 2 != 0) {
          continue;
        }
        if (variant >= 2 && x > 600 && x < SIZE - 4) {
          continue; // (wide elements: the small and the boundary counts)
        }
        fill(rng);
        snap();
        Ev ev("copy_memory_or_deny_access", (std::string(VN[variant]) + (pass == 1 ? "/deny accepted" : "")).c_str());
        ev.range("sbx", st, x * es);
        bool copied = false;
        void* got = nullptr;
#ifdef VM_GRANT_DENY
        Sbx::deny_mode = pass;
#endif
        const char* r = guarded([&] {
          if (variant == 0) {
            got = copy_memory_or_deny_access(*sb, ptr_at<char>(st), (size_t)x, false, copied);
          } else if (variant == 1) {
            got = copy_memory_or_deny_access(*sb, ptr_at<char16_t>(st), (size_t)x, false, copied);
          } else if (variant == 2) {
            got = copy_memory_or_deny_access(*sb, ptr_at<float>(st), (size_t)x, false, copied);
          } else {
            got = copy_memory_or_deny_access(*sb, ptr_at<double>(st), (size_t)x, false, copied);
          }
        });
#ifdef VM_GRANT_DENY
        Sbx::deny_mode = 0;
#endif
        bool effect = true;
        bool in_region = got != nullptr && reinterpret_cast<uintptr_t>(got) >= BASE && reinterpret_cast<uintptr_t>(got) < BASE + SIZE;
        if (std::strcmp(r, "ok") == 0 && got != nullptr && st >= 0 && x * es <= SIZE - st) {
          effect = pass == 1 ? (!copied && got == MEM + st) : (copied && std::memcmp(got, MEM + st, (size_t)(x * es)) == 0);
        }
        ev.e.boolean("nullstart", st < 0);
        if (!in_region) {
          std::free(got); // (a buffer inside the region is the sandbox's own memory handed back)
        }
        ev.finish(r, true, effect, st);
      }
    }
  }
}

int main(int argc, char** argv)
{
  if (argc < 4 || !out.open(argv[1])) {
    return 2;
  }
  std::mt19937_64 rng(std::atoll(argv[2]));
  bool thorough = std::atoi(argv[3]) != 0;
  {
    // a range check that wrongly lets a huge element count through makes RLBox allocate (and
    // zero) that many elements: keep such an allocation a clean failure instead of an OOM kill
    struct rlimit rl = { 3ull << 30, 3ull << 30 };
    setrlimit(RLIMIT_AS, &rl);
  }
  struct sigaction sa;
  std::memset(&sa, 0, sizeof sa);
  sa.sa_handler = on_segv;
  sa.sa_flags = SA_NODEFER;
  sigaction(SIGSEGV, &sa, nullptr);
  sigaction(SIGBUS, &sa, nullptr);
  RS o1, sandbox;
  o1.create_sandbox();
  sandbox.create_sandbox();
  sb = &sandbox;
  other = &o1;
  BASE = sandbox.get_sandbox_impl()->base;
  MEM = sandbox.get_sandbox_impl()->mem();
#ifdef VM_GRANT_DENY
  // the variant with the grant / deny interface only repeats the operations that use it
  op_grant_deny(rng, thorough);
  o1.destroy_sandbox();
  sandbox.destroy_sandbox();
  out.close();
  return 0;
#endif
  op_memset(rng, thorough);
  op_memcpy(rng, thorough);
  op_memcmp(rng, thorough);
  op_range<char, 1>(rng, thorough, "char");
  op_range<short, 2>(rng, thorough, "short");
  op_range<long, 4>(rng, thorough, "long");
  op_range<long long, 8>(rng, thorough, "long long");
  op_range<unsigned long, 4>(rng, thorough, "unsigned long");
  op_buffer_address(rng, thorough);
  op_string(rng);
  op_grant_deny(rng, thorough);
  // the same range checks with exactly ONE sandbox of this type alive (nothing else on the list)
  o1.destroy_sandbox();
  other = nullptr;
  op_memset(rng, thorough);
  op_range<long, 4>(rng, thorough, "long");
  op_range<char, 1>(rng, thorough, "char");
  op_buffer_address(rng, thorough);
  sandbox.destroy_sandbox();
  out.close();
  return 0;
}
