// C18, the library's OWN locks: the thread driver replaces RLBox's lock macros by a cooperative
// scheduler (the custom-lock seam), so it never executes RLBOX_ACQUIRE_*_GUARD as the library
// defines them.  This driver keeps the defaults (std::shared_timed_mutex and the library's guard
// macros) and asks, at every access to the list of live sandboxes reported by the
// RLBOX_VERIF_EVENT hook, whether writers of the list are really excluded at that moment: a helper
// thread creates and destroys a sandbox of its own (which needs the list exclusively) and must
// not get through before the reporting thread has left its guarded scope.
// usage: lock_driver <out>
#define RLBOX_USE_EXCEPTIONS
#if defined(BK_DYLIB)
// the bundled dylib backend with a statically linked "guest" (static calls), like the no-op one;
// argv[2] is a library to open (only a handle here)
#  define BK_NOOP
#  define harness_static_lookup(func_name) reinterpret_cast<void*>(&func_name)
#  define RLBOX_USE_STATIC_CALLS() harness_static_lookup
#elif defined(BK_NOOP)
#  define RLBOX_USE_STATIC_CALLS() rlbox_noop_sandbox_lookup_symbol
#endif
#include "rlbox.hpp"
#if defined(BK_DYLIB)
#  include "rlbox_dylib_sandbox.hpp"
#elif defined(BK_NOOP)
#  include "rlbox_noop_sandbox.hpp"
#else
#  include "vm_sandbox.hpp"
#endif
#include "trace.hpp"

#include <atomic>
#include <chrono>
#include <map>
#include <memory>
#include <string>
#include <thread>
#include <vector>

using namespace rlbox;
#if defined(BK_DYLIB)
using Sbx = rlbox_dylib_sandbox;
#elif defined(BK_NOOP)
using Sbx = rlbox_noop_sandbox;
#else
using Sbx = rlbox_vm_sandbox<vm_abi_wasm32, 12, true, 4>; // finder-based: lookups walk the list
#endif
using RS = rlbox_sandbox<Sbx>;

static tr::Out out;
static const char* g_dylib_path = "";
static void create(RS& s)
{
#if defined(BK_DYLIB)
  s.create_sandbox(g_dylib_path);
#else
  s.create_sandbox();
#endif
}
#if defined(BK_NOOP)
// a "guest" function that calls back once, and the callback: it sees the sandbox it belongs to
extern "C" int lock_guest_call(int (*cb)(int), int x) { return cb(x) + 1; }
static thread_local const void* g_cb_saw = nullptr;
static tainted<int, Sbx> lock_cb(RS& s, tainted<int, Sbx> x)
{
  g_cb_saw = &s;
  return x + 100;
}
// one invocation with a callback; "ok" iff the result is right and the callback saw this sandbox
static const char* invoke_once(RS& s)
{
  auto cb = s.register_callback(lock_cb);
  g_cb_saw = nullptr;
  int v = s.invoke_sandbox_function(lock_guest_call, cb, 7).UNSAFE_unverified();
  cb.unregister();
  return (v == 108 && g_cb_saw == &s) ? "ok" : "wrong";
}
#endif
static std::string g_phase;
static std::thread::id g_main;
static std::vector<std::thread> g_helpers;
static std::map<std::string, int> g_budget;

// Is the calling thread, right now, excluding writers of the live-sandbox list? Another thread
// tries to create (and destroy) a sandbox of its own - which needs the list lock exclusively -
// and must not get through while the caller is inside its guarded scope. Behavioural on purpose:
// it does not depend on how the library represents or names its lock.
static bool helper_gets_through(int wait_ms)
{
  auto done = std::make_shared<std::atomic<bool>>(false);
  g_helpers.emplace_back([done] {
    try {
      RS tmp;
      create(tmp);
      tmp.destroy_sandbox();
    } catch (...) {
    }
    done->store(true);
  });
  for (int i = 0; i < wait_ms && !done->load(); i++) {
    std::this_thread::sleep_for(std::chrono::milliseconds(1));
  }
  return done->load();
}
static void join_helpers()
{
  for (auto& t : g_helpers) {
    t.join();
  }
  g_helpers.clear();
}

static void on_list_event(const char* kind, const void* ptr)
{
  (void)ptr;
  if (std::this_thread::get_id() != g_main) {
    return; // (the helper's own list accesses)
  }
  if (g_budget[g_phase + kind]++ >= 2) {
    return;
  }
  bool through = helper_gets_through(150);
  tr::Ev e("lockprobe");
  e.str("kind", kind).str("phase", g_phase).str("needs", std::string(kind) == "list-visit" ? "shared" : "unique").boolean("held", !through);
  out.put(e);
}

int main(int argc, char** argv)
{
  if (argc < 2 || !out.open(argv[1])) {
    return 2;
  }
  if (argc > 2) {
    g_dylib_path = argv[2];
  }
  g_main = std::this_thread::get_id();
  // outside every operation nobody holds the lock: the helper must get through (otherwise the
  // probe could never tell anything on this machine: exit code 3, reported as broken machinery)
  {
    bool free_now = helper_gets_through(5000);
    join_helpers();
    tr::Ev e("lockfree");
    e.boolean("free", free_now);
    out.put(e);
    if (!free_now) {
      out.close();
      return 3;
    }
  }
  detail::verif_event_hook = on_list_event;
  std::vector<std::unique_ptr<RS>> sbs;
  for (int round = 0; round < 3; round++) {
    g_phase = "create";
    for (int i = 0; i < 3; i++) {
      sbs.push_back(std::make_unique<RS>());
      create(*sbs.back());
      join_helpers();
    }
    g_phase = "use";
    for (auto& s : sbs) {
      try {
        auto p = s->malloc_in_sandbox<int*>();   // pointer cells: example-based lookups walk the list
        auto q = s->malloc_in_sandbox<int>();
        *p = q;
        tainted<int*, Sbx> back = *p;
        (void)back;
        auto pa = p + 1;
        (void)pa;
        s->free_in_sandbox(q);
        s->free_in_sandbox(p);
      } catch (const std::runtime_error&) {
      }
      join_helpers();
    }
    g_phase = "destroy";
    // not in creation order
    for (int i : { 1, 0, 2 }) {
      sbs[i]->destroy_sandbox();
      join_helpers();
    }
    sbs.clear();
    g_budget.clear();
  }
  detail::verif_event_hook = nullptr;
  // hand-off: sandboxes created by this thread (a pool set up in advance) are used and destroyed
  // by OTHER threads, one thread per sandbox, while this thread keeps one for itself
  {
    std::vector<std::unique_ptr<RS>> pool;
    std::vector<std::string> use(4, "-"), destroy(4, "-"), warm(4, "-");
    for (int i = 0; i < 4; i++) {
      pool.push_back(std::make_unique<RS>());
      create(*pool.back());
#if defined(BK_NOOP)
      // ... after the creating thread has used each of them once (an invocation with a callback)
      try {
        warm[i] = invoke_once(*pool.back());
      } catch (const std::runtime_error&) {
        warm[i] = "abort";
      }
#endif
    }
    auto work = [&](int i) {
      try {
#if defined(BK_NOOP)
        for (int k = 0; k < 3; k++) {
          if (std::string(invoke_once(*pool[i])) != "ok") {
            throw std::logic_error("wrong");
          }
        }
#endif
        auto p = pool[i]->malloc_in_sandbox<int*>();
        auto q = pool[i]->malloc_in_sandbox<int>();
        *p = q;
        tainted<int*, Sbx> back = *p;
        bool same = back.UNSAFE_unverified() == q.UNSAFE_unverified();
        pool[i]->free_in_sandbox(q);
        pool[i]->free_in_sandbox(p);
        use[i] = same ? "ok" : "wrong";
      } catch (const std::logic_error&) {
        use[i] = "wrong";
      } catch (const std::runtime_error&) {
        use[i] = "abort";
      }
      try {
        pool[i]->destroy_sandbox();
        destroy[i] = "ok";
      } catch (const std::runtime_error&) {
        destroy[i] = "abort";
      }
    };
    std::vector<std::thread> workers;
    for (int i = 1; i < 4; i++) {
      workers.emplace_back(work, i);
    }
    work(0);
    for (auto& t : workers) {
      t.join();
    }
    for (int i = 0; i < 4; i++) {
      tr::Ev e("handoff");
      e.num("i", i).boolean("other_thread", i != 0).str("warm", warm[i]).str("use", use[i]).str("destroy", destroy[i]);
      out.put(e);
    }
  }
  {
    bool free_now = helper_gets_through(5000);
    join_helpers();
    tr::Ev e("lockfree");
    e.boolean("free", free_now);
    out.put(e);
  }
  out.close();
  return 0;
}
