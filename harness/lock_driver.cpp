// C18, the library's OWN locks: the thread driver replaces RLBox's lock macros by a cooperative
// scheduler (the custom-lock seam), so it never executes RLBOX_ACQUIRE_*_GUARD as the library
// defines them.  This driver keeps the defaults (std::shared_timed_mutex and the library's guard
// macros) and asks, at every access to the list of live sandboxes reported by the
// RLBOX_VERIF_EVENT hook, whether the list lock is really held in the required mode: a helper
// thread tries to take the lock in the conflicting mode and must fail.
//   list-push / list-erase  (writers)  : a shared try-lock from another thread must fail
//   list-visit              (readers)  : a unique try-lock from another thread must fail
// usage: lock_driver <out>
#define RLBOX_USE_EXCEPTIONS
#if defined(BK_NOOP)
#  define RLBOX_USE_STATIC_CALLS() rlbox_noop_sandbox_lookup_symbol
#endif
#include "rlbox.hpp"
#if defined(BK_NOOP)
#  include "rlbox_noop_sandbox.hpp"
#else
#  include "vm_sandbox.hpp"
#endif
#include "trace.hpp"

#include <memory>
#include <shared_mutex>
#include <string>
#include <thread>
#include <vector>

using namespace rlbox;
#if defined(BK_NOOP)
using Sbx = rlbox_noop_sandbox;
#else
using Sbx = rlbox_vm_sandbox<vm_abi_wasm32, 12, true, 4>; // finder-based: lookups walk the list
#endif
using RS = rlbox_sandbox<Sbx>;

// access to the private static list lock (explicit instantiation may name private members)
template<typename Tag, typename Tag::type M>
struct Rob
{
  friend typename Tag::type get(Tag) { return M; }
};
struct ListLockTag
{
  using type = std::shared_timed_mutex*;
  friend type get(ListLockTag);
};
template struct Rob<ListLockTag, &RS::sandbox_list_lock>;

static tr::Out out;
static std::string g_phase;
static void on_list_event(const char* kind, const void* ptr)
{
  std::shared_timed_mutex* m = get(ListLockTag{});
  bool writer = std::string(kind) != "list-visit";
  bool conflicting_lock_taken = false;
  std::thread probe([&] {
    if (writer) {
      if (m->try_lock_shared()) {
        conflicting_lock_taken = true;
        m->unlock_shared();
      }
    } else {
      if (m->try_lock()) {
        conflicting_lock_taken = true;
        m->unlock();
      }
    }
  });
  probe.join();
  tr::Ev e("lockprobe");
  e.str("kind", kind).str("phase", g_phase).str("needs", writer ? "unique" : "shared").boolean("held", !conflicting_lock_taken);
  out.put(e);
  (void)ptr;
}

int main(int argc, char** argv)
{
  if (argc < 2 || !out.open(argv[1])) {
    return 2;
  }
  detail::verif_event_hook = on_list_event;
  // outside every operation nobody holds the lock (the probe itself can succeed)
  {
    std::shared_timed_mutex* m = get(ListLockTag{});
    bool free_now = m->try_lock();
    if (free_now) {
      m->unlock();
    }
    tr::Ev e("lockfree");
    e.boolean("free", free_now);
    out.put(e);
  }
  std::vector<std::unique_ptr<RS>> sbs;
  for (int round = 0; round < 3; round++) {
    g_phase = "create";
    for (int i = 0; i < 3; i++) {
      sbs.push_back(std::make_unique<RS>());
      sbs.back()->create_sandbox();
    }
    g_phase = "use";
    for (auto& s : sbs) {
      try {
        auto p = s->malloc_in_sandbox<int*>();   // pointer cells: example-based lookups walk the list
        auto q = s->malloc_in_sandbox<int>();
        *p = q;
        tainted<int*, Sbx> back = *p;
        (void)back;
        auto pa = p + 1;
        (void)pa;
        s->free_in_sandbox(q);
        s->free_in_sandbox(p);
      } catch (const std::runtime_error&) {
      }
    }
    g_phase = "destroy";
    // not in creation order
    for (int i : { 1, 0, 2 }) {
      sbs[i]->destroy_sandbox();
    }
    sbs.clear();
  }
  {
    std::shared_timed_mutex* m = get(ListLockTag{});
    bool free_now = m->try_lock();
    if (free_now) {
      m->unlock();
    }
    tr::Ev e("lockfree");
    e.boolean("free", free_now);
    out.put(e);
  }
  out.close();
  return 0;
}
