// C18 conformance driver: distinct sandboxes on distinct threads under a deterministic
// cooperative scheduler. Exactly one worker thread runs at a time; at every synchronisation
// point (custom-lock acquire/release through the RLBOX_USE_CUSTOM_SHARED_LOCK seam, accesses to
// the live-sandbox list reported by RLBOX_VERIF_EVENT, backend creation / destruction, a yield
// inside the guest function, the callback body, begin / end of every API call) the worker parks
// and the controller decides who performs the next step - from a schedule (TLC-emitted or
// seeded random). The controller logs each step as it grants it: the log IS the execution order.
// A dumb executor: the logical lock state kept here only decides who may run (a real lock would
// block); whether accesses were properly guarded is judged by TLC on the log.
//
// usage: thr_driver <schedules.txt> <out> ; schedule line: "sched <nthreads> <seed> t1 t2 t1 ..."
#include <condition_variable>
#include <cstdint>
#include <mutex>
#include <set>
#include <string>
#include <thread>
#include <vector>

namespace hs {
struct HLock
{
  void lock();
  void unlock();
  void lock_shared();
  void unlock_shared();
};
template<bool Unique>
struct HGuard
{
  HLock& l;
  explicit HGuard(HLock& a_l)
    : l(a_l)
  {
    if (Unique) {
      l.lock();
    } else {
      l.lock_shared();
    }
  }
  ~HGuard()
  {
    if (Unique) {
      l.unlock();
    } else {
      l.unlock_shared();
    }
  }
};
}
#define RLBOX_USE_CUSTOM_SHARED_LOCK
#define RLBOX_SHARED_LOCK(name) hs::HLock name
#define RLBOX_ACQUIRE_SHARED_GUARD(name, ...) hs::HGuard<false> name(__VA_ARGS__)
#define RLBOX_ACQUIRE_UNIQUE_GUARD(name, ...) hs::HGuard<true> name(__VA_ARGS__)
#define RLBOX_USE_EXCEPTIONS
#if defined(TLS_EMBEDDER)
// the per-thread records of the backend are provided by the embedder (this harness)
#  define RLBOX_EMBEDDER_PROVIDES_TLS_STATIC_VARIABLES
#  define VM_EMBEDDER_TLS
#endif
#if defined(BK_DYLIB)
// the bundled dylib backend with a statically linked "guest" (static calls), like the no-op one
#  define BK_NOOP
#  define harness_static_lookup(func_name) reinterpret_cast<void*>(&func_name)
#  define RLBOX_USE_STATIC_CALLS() harness_static_lookup
#elif defined(BK_NOOP)
#  define RLBOX_USE_STATIC_CALLS() rlbox_noop_sandbox_lookup_symbol
#endif
#include "rlbox.hpp"
#if defined(BK_DYLIB)
#  include "rlbox_dylib_sandbox.hpp"
#elif defined(BK_NOOP)
#  include "rlbox_noop_sandbox.hpp"
#else
#  include "vm_sandbox.hpp"
#endif
#include "trace.hpp"

#include <fstream>
#include <iostream>
#include <memory>
#include <random>
#include <sstream>
#include <unistd.h>

using namespace rlbox;
#if defined(BK_DYLIB)
using Sbx = rlbox_dylib_sandbox;
#elif defined(BK_NOOP)
using Sbx = rlbox_noop_sandbox;
#else
using Sbx = rlbox_vm_sandbox<vm_abi_wasm32, 12, true, 4>;
#endif
using RS = rlbox_sandbox<Sbx>;
#if defined(TLS_EMBEDDER)
#  if defined(BK_DYLIB)
RLBOX_DYLIB_SANDBOX_STATIC_VARIABLES();
#  elif defined(BK_NOOP)
RLBOX_NOOP_SANDBOX_STATIC_VARIABLES();
#  else
static thread_local vm_thread_data<Sbx> g_vm_tls;
namespace rlbox {
template<>
vm_thread_data<Sbx>* vm_get_thread_data<Sbx>()
{
  return &g_vm_tls;
}
}
#  endif
#endif

static tr::Out out;
static const int MAXT = 16;
static const char* g_dylib_path = "";

// ---------------------------------------------------------------- scheduler
struct Pending
{
  std::string k;   // event kind
  std::string s;   // sandbox name concerned
  std::string op;  // for begin / end
  std::string res; // for end / guest / cb
  const void* lock = nullptr;
};
enum St
{
  IDLE,
  PARKED,
  RUNNING,
  DONE
};
struct Worker
{
  St st = IDLE;
  Pending p;
  std::thread th;
};
static std::mutex g_m;
static std::condition_variable g_cv;
static Worker g_w[MAXT];
static int g_n = 0;
static thread_local int g_me = -1;
static bool g_free_run = false; // outside scheduled sections (setup / teardown)
// logical state of the registry lock (decides who may be granted an acquire)
static int g_writer = -1;
static std::set<int> g_readers;
static std::unique_ptr<RS> g_sb[MAXT];

static std::string tname(int t) { return "t" + std::to_string(t + 1); }
static std::string sb_of(const void* p)
{
  for (int i = 0; i < g_n; i++) {
    if (g_sb[i] && (p == g_sb[i].get() || p == g_sb[i]->get_sandbox_impl())) {
      return tname(i);
    }
  }
  return "?";
}
static bool is_registry_lock(const void* l)
{
  // per-instance locks live inside a sandbox object; the process-wide list lock does not
  for (int i = 0; i < g_n; i++) {
    auto b = reinterpret_cast<uintptr_t>(g_sb[i].get());
    auto a = reinterpret_cast<uintptr_t>(l);
    if (g_sb[i] && a >= b && a < b + sizeof(RS)) {
      return false;
    }
  }
  return true;
}

static bool g_extended = false;
static thread_local bool g_quiet = false; // inside an extra observation: not a scheduling point
static void sync(Pending p)
{
  if (g_free_run || g_me < 0 || g_quiet) {
    return;
  }
  std::unique_lock<std::mutex> lk(g_m);
  g_w[g_me].p = std::move(p);
  g_w[g_me].st = PARKED;
  g_cv.notify_all();
  g_cv.wait(lk, [] { return g_w[g_me].st == RUNNING; });
}

namespace hs {
void HLock::lock()
{
  if (is_registry_lock(this)) {
    sync({ "acq_unique", "", "", "", this });
  } else if (g_extended) {
    sync({ "ilock", "", "", "", this }); // a per-instance lock: a point where another thread may run
  }
}
void HLock::unlock()
{
  if (is_registry_lock(this)) {
    sync({ "rel_unique", "", "", "", this });
  } else if (g_extended) {
    sync({ "ilock", "", "", "", this }); // a per-instance lock: a point where another thread may run
  }
}
void HLock::lock_shared()
{
  if (is_registry_lock(this)) {
    sync({ "acq_shared", "", "", "", this });
  } else if (g_extended) {
    sync({ "ilock", "", "", "", this }); // a per-instance lock: a point where another thread may run
  }
}
void HLock::unlock_shared()
{
  if (is_registry_lock(this)) {
    sync({ "rel_shared", "", "", "", this });
  } else if (g_extended) {
    sync({ "ilock", "", "", "", this }); // a per-instance lock: a point where another thread may run
  }
}
}

static bool enabled(int t)
{
  const Pending& p = g_w[t].p;
  if (p.k == "acq_unique") {
    return g_writer < 0 && g_readers.empty();
  }
  if (p.k == "acq_shared") {
    return g_writer < 0;
  }
  return true;
}

static void grant(int t)
{
  Pending& p = g_w[t].p;
  if (p.k == "acq_unique") {
    g_writer = t;
  } else if (p.k == "rel_unique") {
    if (g_writer == t) {
      g_writer = -1;
    }
  } else if (p.k == "acq_shared") {
    g_readers.insert(t);
  } else if (p.k == "rel_shared") {
    g_readers.erase(t);
  }
  tr::Ev e("step");
  e.str("t", tname(t)).str("k", p.k).str("s", p.s.empty() ? tname(t) : p.s);
  if (!p.op.empty()) {
    e.str("op", p.op);
  }
  if (p.k == "end") {
    e.str("res", p.res);
  } else if (p.k == "guest") {
    e.str("cur", p.res);
  } else if (p.k == "cb") {
    e.str("sbref", p.res);
  }
  out.put(e);
  g_w[t].st = RUNNING;
}

// ---------------------------------------------------------------- the per-thread program
extern "C" {
int yield_fn(int (*cb)(int), int x);
int yield_fn2(int (*cb)(int), int x); // a second name of the same library (result marked with +500)
}
// (g_extended: free-running (random) schedules run a longer program - each thread invokes BOTH names
// within one incarnation of its sandbox, in an order that depends on the thread - and may also be
// switched at the operations of per-instance locks)
#if defined(BK_NOOP)
// statically linked "guest": yields to the scheduler, then calls the callback it was given
extern "C" int yield_fn(int (*cb)(int), int x)
{
  sync({ "guest", "", "", g_me >= 0 ? tname(g_me) : "?", nullptr }); // (the executing sandbox is not observable here)
  return (g_me + 1) * 1000 + cb(x);
}
extern "C" int yield_fn2(int (*cb)(int), int x)
{
  sync({ "guest", "", "", g_me >= 0 ? tname(g_me) : "?", nullptr });
  return (g_me + 1) * 1000 + 500 + cb(x);
}
static void make_libs(std::integer_sequence<int>) {}
template<int... I>
static void make_libs(std::integer_sequence<int, I...>)
{
}
#else
template<int L>
static int32_t g_yield_fn(uint32_t cb_entry, int32_t x)
{
  Sbx* cur = Sbx::current_sandbox();
  sync({ "guest", "", "", sb_of(cur), nullptr });
  int32_t ret = 0;
  Sbx::call_indirect<int32_t, int32_t>(cb_entry, &ret, x);
  return L * 1000 + ret;
}
template<int L>
static int32_t g_yield_fn2(uint32_t cb_entry, int32_t x)
{
  Sbx* cur = Sbx::current_sandbox();
  sync({ "guest", "", "", sb_of(cur), nullptr });
  int32_t ret = 0;
  Sbx::call_indirect<int32_t, int32_t>(cb_entry, &ret, x);
  return L * 1000 + 500 + ret;
}
static vm_library g_libs[MAXT];
template<int... I>
static void make_libs(std::integer_sequence<int, I...>)
{
  ((g_libs[I] = vm_library{ I + 1, { { "yield_fn", (void*)&g_yield_fn<I + 1> }, { "yield_fn2", (void*)&g_yield_fn2<I + 1> } } }), ...);
}
#endif

static tainted<int, Sbx> app_cb(RS& sandbox, tainted<int, Sbx> x)
{
  sync({ "cb", "", "", sb_of(&sandbox), nullptr });
  return x;
}

static void worker_main(int t, int rounds)
{
  g_me = t;
  {
    std::unique_lock<std::mutex> lk(g_m);
    g_w[t].p = { "start", "", "", "", nullptr };
    g_w[t].st = PARKED;
    g_cv.notify_all();
    g_cv.wait(lk, [t] { return g_w[t].st == RUNNING; });
  }
  RS& sb = *g_sb[t];
  for (int r = 0; r < rounds; r++) {
    static const std::vector<const char*> BASIC = { "create", "lookup", "invoke", "lookup", "destroy" };
    static const std::vector<const char*> EXTENDED = { "create", "lookup", "invoke", "lookup", "invoke", "destroy" };
    int ninvoke = 0;
    for (const char* op : (g_extended ? EXTENDED : BASIC)) {
      std::string o = op;
      sync({ "begin", "", o, "", nullptr });
      std::string res = "ok";
      try {
        if (o == "create") {
#if defined(BK_NOOP)
          // the backend has no creation / destruction of its own: reported around the calls
#  if defined(BK_DYLIB)
          sb.create_sandbox(g_dylib_path); // (the library is only a handle here: calls are static)
          res = "ok";
#  else
          res = sb.create_sandbox() ? "ok" : "false";
#  endif
#else
          res = sb.create_sandbox(&g_libs[t]) ? "ok" : "false";
#endif
        } else if (o == "destroy") {
          sb.destroy_sandbox();
        } else if (o == "lookup") {
#if defined(BK_NOOP)
          res = tname(t); // identity translation: nothing to look up
#else
          uintptr_t base = sb.get_sandbox_impl()->base;
          int* p = RS::get_unsandboxed_pointer_no_ctx<int*>(8, reinterpret_cast<const void*>(base + 16));
          res = "?";
          if (reinterpret_cast<uintptr_t>(p) == base + 8) {
            res = tname(t); // (a destroyed instance of another thread may have had the same base earlier)
          } else {
            for (int i = 0; i < g_n; i++) {
              if (g_sb[i] && g_sb[i]->get_sandbox_impl()->base != 0 &&
                  reinterpret_cast<uintptr_t>(p) == g_sb[i]->get_sandbox_impl()->base + 8) {
                res = tname(i);
              }
            }
          }
          // the same lookup for a FUNCTION pointer: on this backend its translation is an entry of
          // the table of the instance the lookup found (an instance-specific answer even when two
          // instances have had the same base address, one after the other)
          using FnT = int (*)(int);
          g_quiet = true; // (runs within this step: the Model's lookup is one walk of the list)
          FnT fp = RS::get_unsandboxed_pointer_no_ctx<FnT>(1, reinterpret_cast<const void*>(base + 16));
          g_quiet = false;
          std::string fres = "?";
          for (int i = 0; i < g_n; i++) {
            if (g_sb[i] && reinterpret_cast<const void*>(fp) == static_cast<const void*>(&g_sb[i]->get_sandbox_impl()->table[1])) {
              fres = tname(i);
            }
          }
          if (fres != res) {
            res = "fn:" + fres + "/data:" + res;
          }
#endif
        } else {
          auto cb = sb.register_callback(app_cb);
          // which of the two names: threads start with different ones and swap for the second call
          bool second = g_extended && ((t + ninvoke) % 2 == 1);
          ninvoke++;
          int v = second ? sb.invoke_sandbox_function(yield_fn2, cb, 7).UNSAFE_unverified()
                         : sb.invoke_sandbox_function(yield_fn, cb, 7).UNSAFE_unverified();
          cb.unregister();
          // the named function of this thread's own library ran: lib * 1000 (+ 500 for the second name) + callback result
          res = (v % 1000 == (second ? 507 : 7)) ? tname(v / 1000 - 1) : "badret";
        }
      } catch (const std::runtime_error& ex) {
        res = std::string("abort");
      }
      sync({ "end", "", o, res, nullptr });
    }
  }
  std::unique_lock<std::mutex> lk(g_m);
  g_w[t].st = DONE;
  g_cv.notify_all();
}

static void list_hook(const char* kind, const void* ptr)
{
  std::string k = kind;
  sync({ k == "list-push" ? "push" : k == "list-erase" ? "erase" : "visit", sb_of(ptr), "", "", nullptr });
}
#if !defined(BK_NOOP)
static void backend_hook(const char* what, Sbx* self)
{
  sync({ std::string(what) == "created" ? "backend_created" : "backend_destroying", sb_of(self), "", "", nullptr });
}
#endif

int main(int argc, char** argv)
{
  if (argc < 3) {
    return 2;
  }
  std::ifstream in(argv[1]);
  if (argc > 3) {
    g_dylib_path = argv[3];
  }
  if (!in || !out.open(argv[2])) {
    return 2;
  }
  make_libs(std::make_integer_sequence<int, MAXT>{});
  detail::verif_event_hook = list_hook;
#if !defined(BK_NOOP)
  Sbx::keep_base_after_destroy = true; // a destroyed instance still "recognises" its old range
  Sbx::event_hook = backend_hook;
#endif
  std::string line;
  while (std::getline(in, line)) {
    std::istringstream is(line);
    std::string tag;
    int n, rounds;
    unsigned long seed;
    is >> tag >> n >> rounds >> seed;
    if (tag != "sched" || n < 1 || n > MAXT) {
      continue;
    }
    std::vector<int> sched;
    std::string tok;
    while (is >> tok) {
      sched.push_back(std::atoi(tok.c_str() + 1) - 1);
    }
    std::mt19937_64 rng(seed);
    g_extended = sched.empty();
    g_n = n;
    g_writer = -1;
    g_readers.clear();
    g_free_run = false;
    {
      tr::Ev e("reset");
      std::string ts = "[";
      for (int i = 0; i < n; i++) {
        ts += std::string(i ? "," : "") + "\"" + tname(i) + "\"";
      }
      e.raw("threads", ts + "]").num("scheduled", (long long)sched.size());
#if defined(BK_NOOP)
#  if defined(BK_DYLIB)
      e.boolean("allready", true).str("backend", "dylib");
#  else
      e.boolean("allready", true).str("backend", "noop");
#  endif
#else
      e.boolean("allready", false).str("backend", "vm");
#endif
      out.put(e);
    }
    for (int i = 0; i < n; i++) {
      g_sb[i] = std::make_unique<RS>();
      g_w[i].st = IDLE;
    }
    for (int i = 0; i < n; i++) {
      g_w[i].th = std::thread(worker_main, i, rounds);
    }
    size_t pos = 0;
    long divergences = 0;
    bool deadlock = false;
    {
      std::unique_lock<std::mutex> lk(g_m);
      for (;;) {
        g_cv.wait(lk, [n] {
          for (int i = 0; i < n; i++) {
            if (g_w[i].st == RUNNING || g_w[i].st == IDLE) {
              return false;
            }
          }
          return true;
        });
        std::vector<int> en;
        bool all_done = true;
        for (int i = 0; i < n; i++) {
          if (g_w[i].st == PARKED) {
            all_done = false;
            if (enabled(i)) {
              en.push_back(i);
            }
          }
        }
        if (all_done) {
          break;
        }
        if (en.empty()) {
          deadlock = true;
          break;
        }
        int pick = -1;
        // the "start" steps are not part of the schedule
        for (int i : en) {
          if (g_w[i].p.k == "start") {
            pick = i;
          }
        }
        if (pick >= 0) {
          g_w[pick].st = RUNNING;
          g_cv.notify_all();
          continue;
        }
        if (pos < sched.size()) {
          int want = sched[pos++];
          for (int i : en) {
            if (i == want) {
              pick = i;
            }
          }
          if (pick < 0) {
            divergences++;
          }
        }
        if (pick < 0) {
          pick = en[rng() % en.size()];
        }
        grant(pick);
        g_cv.notify_all();
      }
    }
    if (deadlock) {
      tr::Ev e("step");
      e.str("t", "?").str("k", "deadlock").str("s", "?");
      out.put(e);
      out.flush();
      _exit(7);
    }
    for (int i = 0; i < n; i++) {
      g_w[i].th.join();
    }
    g_free_run = true;
    for (int i = 0; i < n; i++) {
      g_sb[i].reset();
    }
    tr::Ev e("summary");
    e.num("divergences", divergences);
    out.put(e);
  }
  out.close();
  return 0;
}
