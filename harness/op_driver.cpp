// C16 conformance driver: every arithmetic / bitwise / shift / comparison / compound-assignment
// / increment operator RLBox defines on tainted numbers is evaluated next to the same plain C++
// expression on the same operands in this translation unit, for every operand-wrapper
// combination (tainted, tainted_volatile, plain on either side) and operand type pair.
// The driver records, per evaluated pair: result bits of both, whether the result types agree,
// operand values afterwards, abort. 8-bit operand pairs are enumerated exhaustively (summarised
// per combination: every pair's agreement bit is counted, disagreeing pairs are logged
// individually); wider types use boundary and seeded random values (logged individually).
// Operand pairs for which the plain expression has undefined behaviour are not evaluated.
//
// usage: op_driver <out> <seed> <tier>
#define RLBOX_USE_EXCEPTIONS
#include "rlbox.hpp"
#include "vm_sandbox.hpp"
#include "trace.hpp"

#include <setjmp.h>
#include <signal.h>
#include <unistd.h>

#include <cstring>
#include <limits>
#include <random>
#include <string>
#include <vector>

using namespace rlbox;
using W = __int128;
using Sbx = rlbox_vm_sandbox<vm_abi_wasm32, 12>;
using RS = rlbox_sandbox<Sbx>;
static tr::Out out;
static RS* sb;

template<typename T>
struct TN;
#define TNM(T, N)                                                                                                      \
  template<>                                                                                                           \
  struct TN<T>                                                                                                         \
  {                                                                                                                    \
    static constexpr const char* v = N;                                                                                \
  };
TNM(signed char, "i8")
TNM(unsigned char, "u8")
TNM(short, "i16")
TNM(unsigned short, "u16")
TNM(int, "i32")
TNM(unsigned, "u32")
TNM(long, "long")
TNM(unsigned long, "ulong")
TNM(long long, "i64")
TNM(unsigned long long, "u64")
TNM(float, "f32")
TNM(double, "f64")
TNM(bool, "bool")

template<typename T>
static W bits_of(T v)
{
  if constexpr (std::is_same_v<T, float>) {
    uint32_t b;
    std::memcpy(&b, &v, 4);
    return b;
  } else if constexpr (std::is_same_v<T, double>) {
    uint64_t b;
    std::memcpy(&b, &v, 8);
    return b;
  } else {
    return (W)v;
  }
}

// guest range of an application integer type (wasm32: long/unsigned long are 32-bit)
template<typename T>
static bool fits_guest(W v)
{
  if constexpr (std::is_same_v<T, long>) {
    return v >= -((W)1 << 31) && v < ((W)1 << 31);
  } else if constexpr (std::is_same_v<T, unsigned long>) {
    return v >= 0 && v < ((W)1 << 32);
  } else {
    return true;
  }
}

enum Opk
{
  ADD,
  SUB,
  MUL,
  DIV,
  MOD,
  XOR,
  AND,
  OR,
  SHL,
  SHR,
  EQ,
  NE,
  LT,
  LE,
  GT,
  GE,
  NOPS
};
static const char* OPN[NOPS] = { "+", "-", "*", "/", "%", "^", "&", "|", "<<", ">>", "==", "!=", "<", "<=", ">", ">=" };

template<int OP, typename A, typename B>
static auto apply(A& a, B& b)
{
  if constexpr (OP == ADD) {
    return a + b;
  } else if constexpr (OP == SUB) {
    return a - b;
  } else if constexpr (OP == MUL) {
    return a * b;
  } else if constexpr (OP == DIV) {
    return a / b;
  } else if constexpr (OP == MOD) {
    return a % b;
  } else if constexpr (OP == XOR) {
    return a ^ b;
  } else if constexpr (OP == AND) {
    return a & b;
  } else if constexpr (OP == OR) {
    return a | b;
  } else if constexpr (OP == SHL) {
    return a << b;
  } else if constexpr (OP == SHR) {
    return a >> b;
  } else if constexpr (OP == EQ) {
    return a == b;
  } else if constexpr (OP == NE) {
    return a != b;
  } else if constexpr (OP == LT) {
    return a < b;
  } else if constexpr (OP == LE) {
    return a <= b;
  } else if constexpr (OP == GT) {
    return a > b;
  } else {
    return a >= b;
  }
}

// is the plain expression a OP b defined (no UB) and well-formed for these types?
template<int OP, typename TA, typename TB>
static bool defined_plain(TA a, TB b)
{
  using R = decltype(std::declval<TA>() + std::declval<TB>());
  if constexpr (std::is_floating_point_v<R>) {
    return true; // IEEE arithmetic is defined (division by zero gives inf/nan)
  } else {
    W x = (W)a, y = (W)b;
    // operands after the usual arithmetic conversions
    W cx = (W)(R)a, cy = (W)(R)b;
    W lo = (W)std::numeric_limits<R>::min(), hi = (W)std::numeric_limits<R>::max();
    (void)x;
    (void)y;
    switch (OP) {
      case ADD:
        return !std::is_signed_v<R> || (cx + cy >= lo && cx + cy <= hi);
      case SUB:
        return !std::is_signed_v<R> || (cx - cy >= lo && cx - cy <= hi);
      case MUL:
        return !std::is_signed_v<R> || (cx * cy >= lo && cx * cy <= hi);
      case DIV:
      case MOD:
        return cy != 0 && !(std::is_signed_v<R> && cx == lo && cy == -1);
      case SHL: {
        using PA = decltype(+std::declval<TA>());
        W pa = (W)(PA)a;
        int width = sizeof(PA) * 8;
        if ((W)b < 0 || (W)b >= width) {
          return false;
        }
        if (std::is_signed_v<PA>) {
          return pa >= 0 && (pa << (int)b) <= (W)std::numeric_limits<PA>::max();
        }
        return true;
      }
      case SHR: {
        using PA = decltype(+std::declval<TA>());
        int width = sizeof(PA) * 8;
        return (W)b >= 0 && (W)b < width;
      }
      default:
        return true;
    }
  }
}

// An arithmetic fault (SIGFPE) inside a wrapped operator is the observation of that evaluation.
static sigjmp_buf g_fpe_jmp;
static volatile sig_atomic_t g_fpe_armed = 0;
static void on_fpe(int)
{
  if (g_fpe_armed) {
    siglongjmp(g_fpe_jmp, 1);
  }
  _exit(8);
}
#define GUARDED_TRY                                                                                                    \
  if (sigsetjmp(g_fpe_jmp, 1) != 0) {                                                                                  \
    g_fpe_armed = 0;                                                                                                   \
    outc = "fault";                                                                                                    \
  } else                                                                                                               \
    try

struct Combo
{
  std::string op, lw, rw, lt, rt;
  long pairs = 0, agree = 0, aborted_ok = 0, disagree = 0, type_same = -1;
};

static void emit_single(const Combo& c, W a, W b, W plain, W wrapped, bool same_type, const char* outc, bool fits)
{
  tr::Ev e("op");
  e.str("op", c.op).str("lw", c.lw).str("rw", c.rw).str("lt", c.lt).str("rt", c.rt).wide("a", a).wide("b", b);
  e.wide("plain", plain).wide("wrapped", wrapped).boolean("same_type", same_type).str("out", outc).boolean("fits", fits);
  out.put(e);
}
static void emit_combo(const Combo& c)
{
  tr::Ev e("opsum");
  e.str("op", c.op).str("lw", c.lw).str("rw", c.rw).str("lt", c.lt).str("rt", c.rt).num("pairs", c.pairs);
  e.num("agree", c.agree).num("aborted_ok", c.aborted_ok).num("disagree", c.disagree).boolean("same_type", c.type_same != 0);
  out.put(e);
}

// operand in wrapper form LW: 'T' tainted, 'V' tainted_volatile (cell in sandbox memory), 'P' plain
template<typename T>
static tainted_volatile<T, Sbx>& cell(int which)
{
  static tainted<T*, Sbx> c0 = sb->malloc_in_sandbox<T>();
  static tainted<T*, Sbx> c1 = sb->malloc_in_sandbox<T>();
  return which == 0 ? *c0 : *c1;
}

template<int OP, char LW, char RW, typename TA, typename TB>
static void binary_combo(const std::vector<std::pair<W, W>>& pairs, bool summarise)
{
  Combo c;
  c.op = OPN[OP];
  c.lw = std::string(1, LW);
  c.rw = std::string(1, RW);
  c.lt = TN<TA>::v;
  c.rt = TN<TB>::v;
  for (auto& pr : pairs) {
    TA a = (TA)pr.first;
    TB b = (TB)pr.second;
    if (!defined_plain<OP, TA, TB>(a, b)) {
      continue;
    }
    // operands stored in sandbox memory must be representable there
    if ((LW == 'V' && !fits_guest<TA>((W)a)) || (RW == 'V' && !fits_guest<TB>((W)b))) {
      continue;
    }
    auto plain = apply<OP>(a, b);
    using PR = decltype(plain);
    W wrapped_bits = 0;
    bool same = false;
    const char* outc = "ok";
    GUARDED_TRY {
      g_fpe_armed = 1;
      auto eval = [&](auto& wa, auto& wb) {
        auto r = apply<OP>(wa, wb);
        auto raw = r.UNSAFE_unverified();
        same = std::is_same_v<decltype(raw), PR>;
        wrapped_bits = bits_of(raw);
      };
      auto with_rhs = [&](auto& wa) {
        if constexpr (RW == 'P') {
          eval(wa, b);
        } else if constexpr (RW == 'T') {
          tainted<TB, Sbx> tb = b;
          eval(wa, tb);
        } else {
          cell<TB>(1) = b;
          eval(wa, cell<TB>(1));
        }
      };
      if constexpr (LW == 'P') {
        with_rhs(a);
      } else if constexpr (LW == 'T') {
        tainted<TA, Sbx> ta = a;
        with_rhs(ta);
      } else {
        cell<TA>(0) = a;
        with_rhs(cell<TA>(0));
      }
    } catch (const std::runtime_error&) {
      outc = "abort";
    }
      g_fpe_armed = 0;
    c.pairs++;
    bool ok = std::strcmp(outc, "ok") == 0 && wrapped_bits == bits_of(plain) && same;
    if (c.type_same != 0) {
      c.type_same = same ? 1 : 0;
    }
    if (ok) {
      c.agree++;
    } else {
      c.disagree++;
    }
    if (!summarise || (!ok && c.disagree <= 20)) {
      emit_single(c, pr.first, pr.second, bits_of(plain), wrapped_bits, same, outc, true);
    }
  }
  if (summarise) {
    emit_combo(c);
  }
}

template<int OP, typename TA, typename TB>
static void binary_wrappers(const std::vector<std::pair<W, W>>& pairs, bool summarise)
{
  binary_combo<OP, 'T', 'P', TA, TB>(pairs, summarise);
  binary_combo<OP, 'T', 'T', TA, TB>(pairs, summarise);
  binary_combo<OP, 'T', 'V', TA, TB>(pairs, summarise);
  binary_combo<OP, 'V', 'P', TA, TB>(pairs, summarise);
  binary_combo<OP, 'V', 'T', TA, TB>(pairs, summarise);
  if constexpr (OP != AND) {
    // tainted_volatile & tainted_volatile does not compile: the operator& that tainted_volatile
    // forwards to its base takes the right operand by value (private copy constructor)
    binary_combo<OP, 'V', 'V', TA, TB>(pairs, summarise);
  }
  binary_combo<OP, 'P', 'T', TA, TB>(pairs, summarise);
  binary_combo<OP, 'P', 'V', TA, TB>(pairs, summarise);
}

template<typename TA, typename TB>
static void all_binary(const std::vector<std::pair<W, W>>& pairs, bool summarise)
{
  binary_wrappers<ADD, TA, TB>(pairs, summarise);
  binary_wrappers<SUB, TA, TB>(pairs, summarise);
  binary_wrappers<MUL, TA, TB>(pairs, summarise);
  binary_wrappers<DIV, TA, TB>(pairs, summarise);
  binary_wrappers<EQ, TA, TB>(pairs, summarise);
  binary_wrappers<NE, TA, TB>(pairs, summarise);
  binary_wrappers<LT, TA, TB>(pairs, summarise);
  binary_wrappers<LE, TA, TB>(pairs, summarise);
  binary_wrappers<GT, TA, TB>(pairs, summarise);
  binary_wrappers<GE, TA, TB>(pairs, summarise);
  if constexpr (std::is_integral_v<TA> && std::is_integral_v<TB>) {
    binary_wrappers<MOD, TA, TB>(pairs, summarise);
    binary_wrappers<XOR, TA, TB>(pairs, summarise);
    binary_wrappers<AND, TA, TB>(pairs, summarise);
    binary_wrappers<OR, TA, TB>(pairs, summarise);
    binary_wrappers<SHL, TA, TB>(pairs, summarise);
    binary_wrappers<SHR, TA, TB>(pairs, summarise);
  }
}

// ---------------------------------------------------------------- updates: compound assignment, ++/--, unary
template<typename T>
static std::vector<W> interesting()
{
  std::vector<W> v;
  if constexpr (std::is_floating_point_v<T>) {
    // (incl. values for which x + 1 - 1 != x: stepping and undoing is not an identity on them)
    for (T x : { (T)0, (T)1, (T)-1.5, (T)1e10, (T)-3.25e-3, (T)0.1, (T)1e-10, (T)16777216.0, (T)9007199254740992.0,
                 (T)-16777217.0, (T)0.3 }) {
      v.push_back(bits_of(x));
    }
  } else {
    W lo = (W)std::numeric_limits<T>::min(), hi = (W)std::numeric_limits<T>::max();
    for (W c : { (W)0, (W)1, (W)-1, (W)2, (W)7, (W)-7, lo, hi, lo + 1, hi - 1, ((W)1 << 31) - 1, ((W)1 << 31), -((W)1 << 31),
                 -((W)1 << 31) - 1, ((W)1 << 32) - 1, ((W)1 << 32), (W)100, (W)31, (W)32, (W)63 }) {
      if (c >= lo && c <= hi) {
        v.push_back(c);
      }
    }
  }
  return v;
}
template<typename T>
static T from_w(W v)
{
  if constexpr (std::is_same_v<T, float>) {
    uint32_t b = (uint32_t)v;
    float f;
    std::memcpy(&f, &b, 4);
    return f;
  } else if constexpr (std::is_same_v<T, double>) {
    uint64_t b = (uint64_t)v;
    double f;
    std::memcpy(&f, &b, 8);
    return f;
  } else {
    return (T)v;
  }
}

// the operand of a refused update, read back afterwards: the update aborts INSTEAD of updating
template<typename T>
static void left_after_refusal(tr::Ev& e, T a)
{
  W left = 0;
  bool ok = true;
  try {
    left = bits_of(cell<T>(0).UNSAFE_unverified());
  } catch (const std::runtime_error&) {
    ok = false;
  }
  e.wide("left", left).wide("left_want", bits_of(a)).boolean("left_ok", ok);
}

// compound assignment x OP= y on tainted / tainted_volatile x of type T (rank >= int), y plain/tainted of type U
template<int OP, char LW, char RW, typename T, typename U>
static void compound(std::mt19937_64& rng)
{
  (void)rng;
  for (W aw : interesting<T>()) {
    for (W bw : interesting<U>()) {
      T a = from_w<T>(aw);
      U b = from_w<U>(bw);
      if (!defined_plain<OP, T, U>(a, b)) {
        continue;
      }
      if (LW == 'V' && !fits_guest<T>(aw)) {
        continue;
      }
      // plain semantics: x = (T)(x OP y); implementation-defined narrowing back to T is what
      // the plain compound assignment does as well
      T px = a;
      auto full = apply<OP>(a, b);
      px = (T)full;
      bool fits = fits_guest<T>((W)bits_of(px)) || std::is_floating_point_v<T>;
      // RLBox assigns through tainted<decltype(x OP y)> -> T; only forms that compile are used (see main)
      W after = 0, ret = 0;
      const char* outc = "ok";
      GUARDED_TRY {
      g_fpe_armed = 1;
        auto run = [&](auto& wx) {
          auto doit = [&](const auto& wy) {
            if constexpr (OP == ADD) {
              ret = bits_of((wx += wy).UNSAFE_unverified());
            } else if constexpr (OP == SUB) {
              ret = bits_of((wx -= wy).UNSAFE_unverified());
            } else if constexpr (OP == MUL) {
              ret = bits_of((wx *= wy).UNSAFE_unverified());
            } else if constexpr (OP == DIV) {
              ret = bits_of((wx /= wy).UNSAFE_unverified());
            } else if constexpr (OP == MOD) {
              ret = bits_of((wx %= wy).UNSAFE_unverified());
            } else if constexpr (OP == XOR) {
              ret = bits_of((wx ^= wy).UNSAFE_unverified());
            } else if constexpr (OP == AND) {
              ret = bits_of((wx &= wy).UNSAFE_unverified());
            } else if constexpr (OP == OR) {
              ret = bits_of((wx |= wy).UNSAFE_unverified());
            } else if constexpr (OP == SHL) {
              ret = bits_of((wx <<= wy).UNSAFE_unverified());
            } else {
              ret = bits_of((wx >>= wy).UNSAFE_unverified());
            }
          };
          if constexpr (RW == 'P') {
            doit(b);
          } else {
            tainted<U, Sbx> tb = b;
            doit(tb);
          }
          after = bits_of(wx.UNSAFE_unverified());
        };
        if constexpr (LW == 'T') {
          tainted<T, Sbx> tx = a;
          run(tx);
        } else {
          cell<T>(0) = a;
          run(cell<T>(0));
        }
      } catch (const std::runtime_error&) {
        outc = "abort";
      }
      g_fpe_armed = 0;
      tr::Ev e("upd");
      e.str("op", std::string(OPN[OP]) + "=").str("lw", std::string(1, LW)).str("rw", std::string(1, RW));
      e.str("lt", TN<T>::v).str("rt", TN<U>::v).wide("a", aw).wide("b", bw).wide("plain_after", bits_of(px));
      e.wide("plain_ret", bits_of(px)).wide("after", after).wide("ret", ret).str("out", outc).boolean("fits", fits);
      e.boolean("volatile_target", LW == 'V');
      if (LW == 'V' && std::strcmp(outc, "abort") == 0) {
        left_after_refusal<T>(e, a);
      }
      out.put(e);
    }
  }
}

template<char LW, typename T>
static void incdec_unary()
{
  for (W aw : interesting<T>()) {
    T a = from_w<T>(aw);
    if (LW == 'V' && !fits_guest<T>(aw)) {
      continue;
    }
    for (int which = 0; which < 8; which++) {
      // 0 ++x, 1 x++, 2 --x, 3 x--, 4 -x, 5 ~x, 6 ++(++x), 7 --(--x): the prefix forms yield the
      // operand itself, so a second update through the result lands on the operand
      if (which == 5 && !std::is_integral_v<T>) {
        continue;
      }
      if (LW == 'V' && (which == 1 || which == 3)) {
        continue; // post forms on tainted_volatile do not compile (no tainted_volatile(tainted) constructor)
      }
      W lo = 0, hi = 0;
      if constexpr (std::is_integral_v<T>) {
        lo = (W)std::numeric_limits<T>::min();
        hi = (W)std::numeric_limits<T>::max();
        // defined behaviour only
        if (std::is_signed_v<T> && ((which <= 1 && aw == hi) || ((which == 2 || which == 3) && aw == lo) ||
                                    (which == 4 && aw == lo) || (which == 6 && aw >= hi - 1) ||
                                    (which == 7 && aw <= lo + 1))) {
          continue;
        }
      }
      T px = a;
      W pret = 0;
      switch (which) {
        case 0:
          pret = bits_of(++px);
          break;
        case 1:
          pret = bits_of(px++);
          break;
        case 2:
          pret = bits_of(--px);
          break;
        case 3:
          pret = bits_of(px--);
          break;
        case 4:
          pret = bits_of(-px);
          break;
        case 5:
          if constexpr (std::is_integral_v<T>) {
            pret = bits_of(~px);
          }
          break;
        case 6:
          pret = bits_of(++(++px));
          break;
        default:
          pret = bits_of(--(--px));
          break;
      }
      bool fits = fits_guest<T>(bits_of(px)) || std::is_floating_point_v<T>;
      W after = 0, ret = 0;
      bool same = true;
      const char* outc = "ok";
      GUARDED_TRY {
      g_fpe_armed = 1;
        auto run = [&](auto& wx) {
          switch (which) {
            case 0:
              ret = bits_of((++wx).UNSAFE_unverified());
              break;
            case 1:
              if constexpr (LW == 'T') {
                ret = bits_of((wx++).UNSAFE_unverified());
              }
              break;
            case 2:
              ret = bits_of((--wx).UNSAFE_unverified());
              break;
            case 3:
              if constexpr (LW == 'T') {
                ret = bits_of((wx--).UNSAFE_unverified());
              }
              break;
            case 4: {
              auto r = (-wx).UNSAFE_unverified();
              same = std::is_same_v<decltype(r), decltype(-a)>;
              ret = bits_of(r);
              break;
            }
            case 5:
              if constexpr (std::is_integral_v<T>) {
                auto r = (~wx).UNSAFE_unverified();
                same = std::is_same_v<decltype(r), decltype(~a)>;
                ret = bits_of(r);
              }
              break;
            case 6:
              ret = bits_of((++(++wx)).UNSAFE_unverified());
              break;
            default:
              ret = bits_of((--(--wx)).UNSAFE_unverified());
              break;
          }
          after = bits_of(wx.UNSAFE_unverified());
        };
        if constexpr (LW == 'T') {
          tainted<T, Sbx> tx = a;
          run(tx);
        } else {
          cell<T>(0) = a;
          run(cell<T>(0));
        }
      } catch (const std::runtime_error&) {
        outc = "abort";
      }
      g_fpe_armed = 0;
      static const char* NM[] = { "++pre", "++post", "--pre", "--post", "neg", "compl", "++pre++pre", "--pre--pre" };
      tr::Ev e("upd");
      e.str("op", NM[which]).str("lw", std::string(1, LW)).str("rw", "-").str("lt", TN<T>::v).str("rt", "-");
      e.wide("a", aw).wide("b", 0).wide("plain_after", bits_of(px)).wide("plain_ret", pret).wide("after", after);
      e.wide("ret", ret).str("out", outc).boolean("fits", fits).boolean("volatile_target", LW == 'V' && (which < 4 || which >= 6));
      e.boolean("same_type", same);
      if (LW == 'V' && which < 4 && std::strcmp(outc, "abort") == 0) {
        left_after_refusal<T>(e, a);
      }
      out.put(e);
    }
  }
}

// unary - and ~ on operand types narrower than int (the plain operators promote: the result is
// an int, e.g. -(uint8_t)1 == -1 and ~(uint16_t)0 == -1); ++/-- do not compile for these types
template<char LW, typename T>
static void unary_narrow()
{
  for (long long av = (long long)std::numeric_limits<T>::min(); av <= (long long)std::numeric_limits<T>::max(); av++) {
    if (sizeof(T) > 1 && av % 257 != 0 && av > (long long)std::numeric_limits<T>::min() + 2 &&
        av < (long long)std::numeric_limits<T>::max() - 2 && av != 0 && av != 1 && av != -1) {
      continue;
    }
    T a = (T)av;
    for (int which = 4; which < 6; which++) {
      W pret = which == 4 ? bits_of(-a) : bits_of(~a);
      W ret = 0, after = 0;
      bool same = true;
      const char* outc = "ok";
      GUARDED_TRY
      {
        g_fpe_armed = 1;
        auto run = [&](auto& wx) {
          if (which == 4) {
            auto r = (-wx).UNSAFE_unverified();
            same = std::is_same_v<decltype(r), decltype(-a)>;
            ret = bits_of(r);
          } else {
            auto r = (~wx).UNSAFE_unverified();
            same = std::is_same_v<decltype(r), decltype(~a)>;
            ret = bits_of(r);
          }
          after = bits_of(wx.UNSAFE_unverified());
        };
        if constexpr (LW == 'T') {
          tainted<T, Sbx> tx = a;
          run(tx);
        } else {
          cell<T>(0) = a;
          run(cell<T>(0));
        }
      } catch (const std::runtime_error&) {
        outc = "abort";
      }
      g_fpe_armed = 0;
      tr::Ev e("upd");
      e.str("op", which == 4 ? "neg" : "compl").str("lw", std::string(1, LW)).str("rw", "-").str("lt", TN<T>::v).str("rt", "-");
      e.wide("a", (W)av).wide("b", 0).wide("plain_after", bits_of(a)).wide("plain_ret", pret).wide("after", after);
      e.wide("ret", ret).str("out", outc).boolean("fits", true).boolean("volatile_target", false).boolean("same_type", same);
      out.put(e);
    }
  }
}

template<typename T, typename U>
static void compound_all(std::mt19937_64& rng)
{
  compound<ADD, 'T', 'P', T, U>(rng);
  compound<ADD, 'T', 'T', T, U>(rng);
  compound<ADD, 'V', 'P', T, U>(rng);
  compound<SUB, 'T', 'P', T, U>(rng);
  compound<SUB, 'V', 'T', T, U>(rng);
  compound<MUL, 'T', 'P', T, U>(rng);
  compound<MUL, 'V', 'P', T, U>(rng);
  compound<DIV, 'T', 'T', T, U>(rng);
  compound<DIV, 'V', 'P', T, U>(rng);
  if constexpr (std::is_integral_v<T> && std::is_integral_v<U>) {
    compound<MOD, 'T', 'P', T, U>(rng);
    compound<XOR, 'T', 'P', T, U>(rng);
    compound<XOR, 'V', 'T', T, U>(rng);
    compound<AND, 'T', 'T', T, U>(rng);
    compound<AND, 'V', 'P', T, U>(rng);
    compound<OR, 'T', 'P', T, U>(rng);
    compound<OR, 'V', 'P', T, U>(rng);
    compound<SHL, 'T', 'P', T, U>(rng);
    compound<SHL, 'V', 'P', T, U>(rng);
    compound<SHR, 'T', 'T', T, U>(rng);
    compound<SHR, 'V', 'P', T, U>(rng);
  }
}

template<typename TA, typename TB>
static std::vector<std::pair<W, W>> sparse_pairs(std::mt19937_64& rng, int nrand)
{
  std::vector<std::pair<W, W>> v;
  for (W a : interesting<TA>()) {
    for (W b : interesting<TB>()) {
      v.push_back({ a, b });
    }
  }
  for (int i = 0; i < nrand; i++) {
    if constexpr (std::is_floating_point_v<TA> || std::is_floating_point_v<TB>) {
      break;
    } else {
      v.push_back({ (W)(TA)(rng() >> (rng() % 64)), (W)(TB)(rng() >> (rng() % 64)) });
    }
  }
  return v;
}
// floating operands are passed as values, not bit patterns
template<typename TA, typename TB>
static std::vector<std::pair<W, W>> float_pairs()
{
  std::vector<std::pair<W, W>> v;
  for (W a : { (W)0, (W)1, (W)-3, (W)1000000, (W)7 }) {
    for (W b : { (W)1, (W)-2, (W)5, (W)0 }) {
      v.push_back({ a, b });
    }
  }
  return v;
}

int main(int argc, char** argv)
{
  if (argc < 4 || !out.open(argv[1])) {
    return 2;
  }
  std::mt19937_64 rng(std::atoll(argv[2]));
  bool thorough = std::atoi(argv[3]) != 0;
  signal(SIGFPE, on_fpe);
  RS sandbox;
  sandbox.create_sandbox();
  sb = &sandbox;
  // (1) exhaustive 8-bit operand pairs
  {
    std::vector<std::pair<W, W>> ss, su, us, uu;
    for (int a = -128; a < 128; a++) {
      for (int b = -128; b < 128; b++) {
        ss.push_back({ a, b });
        su.push_back({ a, b + 128 });
        us.push_back({ a + 128, b });
        uu.push_back({ a + 128, b + 128 });
      }
    }
    all_binary<signed char, signed char>(ss, true);
    all_binary<signed char, unsigned char>(su, true);
    all_binary<unsigned char, signed char>(us, true);
    all_binary<unsigned char, unsigned char>(uu, true);
  }
  // (2) wider types: boundary + random values, logged individually
  int nr = thorough ? 60 : 10;
#define BIN(TA, TB) all_binary<TA, TB>(sparse_pairs<TA, TB>(rng, nr), false);
  BIN(int, int) BIN(int, unsigned) BIN(unsigned, int) BIN(long, int) BIN(int, long) BIN(long, unsigned long)
    BIN(unsigned long, long) BIN(long long, unsigned) BIN(unsigned long long, long long) BIN(short, unsigned short)
      BIN(unsigned short, long) BIN(long, long) BIN(unsigned long, unsigned long) BIN(signed char, long)
        BIN(unsigned, unsigned long long)
  if (thorough) {
    BIN(short, short) BIN(long long, long long) BIN(unsigned, unsigned) BIN(unsigned long long, unsigned long long)
      BIN(int, short) BIN(long, short) BIN(unsigned short, unsigned short)
  }
  all_binary<double, double>(float_pairs<double, double>(), false);
  all_binary<float, int>(float_pairs<float, int>(), false);
  all_binary<int, double>(float_pairs<int, double>(), false);
  all_binary<float, float>(float_pairs<float, float>(), false);
  // (3) updates: compound assignment, ++/--, unary minus / complement (types of rank >= int; narrower
  //     target types do not compile: x op y is tainted<int>, which does not convert back)
  compound_all<int, int>(rng);
  compound_all<long, int>(rng);
  compound_all<long, long>(rng);
  compound_all<unsigned, int>(rng);
  compound_all<unsigned long, unsigned long>(rng);
  compound_all<long long, int>(rng);
  compound_all<unsigned long long, unsigned>(rng);
  compound_all<double, double>(rng);
  compound_all<double, int>(rng);
  incdec_unary<'T', int>();
  incdec_unary<'V', int>();
  incdec_unary<'T', long>();
  incdec_unary<'V', long>();
  incdec_unary<'T', unsigned>();
  incdec_unary<'V', unsigned long>();
  incdec_unary<'T', long long>();
  incdec_unary<'V', unsigned long long>();
  incdec_unary<'T', double>();
  incdec_unary<'V', double>();
  incdec_unary<'T', float>();
  incdec_unary<'V', float>();
  unary_narrow<'T', signed char>();
  unary_narrow<'V', signed char>();
  unary_narrow<'T', unsigned char>();
  unary_narrow<'V', unsigned char>();
  unary_narrow<'T', short>();
  unary_narrow<'V', unsigned short>();
  unary_narrow<'T', unsigned short>();
  sandbox.destroy_sandbox();
  out.close();
  return 0;
}
