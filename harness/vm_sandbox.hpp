#pragma once
// Verification backend for RLBox with a genuinely foreign ABI (DESIGN.md 4.1).
//
//  * integer types per Abi (wasm32: long = int32, pointer = uint32; lp16: int = int16,
//    pointer = uint16), so every integer/pointer conversion is observable;
//  * data pointers are OFFSETS from the region base (null <-> 0); the region is a
//    2^RegionBits-aligned mmap with PROT_NONE guard pages on both sides (regions smaller than a
//    page lie in the middle of a host page, without guards);
//  * function pointers are per-instance TABLE INDICES; the application-side
//    representation of a sandbox function pointer is the address of the table entry;
//  * invoke support: guest functions are host functions written with guest-ABI types,
//    registered per instance in a library (name -> function);
//  * callback support: per-instance slot table, dispatch through vm_call_indirect.
//
// Must be included after rlbox.hpp.

#include <sys/mman.h>

#include <cstdint>
#include <cstdio>
#include <cstdlib>
#include <cstring>
#include <map>
#include <string>
#include <utility>
#include <vector>

namespace rlbox {

struct vm_abi_wasm32
{
  using T_LongLongType = int64_t;
  using T_LongType = int32_t;
  using T_IntType = int32_t;
  using T_PointerType = uint32_t;
  using T_ShortType = int16_t;
  static constexpr const char* name = "wasm32";
};

struct vm_abi_lp16
{
  using T_LongLongType = int64_t;
  using T_LongType = int32_t;
  using T_IntType = int16_t;
  using T_PointerType = uint16_t;
  using T_ShortType = int16_t;
  static constexpr const char* name = "lp16";
};

// host-like widths, but pointers are 64-bit unsigned integers (offsets) instead of C++ pointers
struct vm_abi_lp64u
{
  using T_LongLongType = int64_t;
  using T_LongType = int64_t;
  using T_IntType = int32_t;
  using T_PointerType = uint64_t;
  using T_ShortType = int16_t;
  static constexpr const char* name = "lp64u";
};

// a guest whose int is WIDER than the host's (ILP64): loads, results and callback arguments
// narrow and may therefore abort
struct vm_abi_ilp64
{
  using T_LongLongType = int64_t;
  using T_LongType = int64_t;
  using T_IntType = int64_t;
  using T_PointerType = uint64_t;
  using T_ShortType = int16_t;
  static constexpr const char* name = "ilp64";
};

// a guest that carries int and long in words of the host's width but of the OTHER signedness
// (wasm2c-style u32 / u64 words): same width does not mean same type
struct vm_abi_uword
{
  using T_LongLongType = int64_t;
  using T_LongType = uint64_t;
  using T_IntType = uint32_t;
  using T_PointerType = uint32_t;
  using T_ShortType = int16_t;
  static constexpr const char* name = "uword";
};

// One exported guest function: host address of the guest-ABI implementation.
struct vm_export
{
  const char* name;
  void* fn;
};

// A library = list of exports; instances created from different libraries may export
// the same names bound to different functions.
struct vm_library
{
  int id;
  std::vector<vm_export> exports;
};

struct vm_table_entry
{
  enum Kind : uint8_t
  {
    EMPTY = 0,
    GUEST_FN = 1,
    CALLBACK = 2
  } kind = EMPTY;
  void* fn = nullptr;  // guest function / callback interceptor
  void* key = nullptr; // callback unique key
  const char* name = nullptr;
  const void* sig = nullptr; // signature tag of a callback entry (call_indirect traps on mismatch)
};

template<typename T_Ret, typename... T_Args>
struct vm_sig_tag
{
  static inline const char tag = 0;
};

template<typename T_Sbx>
struct vm_thread_data
{
  T_Sbx* sandbox = nullptr;
  uint32_t last_callback_invoked = 0;
};

#ifdef VM_EMBEDDER_TLS
// embedder-provided TLS configuration: storage lives in the driver TU
template<typename T_Sbx>
vm_thread_data<T_Sbx>* vm_get_thread_data();
#endif

template<typename Abi, unsigned RegionBits = 12, bool UseFinder = false, unsigned NSlots = 4>
class rlbox_vm_sandbox
{
public:
  using T_LongLongType = typename Abi::T_LongLongType;
  using T_LongType = typename Abi::T_LongType;
  using T_IntType = typename Abi::T_IntType;
  using T_PointerType = typename Abi::T_PointerType;
  using T_ShortType = typename Abi::T_ShortType;
  using needs_internal_lookup_symbol = void;
#ifdef VM_GRANT_DENY
  // variant that offers the grant / deny interface; what it answers is scripted by the harness
  using can_grant_deny_access = void;
#endif
  using Self = rlbox_vm_sandbox<Abi, RegionBits, UseFinder, NSlots>;

  static constexpr uintptr_t RegionSize = uintptr_t(1) << RegionBits;
  static constexpr uintptr_t RegionMask = RegionSize - 1;
#ifndef VM_MAX_FUNCS
#  define VM_MAX_FUNCS 24
#endif
  static constexpr unsigned MaxFuncs = VM_MAX_FUNCS;
  static constexpr unsigned TableSize = 1 + MaxFuncs + NSlots; // index 0 = null
  static constexpr unsigned SlotBase = 1 + MaxFuncs;

  // ---- state that drivers may inspect / tune (this is the harness' own backend) ----
  uintptr_t base = 0;
  void* map_addr = nullptr;
  size_t map_len = 0;
  size_t bump = 8;
  const vm_library* lib = nullptr;
  vm_table_entry table[TableSize];
  size_t reported_total = RegionSize; // what impl_get_total_memory reports
  bool malloc_override = false;       // next impl_malloc returns malloc_override_val
  T_PointerType malloc_override_val = 0;
  unsigned long n_malloc = 0, n_free = 0, n_lookup = 0, n_internal_lookup = 0;
  T_PointerType last_freed = 0;

  // test seam: backend life-cycle events ("created" after the region exists, "destroying" before
  // it is released), used by the cooperative scheduler of the thread driver
  static inline void (*event_hook)(const char* what, Self* self) = nullptr;
  // test knob: make the next create fail
  static inline bool fail_next_create = false;
#ifdef VM_GRANT_DENY
  // 0: refuse (success = false, pointer handed back unchanged); 1: accept
  static inline int grant_mode = 0;
  static inline std::vector<std::pair<uintptr_t, size_t>> grant_log;
  static inline uintptr_t grant_window = 512;
  static inline int deny_mode = 0;
#endif
  // harness knob: called at the start of every same-sandbox (range) check, i.e. at a moment
  // between two of RLBox's reads of sandbox memory that no RLBOX_VERIF_YIELD point marks
  static inline void (*same_sandbox_hook)(const void* p1, const void* p2) = nullptr;
  // test knob: number of callback entry points new instances offer (<= NSlots)
  static inline unsigned default_usable_slots = NSlots;
  unsigned usable_slots = NSlots;
  // test knob: keep destroyed regions reserved (PROT_NONE) until release_deferred(), so
  // that region addresses are never reused within one execution
  static inline bool defer_unmap = false;
  // harness knob: FALSE = representations are NOT confined to the region when they are turned
  // into addresses (base + rep, like plugins that rely on RLBox's own range checks)
  static inline bool confine_pointers = true;
  // harness knob: like many real plugins, do not clear the region base of a destroyed instance
  // (its object then still "recognises" its former addresses if anybody asks it)
  static inline bool keep_base_after_destroy = false;
  static inline std::vector<std::pair<void*, size_t>> deferred;
  static void release_deferred()
  {
    for (auto& d : deferred) {
      munmap(d.first, d.second);
    }
    deferred.clear();
  }

private:
#ifndef VM_EMBEDDER_TLS
  thread_local static inline vm_thread_data<Self> thread_data{};
  static vm_thread_data<Self>& tls() { return thread_data; }
#else
  static vm_thread_data<Self>& tls() { return *vm_get_thread_data<Self>(); }
#endif

public:
  static Self* current_sandbox() { return tls().sandbox; }

  // Guest-side call through a function-pointer value (table index). Returns false if
  // the entry is empty (a real wasm engine would trap).
  template<typename T_Ret, typename... T_Args>
  static bool call_indirect(uint32_t idx, T_Ret* ret, T_Args... args)
  {
    Self* sb = tls().sandbox;
    if (sb == nullptr || idx == 0 || idx >= TableSize) {
      return false;
    }
    vm_table_entry& e = sb->table[idx];
    if (e.kind == vm_table_entry::EMPTY || e.fn == nullptr) {
      return false;
    }
    if (e.kind == vm_table_entry::CALLBACK) {
      if (e.sig != &vm_sig_tag<T_Ret, T_Args...>::tag) {
        return false; // indirect call with the wrong signature traps
      }
      tls().last_callback_invoked = idx - SlotBase;
    }
    using T_Func = T_Ret (*)(T_Args...);
    auto fn = reinterpret_cast<T_Func>(e.fn);
    if constexpr (std::is_void_v<T_Ret>) {
      (void)ret;
      fn(args...);
    } else {
      *ret = fn(args...);
    }
    return true;
  }

  // guest view of memory
  template<typename T>
  T* guest_ptr(T_PointerType off) const
  {
    return reinterpret_cast<T*>(base + (static_cast<uintptr_t>(off) & RegionMask));
  }
  unsigned char* mem() const { return reinterpret_cast<unsigned char*>(base); }

  int func_index(const char* name) const
  {
    for (unsigned i = 1; i < SlotBase; i++) {
      if (table[i].kind == vm_table_entry::GUEST_FN && std::strcmp(table[i].name, name) == 0) {
        return static_cast<int>(i);
      }
    }
    return 0;
  }

protected:
  inline bool impl_create_sandbox(const vm_library* library = nullptr)
  {
    if (fail_next_create) {
      fail_next_create = false;
      return false;
    }
    // reserve 2*size + guards so that an aligned window with a guard page on both
    // sides always exists
    const size_t page = 4096;
    map_len = 2 * RegionSize + 2 * page;
    map_addr = mmap(nullptr, map_len, PROT_NONE, MAP_PRIVATE | MAP_ANONYMOUS | MAP_NORESERVE, -1, 0);
    if (map_addr == MAP_FAILED) {
      map_addr = nullptr;
      return false;
    }
    uintptr_t a = reinterpret_cast<uintptr_t>(map_addr) + page;
    base = (a + RegionMask) & ~RegionMask;
    uintptr_t open_from = base;
    size_t open_len = RegionSize;
    if constexpr (RegionBits < 11) {
      // a region smaller than a page lies in the MIDDLE of a host page (aligned to its own size
      // only): the bytes before and after it on that page are not sandbox memory
      open_from = (a + page - 1) & ~(uintptr_t)(page - 1);
      open_len = page;
      base = open_from + 2 * RegionSize;
    }
    if (mprotect(reinterpret_cast<void*>(open_from), open_len, PROT_READ | PROT_WRITE) != 0) {
      munmap(map_addr, map_len);
      map_addr = nullptr;
      return false;
    }
    bump = 8;
    reported_total = RegionSize;
    malloc_override = false;
    usable_slots = default_usable_slots < NSlots ? default_usable_slots : NSlots;
    lib = library;
    for (auto& e : table) {
      e = vm_table_entry{};
    }
    if (lib != nullptr) {
      unsigned i = 1;
      for (auto& ex : lib->exports) {
        if (i >= SlotBase) {
          std::abort();
        }
        table[i].kind = vm_table_entry::GUEST_FN;
        table[i].fn = ex.fn;
        table[i].name = ex.name;
        i++;
      }
    }
    if (event_hook != nullptr) {
      event_hook("created", this);
    }
    return true;
  }

  inline void impl_destroy_sandbox()
  {
    if (event_hook != nullptr) {
      event_hook("destroying", this);
    }
    if (map_addr != nullptr) {
      if (defer_unmap) {
        mprotect(map_addr, map_len, PROT_NONE);
        deferred.emplace_back(map_addr, map_len);
      } else {
        munmap(map_addr, map_len);
      }
    }
    map_addr = nullptr;
    if (!keep_base_after_destroy) {
      base = 0;
    }
    lib = nullptr;
    for (auto& e : table) {
      e = vm_table_entry{};
    }
  }

  inline void impl_reset_sandbox() { bump = 8; }

  template<typename T>
  inline void* impl_get_unsandboxed_pointer(T_PointerType p) const
  {
    if constexpr (std::is_function_v<std::remove_pointer_t<T>>) {
      // application-side representation of a sandbox function = address of its entry
      uintptr_t idx = static_cast<uintptr_t>(p) % TableSize;
      return const_cast<vm_table_entry*>(&table[idx]);
    } else {
#ifdef VM_HOST_POINTERS
      // a sandbox whose data pointers ARE host addresses (memory-protection-key style): nothing is
      // added or masked, the region is bounded all the same (impl_is_pointer_in_sandbox_memory)
      return reinterpret_cast<void*>(static_cast<uintptr_t>(p));
#else
      return reinterpret_cast<void*>(base + (confine_pointers ? (static_cast<uintptr_t>(p) & RegionMask) : static_cast<uintptr_t>(p)));
#endif
    }
  }

  template<typename T>
  inline T_PointerType impl_get_sandboxed_pointer(const void* p) const
  {
    if constexpr (std::is_function_v<std::remove_pointer_t<T>>) {
      auto e = reinterpret_cast<const vm_table_entry*>(p);
      if (e < &table[0] || e >= &table[TableSize]) {
        // not one of this instance's functions: a real engine cannot represent it
        detail::dynamic_check(false, "vm backend: function pointer not in this instance's table");
        return 0;
      }
      return static_cast<T_PointerType>(e - &table[0]);
    } else {
#ifdef VM_HOST_POINTERS
      return static_cast<T_PointerType>(reinterpret_cast<uintptr_t>(p));
#else
      return static_cast<T_PointerType>(reinterpret_cast<uintptr_t>(p) - base);
#endif
    }
  }

  template<typename T>
  static inline void* impl_get_unsandboxed_pointer_no_ctx(
    T_PointerType p,
    const void* example_unsandboxed_ptr,
    Self* (*expensive_sandbox_finder)(const void* example_unsandboxed_ptr))
  {
    if constexpr (UseFinder || std::is_function_v<std::remove_pointer_t<T>>) {
      auto sandbox = expensive_sandbox_finder(example_unsandboxed_ptr);
      detail::dynamic_check(sandbox != nullptr, "vm backend: no sandbox owns the example pointer");
      return sandbox->template impl_get_unsandboxed_pointer<T>(p);
    } else {
#ifdef VM_HOST_POINTERS
      return reinterpret_cast<void*>(static_cast<uintptr_t>(p));
#else
      uintptr_t b = reinterpret_cast<uintptr_t>(example_unsandboxed_ptr) & ~RegionMask;
      return reinterpret_cast<void*>(b + (static_cast<uintptr_t>(p) & RegionMask));
#endif
    }
  }

  template<typename T>
  static inline T_PointerType impl_get_sandboxed_pointer_no_ctx(
    const void* p,
    const void* example_unsandboxed_ptr,
    Self* (*expensive_sandbox_finder)(const void* example_unsandboxed_ptr))
  {
    if constexpr (UseFinder || std::is_function_v<std::remove_pointer_t<T>>) {
      auto sandbox = expensive_sandbox_finder(example_unsandboxed_ptr);
      detail::dynamic_check(sandbox != nullptr, "vm backend: no sandbox owns the example pointer");
      return sandbox->template impl_get_sandboxed_pointer<T>(p);
    } else {
#ifdef VM_HOST_POINTERS
      return static_cast<T_PointerType>(reinterpret_cast<uintptr_t>(p));
#else
      uintptr_t b = reinterpret_cast<uintptr_t>(example_unsandboxed_ptr) & ~RegionMask;
      return static_cast<T_PointerType>(reinterpret_cast<uintptr_t>(p) - b);
#endif
    }
  }

  inline T_PointerType impl_malloc_in_sandbox(size_t size)
  {
    n_malloc++;
    if (malloc_override) {
      malloc_override = false;
      return malloc_override_val;
    }
    size_t rounded = (size + 7) & ~size_t(7);
    if (size > RegionSize || bump + rounded > RegionSize) {
      return 0; // allocation failure
    }
#ifdef VM_HOST_POINTERS
    auto ret = static_cast<T_PointerType>(base + bump);
#else
    auto ret = static_cast<T_PointerType>(bump);
#endif
    bump += rounded;
    return ret;
  }

  inline void impl_free_in_sandbox(T_PointerType p)
  {
    n_free++;
    last_freed = p;
  }

#ifndef VM_EXACT_SAME_SANDBOX
  // mask-based, like real plugins: two addresses are "in the same sandbox" when they lie in
  // the same aligned 2^RegionBits block (imprecise for application memory)
  static inline bool impl_is_in_same_sandbox(const void* p1, const void* p2)
  {
    if (same_sandbox_hook != nullptr) {
      same_sandbox_hook(p1, p2);
    }
    return (reinterpret_cast<uintptr_t>(p1) & ~RegionMask) == (reinterpret_cast<uintptr_t>(p2) & ~RegionMask);
  }
#else
  // exact variant (three-argument form, walks the live-sandbox list): both addresses inside
  // the same live sandbox, or both outside every sandbox
  static inline bool impl_is_in_same_sandbox(const void* p1,
                                             const void* p2,
                                             Self* (*expensive_sandbox_finder)(const void* example_unsandboxed_ptr))
  {
    if (same_sandbox_hook != nullptr) {
      same_sandbox_hook(p1, p2);
    }
    if (p1 == nullptr || p2 == nullptr) {
      return p1 == p2;
    }
    return expensive_sandbox_finder(p1) == expensive_sandbox_finder(p2);
  }
#endif

  inline bool impl_is_pointer_in_sandbox_memory(const void* p)
  {
    uintptr_t a = reinterpret_cast<uintptr_t>(p);
    return base != 0 && a >= base && a < base + RegionSize;
  }

  inline bool impl_is_pointer_in_app_memory(const void* p) { return !impl_is_pointer_in_sandbox_memory(p); }

  inline size_t impl_get_total_memory() { return reported_total; }

#ifdef VM_GRANT_DENY
  template<typename T>
  inline T* impl_grant_access(T* src, size_t num, bool& success)
  {
    // every request that reaches the backend is recorded: the range is exposed from here on
    grant_log.push_back({ reinterpret_cast<uintptr_t>(src), num * sizeof(T) });
    success = grant_mode != 0;
    if (grant_mode == 2) {
      // a backend that maps the buffer into its region: the sandbox sees it at this window
      return reinterpret_cast<T*>(base + grant_window);
    }
    return src;
  }
  template<typename T>
  inline T* impl_deny_access(T* src, size_t, bool& success)
  {
    success = deny_mode == 1;
    return src;
  }
#endif

  inline void* impl_get_memory_location() { return reinterpret_cast<void*>(base); }

  // Address used for invocation: host address of the guest-ABI function.
  void* impl_lookup_symbol(const char* func_name)
  {
    n_lookup++;
    int i = func_index(func_name);
    detail::dynamic_check(i != 0, "vm backend: symbol not found");
    return table[i].fn;
  }

  // Address handed to the application as tainted function pointer: application-side
  // representation of the table index.
  void* impl_internal_lookup_symbol(const char* func_name)
  {
    n_internal_lookup++;
    int i = func_index(func_name);
    detail::dynamic_check(i != 0, "vm backend: symbol not found");
    return &table[i];
  }

  template<typename T, typename T_Converted, typename... T_Args>
  auto impl_invoke_with_func_ptr(T_Converted* func_ptr, T_Args&&... params)
  {
    auto& td = tls();
    auto old_sandbox = td.sandbox;
    td.sandbox = this;
    auto on_exit = detail::make_scope_exit([&] { tls().sandbox = old_sandbox; });
    return (*func_ptr)(params...);
  }

  template<typename T_Ret, typename... T_Args>
  inline T_PointerType impl_register_callback(void* key, void* callback)
  {
    for (unsigned s = 0; s < usable_slots; s++) {
      vm_table_entry& e = table[SlotBase + s];
      if (e.kind == vm_table_entry::EMPTY) {
        e.kind = vm_table_entry::CALLBACK;
        e.fn = callback;
        e.key = key;
        e.sig = &vm_sig_tag<T_Ret, T_Args...>::tag;
        return static_cast<T_PointerType>(SlotBase + s);
      }
    }
    // like the bundled backends: no free entry point -> the registration is refused
    detail::dynamic_check(false, "vm backend: no free callback slot");
    return 0;
  }

  static inline std::pair<Self*, void*> impl_get_executed_callback_sandbox_and_key()
  {
    auto& td = tls();
    auto sandbox = td.sandbox;
    void* key = sandbox->table[SlotBase + td.last_callback_invoked].key;
    return std::make_pair(sandbox, key);
  }

  template<typename T_Ret, typename... T_Args>
  inline void impl_unregister_callback(void* key)
  {
    for (unsigned s = 0; s < NSlots; s++) {
      vm_table_entry& e = table[SlotBase + s];
      if (e.kind == vm_table_entry::CALLBACK && e.key == key) {
        e = vm_table_entry{};
        break;
      }
    }
  }
};

} // namespace rlbox
