// C20, compile-time side of "an opaque value ... behaves exactly as the tainted value it came
// from": pairs of one-line programs that differ only in the wrapper form (tainted / opaque) of
// the values crossing the boundary. Compiled with -fsyntax-only, one FORM per run; the pair of
// verdicts is judged by TLC (FormPairAllowed: both accepted or both rejected).
//   FORM = 2*k   : tainted form of pair k          FORM = 2*k+1 : opaque form of pair k
#define RLBOX_USE_EXCEPTIONS
#include "rlbox.hpp"
#include "vm_sandbox.hpp"

using namespace rlbox;
using Sbx = rlbox_vm_sandbox<vm_abi_wasm32, 12>;
using RS = rlbox_sandbox<Sbx>;
using Fn = int (*)(int);

struct PS
{
  long a;
  char b;
  int* c;
  short d;
};
#define sandbox_fields_reflection_vlib_class_PS(f, g, ...)                                                             \
  f(long, a, FIELD_NORMAL, ##__VA_ARGS__) g() f(char, b, FIELD_NORMAL, ##__VA_ARGS__) g()                              \
    f(int*, c, FIELD_NORMAL, ##__VA_ARGS__) g() f(short, d, FIELD_NORMAL, ##__VA_ARGS__) g()
#define sandbox_fields_reflection_vlib_allClasses(f, ...) f(PS, vlib, ##__VA_ARGS__)
rlbox_load_structs_from_library(vlib);

extern "C" {
long f_long(long);
int f_ptr(int*);
int f_long_ptr(long, int*);
int f_fn(Fn);
int f_ps(PS);
int f_charp(const char*);
int f_dbl(double);
}

tainted<long, Sbx> cbt_long(RS&, tainted<long, Sbx>);
tainted_opaque<long, Sbx> cbo_long(RS&, tainted_opaque<long, Sbx>);
tainted<int*, Sbx> cbt_ptr(RS&, tainted<int*, Sbx>);
tainted_opaque<int*, Sbx> cbo_ptr(RS&, tainted_opaque<int*, Sbx>);
void cbt_mixed(RS&, tainted<double, Sbx>, tainted<const char*, Sbx>);
void cbo_mixed(RS&, tainted_opaque<double, Sbx>, tainted_opaque<const char*, Sbx>);

void program(RS& sb, tainted<int[4], Sbx> t_arr, tainted<long, Sbx> t_long, tainted<int*, Sbx> t_ptr, tainted<Fn, Sbx> t_fn, tainted<PS, Sbx> t_ps,
             tainted<const char*, Sbx> t_charp, tainted<double, Sbx> t_dbl)
{
#if FORM == 0
  sb.invoke_sandbox_function(f_long, t_long);
#elif FORM == 1
  sb.invoke_sandbox_function(f_long, t_long.to_opaque());
#elif FORM == 2
  sb.invoke_sandbox_function(f_ptr, t_ptr);
#elif FORM == 3
  sb.invoke_sandbox_function(f_ptr, t_ptr.to_opaque());
#elif FORM == 4
  sb.invoke_sandbox_function(f_long_ptr, t_long, t_ptr);
#elif FORM == 5
  sb.invoke_sandbox_function(f_long_ptr, t_long.to_opaque(), t_ptr.to_opaque());
#elif FORM == 6
  sb.invoke_sandbox_function(f_fn, t_fn);
#elif FORM == 7
  sb.invoke_sandbox_function(f_fn, t_fn.to_opaque());
#elif FORM == 8
  sb.invoke_sandbox_function(f_ps, t_ps);
#elif FORM == 9
  sb.invoke_sandbox_function(f_ps, t_ps.to_opaque());
#elif FORM == 10
  sb.invoke_sandbox_function(f_charp, t_charp);
#elif FORM == 11
  sb.invoke_sandbox_function(f_charp, t_charp.to_opaque());
#elif FORM == 12
  sb.invoke_sandbox_function(f_dbl, t_dbl);
#elif FORM == 13
  sb.invoke_sandbox_function(f_dbl, t_dbl.to_opaque());
#elif FORM == 14
  auto cb = sb.register_callback(cbt_long);
#elif FORM == 15
  auto cb = sb.register_callback(cbo_long);
#elif FORM == 16
  auto cb = sb.register_callback(cbt_ptr);
#elif FORM == 17
  auto cb = sb.register_callback(cbo_ptr);
#elif FORM == 18
  auto cb = sb.register_callback(cbt_mixed);
#elif FORM == 19
  auto cb = sb.register_callback(cbo_mixed);
#elif FORM == 20
  tainted<long, Sbx> r = sb.invoke_sandbox_function(f_long, t_long);
#elif FORM == 21
  tainted_opaque<long, Sbx> r = sb.invoke_sandbox_function(f_long, t_long).to_opaque();
  tainted<long, Sbx> r2 = from_opaque(r);
#elif FORM == 22
  tainted<PS, Sbx> s2 = t_ps;
#elif FORM == 23
  tainted<PS, Sbx> s2 = from_opaque(t_ps.to_opaque());
#elif FORM == 24
  tainted<int[4], Sbx> a1 = t_arr;
  tainted<int[4], Sbx> a2 = a1;
#elif FORM == 25
  auto o1 = t_arr.to_opaque();
  auto o2 = o1;
  tainted<int[4], Sbx> a2 = from_opaque(o2);
#elif FORM == 26
  tainted<PS, Sbx> s1 = t_ps;
  tainted<PS, Sbx> s2 = s1;
  s2 = s1;
#elif FORM == 27
  auto o1 = t_ps.to_opaque();
  auto o2 = o1;
  o2 = o1;
  tainted<PS, Sbx> s2 = from_opaque(o2);
#else
#  error "no such form"
#endif
}
