// C08 conformance driver: for every struct of the generated family records (a) the field
// offsets / size / alignment RLBox uses for the sandbox image, (b) the sandbox image after
// storing a tainted struct or passing it by value, (c) the field values obtained when loading an
// image or receiving a struct by value. Values per slot are distinguishable; boundary rounds
// include values that are not representable in the sandbox ABI (the store must abort).
//
// usage: c08_driver <out> <seed>        (compiled with -include of the generated family)
#define RLBOX_USE_EXCEPTIONS
#include "rlbox.hpp"
#include "vm_sandbox.hpp"
#include "trace.hpp"

#include <sys/wait.h>
#include <unistd.h>

#include <cstring>
#include <limits>
#include <memory>
#include <random>
#include <string>
#include <vector>

using namespace rlbox;
using W = __int128;
#ifndef C08_ABI
#  define C08_ABI vm_abi_wasm32
#endif
using Abi = C08_ABI;
using Sbx = rlbox_vm_sandbox<Abi, 12>;
using RS = rlbox_sandbox<Sbx>;
static const long SIZE = 4096;
static tr::Out out;
static RS* sb;
static uintptr_t BASE;
static unsigned char* MEM;
static unsigned long g_fn_idx = 0; // guest representation of the sandbox function used for fnptr fields

extern "C" {
int gen_target(int);
}
static typename Abi::T_IntType g_gen_target(typename Abi::T_IntType x) { return x; }

template<typename T>
struct GenInfo;

template<typename T>
static W bits_of(T v)
{
  if constexpr (std::is_same_v<T, float>) {
    uint32_t b;
    std::memcpy(&b, &v, 4);
    return b;
  } else if constexpr (std::is_same_v<T, double>) {
    uint64_t b;
    std::memcpy(&b, &v, 8);
    return b;
  } else {
    return (W)v;
  }
}
template<typename T>
static T from_bits(W v)
{
  if constexpr (std::is_same_v<T, float>) {
    uint32_t b = (uint32_t)v;
    float f;
    std::memcpy(&f, &b, 4);
    return f;
  } else if constexpr (std::is_same_v<T, double>) {
    uint64_t b = (uint64_t)v;
    double f;
    std::memcpy(&f, &b, 8);
    return f;
  } else {
    return (T)v;
  }
}

// slot accessors on tainted<T> / tainted_volatile<T> fields
template<typename T, typename F>
static void set_slot(F& field, W v)
{
  if constexpr (std::is_pointer_v<T> && std::is_function_v<std::remove_pointer_t<T>>) {
    if (v == 0) {
      field = nullptr;
    } else {
      field = sb->get_sandbox_function_address(gen_target);
    }
  } else if constexpr (std::is_pointer_v<T>) {
    if (v < 0) {
      field = nullptr;
    } else {
      field = sb->UNSAFE_accept_pointer(reinterpret_cast<T>(BASE + (uintptr_t)v));
    }
  } else {
    field = from_bits<T>(v);
  }
}
template<typename T, typename F>
static W get_slot(F& field)
{
  if constexpr (std::is_pointer_v<T> && std::is_function_v<std::remove_pointer_t<T>>) {
    // report the guest representation of the function pointer
    tainted<T, Sbx> t = field;
    return (W)t.UNSAFE_sandboxed(*sb);
  } else if constexpr (std::is_pointer_v<T>) {
    auto raw = field.UNSAFE_unverified();
    return raw == nullptr ? -1 : (W)reinterpret_cast<uintptr_t>(raw) - (W)BASE;
  } else {
    return bits_of<T>(field.UNSAFE_unverified());
  }
}
template<typename T>
static W raw_slot(const T& v)
{
  if constexpr (std::is_pointer_v<T> && std::is_function_v<std::remove_pointer_t<T>>) {
    // application representation of a sandbox function: address of its table entry
    if (v == nullptr) {
      return 0;
    }
    return (W)(reinterpret_cast<const vm_table_entry*>(v) - &sb->get_sandbox_impl()->table[0]);
  } else if constexpr (std::is_pointer_v<T>) {
    return v == nullptr ? -1 : (W)reinterpret_cast<uintptr_t>(v) - (W)BASE;
  } else {
    return bits_of<T>(v);
  }
}

// value for slot j in round r: distinguishable small values; boundary rounds put an extreme
// value (possibly not representable in the guest type) into one slot
static W slot_value(const char* kind, int j, int round, int nslots)
{
  std::string k = kind;
  W small = 5 + 3 * j;
  if (k == "bool") {
    small = j % 2;
  } else if (k == "ptr") {
    small = 16 + 8 * j;
  } else if (k == "fnptr") {
    small = 1; // a sandbox function
  } else if (k == "float") {
    small = bits_of<float>(1.5f + j);
  } else if (k == "double") {
    small = bits_of<double>(-2.25 - j);
  } else if (k == "enum") {
    small = j % 2;
  }
  if (round == 0) {
    return small;
  }
  int target = (round - 1) / 4 % nslots;
  int which = (round - 1) % 4;
  if (j != target) {
    return small;
  }
  if (k == "ptr") {
    return which == 0 ? -1 : which == 1 ? 0 : which == 2 ? 4092 : 2048;
  }
  if (k == "fnptr") {
    return which % 2 == 0 ? 0 : 1;
  }
  if (k == "bool" || k == "float" || k == "double" || k == "enum") {
    return small;
  }
  W hmin, hmax;
  if (k == "char") {
    hmin = -128, hmax = 127;
  } else if (k == "uchar") {
    hmin = 0, hmax = 255;
  } else if (k == "short") {
    hmin = -32768, hmax = 32767;
  } else if (k == "ushort") {
    hmin = 0, hmax = 65535;
  } else if (k == "int") {
    hmin = -((W)1 << 31), hmax = ((W)1 << 31) - 1;
  } else if (k == "uint") {
    hmin = 0, hmax = ((W)1 << 32) - 1;
  } else if (k == "long") {
    hmin = -((W)1 << 63), hmax = ((W)1 << 63) - 1;
  } else if (k == "ulong") {
    hmin = 0, hmax = ((W)1 << 64) - 1;
  } else {
    hmin = -((W)1 << 63), hmax = ((W)1 << 63) - 1;
  }
  // guest limits of int / long (and their unsigned versions) under the ABI in use
  int gbits = (k == "long" || k == "ulong") ? 8 * (int)sizeof(typename Abi::T_LongType)
              : (k == "int" || k == "uint") ? 8 * (int)sizeof(typename Abi::T_IntType)
                                            : 0;
  W gmax = gbits == 0 ? hmax : (k == "long" || k == "int") ? ((W)1 << (gbits - 1)) - 1 : ((W)1 << gbits) - 1;
  W gmin = gbits == 0 ? hmin : (k == "long" || k == "int") ? -((W)1 << (gbits - 1)) : 0;
  switch (which) {
    case 0:
      return gmax;
    case 1:
      return gmin;
    case 2:
      return gmax + 1 <= hmax ? gmax + 1 : hmax; // just beyond the guest range when the host type is wider
    default:
      return gmin - 1 >= hmin ? gmin - 1 : hmin;
  }
}

static std::vector<unsigned char> g_guest_saw;
static std::vector<unsigned char> g_guest_ret;
template<typename GS>
static GS g_echo(GS s)
{
  g_guest_saw.assign(reinterpret_cast<unsigned char*>(&s), reinterpret_cast<unsigned char*>(&s) + sizeof(GS));
  GS r;
  std::memcpy(&r, g_guest_ret.data(), sizeof(GS) <= g_guest_ret.size() ? sizeof(GS) : g_guest_ret.size());
  return r;
}
static std::vector<vm_export> g_exports;
template<typename S>
static void register_echo(const char* name)
{
  using GS = detail::convert_to_sandbox_equivalent_t<S, Sbx>;
  g_exports.push_back({ name, (void*)&g_echo<GS> });
}

static std::string wlist(const W* v, int n)
{
  std::string s = "[";
  for (int i = 0; i < n; i++) {
    tr::Ev t("x");
    t.s = "";
    t.first = true;
    t.wide("v", v[i]);
    // t.s == "\"v\":{...}" -> keep the object only
    s += std::string(i ? "," : "") + t.s.substr(4);
  }
  return s + "]";
}

template<typename S>
static void run_struct(std::mt19937_64& rng)
{
  using I = GenInfo<S>;
  using GS = detail::convert_to_sandbox_equivalent_t<S, Sbx>;
  sb->get_sandbox_impl()->bump = 8;
  auto ps = sb->malloc_in_sandbox<S>(2);
  uintptr_t addr = reinterpret_cast<uintptr_t>(ps.UNSAFE_unverified());
  long off0 = (long)(addr - BASE);
  {
    long offs[32];
    I::offsets(ps, offs);
    tr::Ev e("layout");
    e.str("struct", I::name).raw("fields", I::fields).nums("offsets", offs, offs + I::nfields);
    e.num("size", (long)(reinterpret_cast<uintptr_t>((ps + 1).UNSAFE_unverified()) - addr)).num("align", (long)alignof(GS));
    e.num("hostsize", (long)sizeof(S));
    out.put(e);
  }
  long gsz = (long)sizeof(GS);
  int rounds = 1 + 4 * I::nslots;
  std::string echo = std::string("echo_") + I::name;
  for (int r = 0; r < rounds; r++) {
    W vals[64], got[64];
    for (int j = 0; j < I::nslots; j++) {
      vals[j] = slot_value(I::slotkinds[j], j, r, I::nslots);
    }
    tainted<S, Sbx> s;
    std::memset((void*)&s, 0, sizeof s);
    bool set_ok = true;
    try {
      I::set(s, vals);
    } catch (const std::runtime_error&) {
      set_ok = false;
    }
    if (!set_ok) {
      continue;
    }
    // (1) whole-struct store into sandbox memory
    std::memset(MEM + off0, 0xEE, 2 * gsz);
    const char* outc = "ok";
    try {
      *ps = s;
    } catch (const std::runtime_error&) {
      outc = "abort";
    }
    {
      tr::Ev e("sstore");
      e.str("struct", I::name).str("path", "assign").raw("fields", I::fields).raw("vals", wlist(vals, I::nslots));
      e.str("out", outc).bytes("image", MEM + off0, gsz);
      // the second array element (a neighbouring object) must be untouched
      bool neighbour_ok = true;
      for (long i = gsz; i < 2 * gsz; i++) {
        neighbour_ok = neighbour_ok && MEM[off0 + i] == 0xEE;
      }
      e.boolean("neighbour", neighbour_ok);
      out.put(e);
    }
    if (std::strcmp(outc, "ok") == 0 && r % 3 == 0) {
      // (1b) the SECOND element of the array of two, designated by p[1]: its image starts one
      // sandbox-ABI struct size after the first, which must stay untouched
      std::memset(MEM + off0, 0xEE, 2 * gsz);
      const char* o1 = "ok";
      try {
        ps[1] = s;
      } catch (const std::runtime_error&) {
        o1 = "abort";
      }
      {
        tr::Ev e("sstore");
        e.str("struct", I::name).str("path", "assign p[1]").raw("fields", I::fields).raw("vals", wlist(vals, I::nslots));
        e.str("out", o1).bytes("image", MEM + off0 + gsz, gsz);
        bool neighbour_ok = true;
        for (long i = 0; i < gsz; i++) {
          neighbour_ok = neighbour_ok && MEM[off0 + i] == 0xEE;
        }
        e.boolean("neighbour", neighbour_ok);
        out.put(e);
      }
      if (std::strcmp(o1, "ok") == 0) {
        const char* lo = "ok";
        try {
          tainted<S, Sbx> s2 = ps[1];
          I::get(s2, got);
        } catch (const std::runtime_error&) {
          lo = "abort";
        }
        tr::Ev e("sload");
        e.str("struct", I::name).str("path", "to_tainted p[1]").raw("fields", I::fields).bytes("image", MEM + off0 + gsz, gsz);
        e.str("out", lo).raw("got", wlist(got, I::nslots));
        out.put(e);
      }
      // restore the first element for the loads below
      std::memset(MEM + off0, 0xEE, 2 * gsz);
      *ps = s;
    }
    if (std::strcmp(outc, "ok") == 0) {
      // (2) loads of that image: whole struct to tainted, field-wise, unwrapped
      {
        const char* lo = "ok";
        try {
          tainted<S, Sbx> s2 = *ps;
          I::get(s2, got);
        } catch (const std::runtime_error&) {
          lo = "abort";
        }
        tr::Ev e("sload");
        e.str("struct", I::name).str("path", "to_tainted").raw("fields", I::fields).bytes("image", MEM + off0, gsz);
        e.str("out", lo).raw("got", wlist(got, I::nslots));
        out.put(e);
      }
      {
        const char* lo = "ok";
        try {
          I::get(*ps, got);
        } catch (const std::runtime_error&) {
          lo = "abort";
        }
        tr::Ev e("sload");
        e.str("struct", I::name).str("path", "field-read").raw("fields", I::fields).bytes("image", MEM + off0, gsz);
        e.str("out", lo).raw("got", wlist(got, I::nslots));
        out.put(e);
      }
      {
        const char* lo = "ok";
        try {
          S raw = ps->UNSAFE_unverified();
          I::get_raw(raw, got);
        } catch (const std::runtime_error&) {
          lo = "abort";
        }
        tr::Ev e("sload");
        e.str("struct", I::name).str("path", "unwrap").raw("fields", I::fields).bytes("image", MEM + off0, gsz);
        e.str("out", lo).raw("got", wlist(got, I::nslots));
        out.put(e);
      }
    }
    // (3) by value: argument and result of an invocation. The conversion of a by-value struct
    // runs inside a noexcept member, so a non-representable field ends in std::terminate:
    // every by-value call runs in a forked child whose terminate handler records the abort.
    g_guest_saw.clear();
    g_guest_ret.assign(MEM + off0, MEM + off0 + gsz);
    out.flush();
    pid_t pid = fork();
    if (pid == 0) {
      static tr::Ev* pending = nullptr;
      tr::Ev st("sstore");
      st.str("struct", I::name).str("path", "byvalue-arg").raw("fields", I::fields).raw("vals", wlist(vals, I::nslots));
      pending = &st;
      std::set_terminate([] {
        pending->str("out", "abort").raw("image", "[]").boolean("neighbour", true).str("how", "terminate");
        out.put(*pending);
        out.flush();
        _exit(0);
      });
      const char* io = "ok";
      bool have_ret = false;
      try {
        auto ret = sb->template INTERNAL_invoke_with_func_name<S(S)>(echo.c_str(), s);
        I::get(ret, got);
        have_ret = true;
      } catch (const std::runtime_error&) {
        io = "abort";
      }
      st.str("out", io);
      if (g_guest_saw.size() == (size_t)gsz) {
        st.bytes("image", g_guest_saw.data(), gsz);
      } else {
        st.raw("image", "[]");
      }
      st.boolean("neighbour", true);
      out.put(st);
      if (have_ret && std::strcmp(outc, "ok") == 0) {
        tr::Ev e("sload");
        e.str("struct", I::name).str("path", "byvalue-ret").raw("fields", I::fields).bytes("image", g_guest_ret.data(), gsz);
        e.str("out", "ok").raw("got", wlist(got, I::nslots));
        out.put(e);
      }
      out.flush();
      _exit(0);
    }
    int wst = 0;
    waitpid(pid, &wst, 0);
    if (!WIFEXITED(wst) || WEXITSTATUS(wst) != 0) {
      tr::Ev e("sstore");
      e.str("struct", I::name).str("path", "byvalue-arg").raw("fields", I::fields).raw("vals", wlist(vals, I::nslots));
      e.str("out", "crash").raw("image", "[]").boolean("neighbour", true);
      out.put(e);
    }
    // the child appended to the same file: continue after its output
    std::fseek(out.f, 0, SEEK_END);
  }
  (void)rng;
}

#include "c08_gen.inc"

int main(int argc, char** argv)
{
  if (argc < 3 || !out.open(argv[1])) {
    return 2;
  }
  std::mt19937_64 rng(std::atoll(argv[2]));
  g_exports.push_back({ "gen_target", (void*)&g_gen_target });
  register_all();
  static vm_library lib = { 1, g_exports };
  RS sandbox;
  sandbox.create_sandbox(&lib);
  sb = &sandbox;
  BASE = sandbox.get_sandbox_impl()->base;
  MEM = sandbox.get_sandbox_impl()->mem();
  g_fn_idx = sandbox.get_sandbox_impl()->func_index("gen_target");
  run_all(rng);
  sandbox.destroy_sandbox();
  out.close();
  return 0;
}
