"""C15 - app-pointer tokens are non-zero, bounded, unique and resolve to their pointer.

spec/AppPtrContract.tla  Contract (Allowed/Apply/CInv)
spec/AppPtr.tla          Model of get_unused_index + app_pointer special members;
                         TLC: Model => Contract, invariants, edge emission
spec/Trace_AppPtr.tla    trace validation of what the real code did
harness/c15_driver.cpp   dumb executor on real app_pointer_map<T> / app_pointer owners
"""
import os
import random

import vp

MAP_CFG = """SPECIFICATION MSpec
CONSTANTS
  Max = %d
  Owners = {%s}
  EmitEdges = %s
VIEW View
INVARIANTS TypeOK ContractInv
PROPERTY Refines
ACTION_CONSTRAINT Emit
"""


def ev_to_line(ev):
    e = ev["e"]
    if e == "get":
        return "get"
    if e in ("remove", "lookup", "lookupt"):
        return "%s %d" % (e, ev["t"])
    if e in ("oget", "ounreg", "odestroy", "olookup"):
        return "%s %s" % (e, ev["o"])
    if e in ("omovec", "omovea"):
        return "%s %s %s" % (e, ev["o"], ev["o2"])
    raise vp.Broken("unknown model event " + str(ev))


def model_run(chk, wd, maxv, owners, emit, workers=1, timeout=600):
    cfg = os.path.join(wd, "MC_AppPtr_%d_%d_%d.cfg" % (maxv, len(owners), emit))
    with open(cfg, "w") as f:
        f.write(MAP_CFG % (maxv, ", ".join('"%s"' % o for o in owners), "TRUE" if emit else "FALSE"))
    r = vp.tlc(os.path.join(vp.SPEC, "AppPtr.tla"), cfg, workers=workers, timeout=timeout)
    name = "AppPtr Max=%d owners=%d%s" % (maxv, len(owners), " +edges" if emit else "")
    chk.add_tlc(name, r, "Model=>Contract (Refines), TypeOK, ContractInv; complete state space")
    if r.violated or not r.ok:
        # the transcribed design violates the Contract: report as a violation of the property
        chk.violation("design check failed: %s violated in AppPtr.tla (Max=%d, owners=%s)" %
                      (r.violated, maxv, owners), {"tlc_tail": r.out[-3000:], "cfg": open(cfg).read()})
        return None
    return r.printed("EDGE") if emit else []


def directed(limit, mode):
    """fill to exhaustion, release the k-th, re-acquire, wrap the cursor; stale lookups"""
    L = ["reset %d %s" % (limit, mode)]
    L += ["get"] * (limit + 1)           # last one must abort
    ks = sorted(set([1, limit, (limit + 1) // 2, max(1, limit - 1)]))
    for k in ks:
        L += ["remove %d" % k, "lookup %d" % k, "get", "lookup %d" % k, "get"]
    L += ["lookup 0"] if False else []
    L += ["remove %d" % k for k in range(1, limit + 1, max(1, limit // 7))]
    L += ["get"] * (len(range(1, limit + 1, max(1, limit // 7))) + 1)
    L += ["lookup %d" % (limit + 1)] if limit < 254 else []
    return L


def random_history(rng, limit, mode, n):
    L = ["reset %d %s" % (limit, mode)]
    for _ in range(n):
        r = rng.random()
        if r < 0.5:
            L.append("get")
        elif r < 0.8:
            L.append("remove %d" % rng.randint(1, limit))
        else:
            L.append("lookup %d" % rng.randint(1, min(limit + 1, 2 ** 31 - 2)))
    return L


def random_owner_history(rng, limit, n):
    """random owner-level history; the driver skips actions whose object-lifetime
    preconditions do not hold (logged as "skip")"""
    L = ["reset %d owner unwind" % limit]      # (random histories also destroy owners by stack unwinding)
    names = ["o1", "o2", "o3"]
    for _ in range(n):
        o, o2 = rng.choice(names), rng.choice(names)
        r = rng.random()
        if r < 0.3:
            L.append("oget " + o)
        elif r < 0.4:
            L.append("ounreg " + o)
        elif r < 0.5:
            L.append("odestroy " + o)
        elif r < 0.65:
            L.append("omovec %s %s" % (o, o2))
        elif r < 0.8:
            L.append("omovea %s %s" % (o, o2))
        elif r < 0.9:
            L.append("olookup " + o)
        else:
            L.append("lookupt %d" % rng.randint(1, limit))
    return L


def run(tier):
    chk = vp.Check("C15", tier)
    rng = random.Random(vp.seed())
    wd = vp.workdir("c15")
    thorough = tier == "thorough"

    # 1. design check + enumeration ------------------------------------------------------
    emit_limits = list(range(1, 9)) if thorough else list(range(1, 7))
    ref_limits = [10, 12, 14] if thorough else [9, 11]
    walks = []          # list of (header line, [edge dicts])
    n_edges = 0
    for L in emit_limits:
        edges = model_run(chk, wd, L, [], True)
        if edges is None:
            return chk.finish()
        n_edges += len(edges)
        init = {"u": [], "c": 1, "o": []}
        for w in vp.cover_walks(edges, init, maxlen=2000):
            walks.append(("reset %d map8" % L, w))
    for L in ref_limits:
        if model_run(chk, wd, L, [], False, workers=4) is None:
            return chk.finish()
    for maxv in ([1, 2, 3] if thorough else [1, 2]):
        owners = ["o1", "o2", "o3"]
        edges = model_run(chk, wd, maxv, owners, True)
        if edges is None:
            return chk.finish()
        n_edges += len(edges)
        init = {"u": [], "c": 1, "o": {o: -1 for o in owners}}
        for w in vp.cover_walks(edges, init, maxlen=2000):
            walks.append(("reset %d owner" % maxv, w))

    # 2. replay on the real code -----------------------------------------------------------
    drv = vp.build("c15_driver", ["c15_driver.cpp"], flags=["-DRLBOX_USE_EXCEPTIONS"])
    lines = []
    expected = []       # model-predicted events, aligned with non-reset trace lines
    for hdr, w in walks:
        lines.append(hdr)
        expected.append(None)
        for e in w:
            lines.append(ev_to_line(e["ev"]))
            expected.append(e["ev"])
    n_model_exec = len(walks)
    # directed + random histories (beyond the exhaustively explored limits)
    extra = []
    limits = list(range(1, 255)) if thorough else [1, 2, 3, 7, 8, 15, 16, 17, 31, 64, 127, 128, 200, 253, 254]
    for L in limits:
        extra.append(directed(L, "map8"))
    # the limit equal to the maximum of the token type: the cursor wraps to 0 after the top token
    # (never exhausted: the scan of a full table with this limit does not terminate in the code)
    # (the same history for a 16-bit token type would make the fold quadratic in 65 535 live tokens: not run)
    for mode, top in (("map8", 255),):
        h = ["reset %d %s" % (top, mode)] + ["get"] * (top - 1) + ["remove 1", "remove 7", "get", "get", "lookup 1",
                                                                   "get", "lookup 7", "remove %d" % top, "get", "lookup %d" % top]
        extra.append(h)
    for mode, lim in (("map16", 300), ("map32", 70000), ("map64", 5000), ("mapi32", 100), ("map8", 254),
                      ("map16", 65534)):
        for _ in range(8 if thorough else 2):
            extra.append(random_history(rng, rng.randint(1, lim), mode, 400 if thorough else 150))
    for _ in range(200 if thorough else 40):
        extra.append(random_owner_history(rng, rng.randint(1, 6), 60))
    for h in extra:
        lines += h
        expected += [None] * len(h)
    wpath = os.path.join(wd, "walks.txt")
    tpath = os.path.join(wd, "trace.ndjson")
    with open(wpath, "w") as f:
        f.write("\n".join(lines) + "\n")
    p = vp.run([drv, wpath, tpath], timeout=600 if thorough else 240)
    if p.returncode not in (0, 3):
        raise vp.Broken("c15_driver rc=%d: %s" % (p.returncode, p.stderr[-500:]))
    events = vp.read_ndjson(tpath)

    # 3. oracle: TLC folds the Contract over the recorded trace ----------------------------
    # the fold restarts at every `reset`: long traces are cut at resets and the pieces validated in parallel
    starts = [i for i, e in enumerate(events) if e["e"] == "reset"]
    if not starts or starts[0] != 0:
        raise vp.Broken("trace does not start with a reset")
    npieces = max(1, min(12, len(events) // 15000))
    cuts = [starts[(len(starts) * k) // npieces] for k in range(npieces)] + [len(events)]
    cuts = sorted(set(cuts))
    pieces = [(cuts[k], cuts[k + 1]) for k in range(len(cuts) - 1)]

    def validate_piece(k):
        lo, hi = pieces[k]
        ppath = os.path.join(wd, "trace_piece_%d.ndjson" % k)
        vp.write_ndjson(ppath, events[lo:hi])
        rr = vp.tlc(os.path.join(vp.SPEC, "Trace_AppPtr.tla"), os.path.join(vp.SPEC, "Trace_AppPtr.cfg"),
                    name="Trace_AppPtr_%d" % k, workers=1, timeout=900, env={"TRACE": ppath})
        rs = rr.printed("RESULT")
        if len(rs) != 1 or rs[0]["n"] != hi - lo:
            raise vp.Broken("trace validation did not complete (piece %d): %s" % (k, rr.out[-1500:]))
        return rr, [b + lo for b in rs[0]["bad"]]
    from concurrent.futures import ThreadPoolExecutor
    with ThreadPoolExecutor(max_workers=6) as ex:
        outs = list(ex.map(validate_piece, range(len(pieces))))
    r = outs[0][0]
    res = [{"bad": sorted(b for _, bs in outs for b in bs), "n": len(events)}]
    chk.add_tlc("Trace_AppPtr", r, "trace validation of %d recorded events (in %d pieces cut at resets)" % (len(events), len(pieces)))
    n_exec = sum(1 for e in events if e["e"] == "reset")
    # the same refusals in the library's DEFAULT failure configuration (no exceptions, no custom handler): the process ends
    import abortcommon
    abortcommon.judge(chk, wd, "C15")
    chk.count(evaluations=len(events), distinct=n_edges, traces=n_exec)
    for b in res[0]["bad"]:
        i = b - 1
        # context: the execution this event belongs to
        s = i
        while s > 0 and events[s]["e"] != "reset":
            s -= 1
        chk.violation("event %d outside the C15 Contract: %s" % (b, events[i]),
                      {"walk": lines[s:i + 1], "events": events[s:i + 1],
                       "how": "bin/replay C15 <this file>"})
    if p.returncode == 3 and not res[0]["bad"]:
        chk.violation("driver terminated (abort escaped a destructor) at: %s" % events[-1],
                      {"events": events[-5:]})

    # 4. drift: Model prediction vs observation (inside the Contract, never a verdict) ----
    # (xlookup events are the driver's own additions after a step, not steps of the schedule)
    for exp, obs in zip(expected, [e for e in events if e["e"] not in ("xlookup", "unwound", "sbxcycle")]):
        if exp is None:
            continue
        for k in ("out", "t"):
            if k in exp and exp[k] != obs.get(k):
                chk.drift({"expected": exp, "observed": obs})
                break
    for ev in events[1:4] + events[len(events) // 2:len(events) // 2 + 2]:
        chk.sample(ev)
    chk.cov["exhaustive"] = True
    chk.cov["exhaustive_scope"] = ("complete state space + every edge replayed for limits %s (8-bit token type) and "
                                   "owner-level models; directed/random beyond (not exhaustive)" % emit_limits)
    chk.cov["model_edges_replayed"] = n_edges
    chk.cov["model_walks"] = n_model_exec
    chk.assumptions += ["complete exploration is per limit <= %d; limits up to 254 by directed and random histories"
                        % max(emit_limits + ref_limits),
                        "the vm backend's reported_total knob sets the token limit for owner-level runs"]
    return chk.finish(rule="one evaluation = one recorded API call validated by TLC against AppPtrContract; "
                           "distinct_nontrivial = distinct edges of the Model's state graph that were replayed")
