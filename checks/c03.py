"""C03 - every tainted data pointer is null or points into its own sandbox.

 (a) position sweeps (spec/Mem.tla PtrLoadAllowed): guest pointer representations - every one
     below 2^16 (2^20), boundary values up to 2^32-1, the low bits of the other sandboxes' bases,
     random ones - placed in every position a pointer can occupy (memory cell, array element,
     array copy, struct field, struct copy, struct unwrap, invocation result, callback argument,
     opaque round trip, casts) with three live sandboxes;
 (b) chains (NeverOut): depth-bounded exhaustive DFS over 16 pointer-producing operations
     (+ - with in-range / out-of-range / wrapping operands, &[], casts through wider pointees,
     opaque round trip, store-and-reload through a sandbox cell, memset return) from null, first
     byte, last byte and interior addresses; allocation incl. a misbehaving allocator;
     app_pointer::to_tainted; the checked raw-pointer entry points for every address class."""
from concurrent.futures import ThreadPoolExecutor

import os

import memcommon as mc
import vp


def run(tier):
    chk = vp.Check("C03", tier)
    wd = vp.workdir("c03")
    thorough = tier == "thorough"
    drv = mc.drivers()
    jobs = [("ptr", "mask"), ("ptr", "lp16"), ("ptr", "lp64u"), ("chain", "mask"), ("chain", "finder"), ("chain", "lp16"),
            ("chain", "lp64u"), ("chain", "gd"), ("chain", "hostptr")]
    if thorough:
        jobs += [("ptr", "finder"), ("ptr", "lp16_finder"), ("chain", "lp16_finder")]

    def one(j):
        mode, tag = j
        tpath = mc.record(drv["mem_" + tag], wd, mode, tag, thorough)
        return j, mc.validate(chk, tpath, "%s/%s" % (mode, tag))
    with ThreadPoolExecutor(max_workers=8) as ex:
        results = list(ex.map(one, jobs))
    total, combos = 0, set()
    for (mode, tag), (events, bad) in results:
        total += len(events)
        for e in events:
            if e["e"] in ("ptrload", "ptrloadrun"):
                combos.add((tag, e["pos"], e["cls"]))
            elif e["e"] == "ptrchain":
                combos.add((tag, e["chain"], e["cls"]))
        for b, ev in bad:
            if ev["e"] == "ptrstore":
                continue      # representation fidelity of stores is C04's
            chk.violation("[%s/%s] tainted pointer outside its sandbox (C03): %s" % (mode, tag, mc.pretty(ev)), mc.pretty(ev))
        if mode == "chain":
            if len(events) > 7:
                chk.sample(mc.pretty(events[7]))
    # pointer arithmetic on backends whose range check compares the OWNERS of two addresses (found by walking the
    # live-sandbox list), with one live sandbox and with an older one destroyed first: nothing leaves the sandbox
    import addrcommon as ac
    pdrvs = vp.build_many([("ptr_driver_exact_alone", ["ptr_driver.cpp"], ["-DVM_EXACT_SAME_SANDBOX", "-DSBX_ALONE"], "-O2"),
                           ("ptr_driver_exact_last", ["ptr_driver.cpp"], ["-DVM_EXACT_SAME_SANDBOX", "-DSBX_LAST"], "-O2")])
    for nm, pd in sorted(pdrvs.items()):
        ppath = os.path.join(wd, nm + ".ndjson")
        pp = vp.run([pd, "c05", ppath, str(vp.seed()), "0"], timeout=1100)
        vp.exit_ok(pp, nm)
        pev, pbad = ac.validate(chk, ppath, nm)
        total += len(pev)
        combos |= set((nm, e["op"], e.get("cls", e.get("out"))) for e in pev)
        for b, ev in pbad:
            chk.violation("[%s] pointer arithmetic yields a pointer outside the sandbox, or refuses one inside (C03/C05): %s" %
                          (nm, ac.pretty(ev)), ac.pretty(ev))
    # pointers read from a cell that the sandbox rewrites after every read: *p, p->, p[n], p +/- n
    import fetchcommon as fc
    nf, cf = fc.judge(chk, wd, "c03", "C03", ("wasm32", "ilp64", "lp16"))
    total += nf
    combos |= cf
    # the same refusals in the library's DEFAULT failure configuration (no exceptions, no custom handler): the process ends
    import abortcommon
    abortcommon.judge(chk, wd, "C03")
    chk.count(evaluations=total, distinct=len(combos), traces=len(jobs))
    chk.cov["exhaustive"] = True
    chk.cov["exhaustive_scope"] = "all representations < 2^16 (2^20 thorough) in the memory-cell position and a quarter of them " \
                                  "(all, thorough) in 11 further positions; all operation chains to depth 3 (4 thorough) over 16 " \
                                  "operations from 4 seeds"
    chk.assumptions += ["function pointers are excluded by the property (data pointers only); casts between function and data "
                        "pointers are judged as program forms by C01/C02's corpus",
                        "grant-access is not available on bounded backends (can_grant_deny_access is only defined by the "
                        "no-op/dylib backends whose membership predicate is constantly true)"]
    return chk.finish(rule="one evaluation = one pointer obtained from a position or operation chain, judged by TLC "
                           "(PtrLoadAllowed / NeverOut); distinct_nontrivial = distinct (variant, position or chain, class)")
