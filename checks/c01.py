"""C01 - sandbox data cannot lose its taint implicitly (and, shared pipeline, the program part
of C02).

spec/Taint.tla defines the program space (forms x operands x right operands) and the Contract
FormAllowed; TLC enumerates the space (MC_Taint), gen/taint_corpus.py renders every program as C++
against the real headers and records the compiler's verdict and the type of every accepted
expression; TLC judges every observation (Trace_Taint)."""
import json
import os
import sys

import vp

sys.path.insert(0, os.path.join(vp.VERIF, "gen"))
import taint_corpus as tc  # noqa: E402


def observe(chk, wd, thorough, classes=None):
    cfg = os.path.join(vp.SPEC, "MC_Taint_full.cfg" if thorough else "MC_Taint_quick.cfg")
    r = vp.tlc(os.path.join(vp.SPEC, "MC_Taint.tla"), cfg, workers=1, timeout=600, xmx="6g")
    cnt = r.printed("COUNT")
    progs = r.printed("PROGRAMS")
    chk.add_tlc("MC_Taint", r, "enumeration of the program space %s and closure lemma" % (cnt[0] if cnt else ""))
    if len(progs) != 1:
        raise vp.Broken("MC_Taint printed no PROGRAMS: " + r.out[-800:])
    progs = sorted(progs[0], key=lambda p: (p["cls"], p["form"], p["x"]["v"], p["y"]["v"]))
    if classes:
        progs = [p for p in progs if p["cls"] in classes]
    try:
        res, stats = tc.compile_corpus(progs, vp.INC, vp.HARNESS, os.path.join(wd, "corpus"), batch=60, jobs=vp.NCPU)
    except RuntimeError as e:
        raise vp.Broken(str(e))
    events = []
    for p, o in zip(progs, res):
        ev = dict(p)
        ev["verdict"] = o["verdict"]
        ev["rk"] = o["rk"]
        ev["text"] = o["text"]
        ev["type"] = o.get("type", "")
        events.append(ev)
    chk.cov["compile_stats"] = stats
    return events


def judge(chk, wd, events, full):
    tpath = os.path.join(wd, "programs.ndjson")
    vp.write_ndjson(tpath, events)
    cfgt = os.path.join(wd, "Trace_Taint.cfg")
    with open(cfgt, "w") as f:
        f.write("SPECIFICATION Spec\nCONSTANT FullRhs = FALSE\n")
    r = vp.tlc(os.path.join(vp.SPEC, "Trace_Taint.tla"), cfgt, workers=1, timeout=900, env={"TRACE": tpath}, xmx="8g")
    res = r.printed("RESULT")
    if len(res) != 1 or res[0]["n"] != len(events):
        raise vp.Broken("Trace_Taint did not complete: " + r.out[-1500:])
    chk.add_tlc("Trace_Taint", r, "constant-level evaluation of FormAllowed on %d observed programs" % len(events))
    return [events[b - 1] for b in res[0]["bad"]]


def baseline_drift(chk, events):
    """Model side: the verdict table recorded on the reference tree (spec/taint_baseline.json).
    Differences that stay inside the Contract are DRIFT, never a verdict."""
    path = os.path.join(vp.SPEC, "taint_baseline.json")
    if not os.path.exists(path):
        return
    base = json.load(open(path))
    for ev in events:
        k = "%s|%s|%s" % (ev["form"], ev["x"]["v"], ev["y"]["v"])
        b = base.get(k)
        if b is not None and b != [ev["verdict"], ev["rk"]]:
            chk.drift({"program": ev["text"], "baseline": b, "observed": [ev["verdict"], ev["rk"]]})


def run(tier):
    chk = vp.Check("C01", tier, level="translation_validation")
    wd = vp.workdir("c01")
    thorough = tier == "thorough"
    events = observe(chk, wd, thorough, ("unwrap", "nulltest", "conv", "expr", "rangecmp", "cbparam"))
    mine = [e for e in events if e["cls"] in ("unwrap", "nulltest", "conv", "expr", "rangecmp", "cbparam")]
    for ev in judge(chk, wd, mine, thorough):
        chk.violation("program outside the C01 Contract: `%s` (%s, operand %s %s) -> %s %s %s" %
                      (ev["text"], ev["cls"], ev["x"]["k"], ev["x"]["t"], ev["verdict"], ev["rk"], ev["type"][:80]),
                      {k: ev[k] for k in ("form", "cls", "text", "verdict", "rk", "type", "x", "y")})
    baseline_drift(chk, mine)
    acc = sum(1 for e in mine if e["verdict"] == "accept")
    chk.cov["programs"] = len(mine)
    chk.cov["disagreements_checked"] = len(mine)
    chk.cov["accepted"] = acc
    # the same rejections as run-time failures (RLBOX_NO_COMPILE_CHECKS, no exceptions): each forbidden use ends the process
    import abortcommon
    abortcommon.judge(chk, wd, "C01", driver="nocc_driver")
    chk.count(evaluations=len(mine), distinct=len(set((e["form"], e["x"]["k"], e["x"]["t"], e["y"]["k"]) for e in mine)), traces=1)
    for ev in [e for e in mine if e["verdict"] == "accept"][:2] + [e for e in mine if e["verdict"] == "reject"][:2]:
        chk.sample({k: ev[k] for k in ("text", "cls", "verdict", "rk")})
    chk.cov["exhaustive"] = True
    chk.cov["exhaustive_scope"] = "the finite program space of spec/Taint.tla: %d forms x 31 wrapper operands x %s right operands " \
                                  "(depth-1 expressions; chains by the closure lemma)" % (
                                      len(set(e["form"] for e in mine)), "15" if thorough else "8")
    chk.assumptions += ["one compiler (g++ 12, -std=c++17), the repository's own",
                        "object-representation punning (reinterpret_cast<int&>(t), memcpy of the wrapper object, C varargs) is "
                        "outside what a library can police and outside the domain",
                        "INTERNAL_unverified_safe() is a named explicit call (alias of UNSAFE_unverified)"]
    return chk.finish(rule="one evaluation = one generated program compiled against the headers (verdict + type of the "
                           "expression), judged by TLC (FormAllowed); distinct_nontrivial = distinct (form, operand kind, "
                           "operand type class, right-operand kind)")
