"""C08 - struct marshalling follows the sandbox ABI layout and round-trips every field.

spec/Layout.tla: (1) layout state machine <<offset mod 8, max alignment>> x AppendField(kind),
explored completely by TLC, every transition emitted -> gen/struct_family.py turns the covering
walks into a struct family (every field kind after every layout state); (2) Contracts
LayoutAllowed / SStoreAllowed / SLoadAllowed evaluated by TLC (Trace_Layout) on what
harness/c08_driver.cpp records from the real headers for every generated struct."""
import os
import sys

import vp

sys.path.insert(0, os.path.join(vp.VERIF, "gen"))
import struct_family as sf  # noqa: E402


MC = {"wasm32": "MC_Layout", "lp64u": "MC_Layout_lp64u", "lp16": "MC_Layout_lp16"}
FIXED = [["long", "char", "ptr", "short", "inner", "fnptr", "larr2", "llong"],
         ["char", "llong", "carr3", "parr2", "bool", "double", "uchar", "enum"],
         ["float", "iarr2", "ulong", "ushort", "uint", "int", "carr3", "long"],
         ["short", "iarr2x2", "char", "larr2x2", "carr2x2", "int"],
         ["char", "innerp", "short", "inner", "ptr"],
         # (a narrower guest long absorbed by the padding before a long long: equal sizes, different layouts)
         ["long", "llong"], ["int", "long", "llong", "ptr", "llong"]]


def run_abi(chk, wd, abi, thorough, nsample):
    """Layout state machine of one guest ABI -> struct family -> driver -> Trace_Layout."""
    mc = MC[abi]
    r = vp.tlc(os.path.join(vp.SPEC, mc + ".tla"), os.path.join(vp.SPEC, mc + ".cfg"), workers=1, timeout=300)
    chk.add_tlc(mc, r, "layout state machine (offset mod 8, max alignment) x 20 field kinds of the %s ABI, complete" % abi)
    if r.violated or not r.ok:
        chk.violation("design check failed in Layout.tla (%s): %s" % (abi, r.violated), {"tlc_tail": r.out[-2000:]})
        return None
    edges = r.printed("EDGE")
    # one statement of the ABI: the generator's descriptors must agree with the spec's Kinds
    kd = sf.kinds_for(abi)
    for e in edges:
        if sf.size_align(kd[e["ev"]["kind"]][1]) != (e["ev"]["gs"], e["ev"]["ga"]):
            raise vp.Broken("struct_family and %s disagree on kind %s" % (mc, e["ev"]["kind"]))
    walks = vp.cover_walks(edges, edges[0]["src"], maxlen=8)
    structs = sf.family_from_walks(walks)
    # quick tier: a seeded sample of the family + fixed structs with every kind first and last
    if not thorough:
        import random
        rng = random.Random(vp.seed())
        rest = list(structs)
        rng.shuffle(rest)
        structs = FIXED + rest[:nsample]
    gdir = os.path.join(wd, "gen_" + abi)
    os.makedirs(gdir, exist_ok=True)
    src = sf.gen(structs, abi)
    with open(os.path.join(gdir, "c08_gen.inc"), "w") as f:
        f.write(src)
    import hashlib
    gh = int(hashlib.sha256(src.encode()).hexdigest()[:7], 16)
    drv = vp.build("c08_driver_" + abi, ["c08_driver.cpp"],
                   ["-DVM_MAX_FUNCS=400", "-I" + gdir, "-DGENHASH=%d" % gh, "-DC08_ABI=vm_abi_" + abi], "-O1")
    tpath = os.path.join(wd, "c08_%s.ndjson" % abi)
    p = vp.run([drv, tpath, str(vp.seed())], timeout=1100)
    if p.returncode < 0:
        # the executor died on a signal (an abort escaping as std::terminate, a fault) while driving the real
        # headers through struct copies: an observation - what was recorded so far is still judged below
        evs = vp.read_ndjson(tpath)
        chk.violation("struct driver [%s ABI] died (rc=%d) after %d events: %s" %
                      (abi, p.returncode, len(evs), p.stderr[-200:].strip().replace("\n", " ")),
                      {"abi": abi, "rc": p.returncode, "last_event": {k: v for k, v in (evs[-1] if evs else {}).items() if k != "fields"}})
    elif p.returncode != 0:
        raise vp.Broken("c08_driver(%s) rc=%d %s" % (abi, p.returncode, p.stderr[-300:]))
    events = vp.read_ndjson(tpath)
    rr = vp.tlc(os.path.join(vp.SPEC, "Trace_Layout.tla"), os.path.join(vp.SPEC, "Trace_Layout.cfg"), workers=1,
                name="Trace_Layout_" + abi, timeout=1100, env={"TRACE": tpath}, xmx="8g")
    res = rr.printed("RESULT")
    if len(res) != 1 or res[0]["n"] != len(events):
        raise vp.Broken("Trace_Layout did not complete: " + rr.out[-1500:])
    chk.add_tlc("Trace_Layout (%s)" % abi, rr, "constant-level evaluation of the Layout Contracts on %d recorded events" % len(events))
    for b in res[0]["bad"]:
        ev = dict(events[b - 1])
        ev.pop("fields", None)
        st = structs[int(ev["struct"][2:])]
        chk.violation("struct event outside the C08 Contract [%s ABI]: struct %s fields %s: %s" % (abi, ev["struct"], st, str(ev)[:700]),
                      {"abi": abi, "struct": st, "event": events[b - 1]})
    return events, structs, edges, walks


def run(tier):
    chk = vp.Check("C08", tier)
    wd = vp.workdir("c08")
    thorough = tier == "thorough"
    from concurrent.futures import ThreadPoolExecutor
    abis = [("wasm32", 9), ("lp64u", 3), ("lp16", 3)]
    with ThreadPoolExecutor(max_workers=3) as ex:
        results = list(ex.map(lambda a: run_abi(chk, wd, a[0], thorough, a[1]), abis))
    if any(r is None for r in results):
        return chk.finish()
    events = [e for r in results for e in r[0]]
    if not events and chk.violations:
        return chk.finish()          # every driver died before its first event: nothing else to report
    nstructs = sum(len(r[1]) for r in results)
    structs, edges, walks = results[0][1], [e for r in results for e in r[2]], [w for r in results for w in r[3]]
    chk.count(evaluations=len(events), distinct=nstructs + len(edges), traces=nstructs)
    chk.sample({"struct": structs[0], "layout": {k: v for k, v in events[0].items() if k != "fields"}})
    chk.cov["structs"] = nstructs
    chk.cov["abis"] = [a for a, _ in abis]
    chk.cov["family_total"] = len(walks)
    chk.cov["layout_transitions"] = len(edges)
    chk.cov["exhaustive"] = thorough
    chk.cov["scope"] = "structs covering every (layout state, field kind) transition%s; per struct 1 + 4 x slots value rounds " \
                       "(distinct values per slot; guest max/min and just beyond in one slot at a time; null/offset pointers; " \
                       "null/sandbox function pointers) through whole-struct store, to-tainted / field-wise / unwrapped load, " \
                       "by-value argument and by-value result" % ("" if thorough else " (quick tier: 12 of the family under wasm32, 6 under lp64u and lp16 each)")
    chk.assumptions += ["const-qualified fields are not in the family (tainted structs with const fields cannot be assigned "
                        "field-wise by the driver)",
                        "by-value conversion of a non-representable field ends in std::terminate (noexcept member): "
                        "observed in a forked child and counted as abort",
                        "guest sizes/alignments of the field kinds are the harness' statement of the three guest ABIs (wasm32, lp64u, lp16), "
                        "stated once in gen/struct_family.py and once in spec/MC_Layout*.tla and cross-checked"]
    return chk.finish(rule="one evaluation = one layout / struct-store / struct-load event judged by TLC; distinct_nontrivial = "
                           "structs of the family + layout transitions covered")
