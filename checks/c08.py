"""C08 - struct marshalling follows the sandbox ABI layout and round-trips every field.

spec/Layout.tla: (1) layout state machine <<offset mod 8, max alignment>> x AppendField(kind),
explored completely by TLC, every transition emitted -> gen/struct_family.py turns the covering
walks into a struct family (every field kind after every layout state); (2) Contracts
LayoutAllowed / SStoreAllowed / SLoadAllowed evaluated by TLC (Trace_Layout) on what
harness/c08_driver.cpp records from the real headers for every generated struct."""
import os
import sys

import vp

sys.path.insert(0, os.path.join(vp.VERIF, "gen"))
import struct_family as sf  # noqa: E402


def run(tier):
    chk = vp.Check("C08", tier)
    wd = vp.workdir("c08")
    thorough = tier == "thorough"
    r = vp.tlc(os.path.join(vp.SPEC, "MC_Layout.tla"), os.path.join(vp.SPEC, "MC_Layout.cfg"), workers=1, timeout=300)
    chk.add_tlc("MC_Layout", r, "layout state machine (offset mod 8, max alignment) x 20 field kinds, complete")
    if r.violated or not r.ok:
        chk.violation("design check failed in Layout.tla: %s" % r.violated, {"tlc_tail": r.out[-2000:]})
        return chk.finish()
    edges = r.printed("EDGE")
    walks = vp.cover_walks(edges, edges[0]["src"], maxlen=8)
    structs = sf.family_from_walks(walks)
    # quick tier: a seeded sample of the family + fixed structs with every kind first and last
    if not thorough:
        import random
        rng = random.Random(vp.seed())
        fixed = [["long", "char", "ptr", "short", "inner", "fnptr", "larr2", "llong"],
                 ["char", "llong", "carr3", "parr2", "bool", "double", "uchar", "enum"],
                 ["float", "iarr2", "ulong", "ushort", "uint", "int", "carr3", "long"]]
        rest = list(structs)
        rng.shuffle(rest)
        structs = fixed + rest[:9]
    gdir = os.path.join(wd, "gen")
    os.makedirs(gdir, exist_ok=True)
    with open(os.path.join(gdir, "c08_gen.inc"), "w") as f:
        f.write(sf.gen(structs))
    import hashlib
    gh = int(hashlib.sha256(sf.gen(structs).encode()).hexdigest()[:7], 16)
    drv = vp.build("c08_driver", ["c08_driver.cpp"], ["-DVM_MAX_FUNCS=250", "-I" + gdir, "-DGENHASH=%d" % gh], "-O1")
    tpath = os.path.join(wd, "c08.ndjson")
    p = vp.run([drv, tpath, str(vp.seed())], timeout=1100)
    if p.returncode != 0:
        raise vp.Broken("c08_driver rc=%d %s" % (p.returncode, p.stderr[-300:]))
    events = vp.read_ndjson(tpath)
    rr = vp.tlc(os.path.join(vp.SPEC, "Trace_Layout.tla"), os.path.join(vp.SPEC, "Trace_Layout.cfg"), workers=1,
                timeout=1100, env={"TRACE": tpath}, xmx="8g")
    res = rr.printed("RESULT")
    if len(res) != 1 or res[0]["n"] != len(events):
        raise vp.Broken("Trace_Layout did not complete: " + rr.out[-1500:])
    chk.add_tlc("Trace_Layout", rr, "constant-level evaluation of the Layout Contracts on %d recorded events" % len(events))
    for b in res[0]["bad"]:
        ev = dict(events[b - 1])
        ev.pop("fields", None)
        st = structs[int(ev["struct"][2:])]
        chk.violation("struct event outside the C08 Contract: struct %s fields %s: %s" % (ev["struct"], st, str(ev)[:700]),
                      {"struct": st, "event": events[b - 1]})
    chk.count(evaluations=len(events), distinct=len(structs) + len(edges), traces=len(structs))
    chk.sample({"struct": structs[0], "layout": {k: v for k, v in events[0].items() if k != "fields"}})
    chk.cov["structs"] = len(structs)
    chk.cov["family_total"] = len(walks)
    chk.cov["layout_transitions"] = len(edges)
    chk.cov["exhaustive"] = thorough
    chk.cov["scope"] = "structs covering every (layout state, field kind) transition%s; per struct 1 + 4 x slots value rounds " \
                       "(distinct values per slot; guest max/min and just beyond in one slot at a time; null/offset pointers; " \
                       "null/sandbox function pointers) through whole-struct store, to-tainted / field-wise / unwrapped load, " \
                       "by-value argument and by-value result" % ("" if thorough else " (quick tier: 12 of the family)")
    chk.assumptions += ["const-qualified fields are not in the family (tainted structs with const fields cannot be assigned "
                        "field-wise by the driver)",
                        "by-value conversion of a non-representable field ends in std::terminate (noexcept member): "
                        "observed in a forked child and counted as abort",
                        "guest sizes/alignments of the field kinds are the harness' statement of the wasm32 ABI"]
    return chk.finish(rule="one evaluation = one layout / struct-store / struct-load event judged by TLC; distinct_nontrivial = "
                           "structs of the family + layout transitions covered")
