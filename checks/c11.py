"""C11 - sandbox function invocation delivers arguments and results faithfully; symbol
addresses are per instance (and per incarnation); the tainted address of a sandbox function is
the backend's function-pointer representation whatever was looked up before.

 (a) spec/Invoke.tla + harness/sig_driver.cpp: a family of 18 signatures (0..12 parameters, all
     primitive / pointer / callback kinds, every return kind) x boundary values x wrapper forms;
     TLC judges every recorded call (Trace_Invoke).
 (b) spec/Sbx.tla lookup actions (LookupSymbol / InternalLookupSymbol caches): every edge of the
     bounded model with two instances bound to different libraries exporting the same names,
     replayed on the vm backend; TLC validates (Trace_Sbx).
 (c) spec/Calls.tla trees on two instances created from different libraries (vm and dlopen'ed
     dylib): the function that runs is the one of the instance's own library."""
import os
import random

import callscommon as cc
import sbxcommon as sx
import vp


def run(tier):
    chk = vp.Check("C11", tier)
    wd = vp.workdir("c11")
    thorough = tier == "thorough"
    rng = random.Random(vp.seed())
    # (b) lookup / cache model
    acts = ["create", "destroy", "invoke", "fnaddr"]
    m = sx.model(chk, wd, "L1", ["s1", "s2"], ["f1"], [], 1, [1, 2], 3 if thorough else 2, acts, emit=True)
    if m is None:
        return chk.finish()
    edges, init = m
    lines, expected = sx.walks_to_lines([("reset 2 1 0", vp.cover_walks(edges, init, maxlen=300))])
    for _ in range(60 if thorough else 15):
        h = ["reset 3 1 0"]
        for _ in range(50):
            s = rng.choice(["s1", "s2", "s3"])
            r = rng.random()
            h.append("create %s %d 0" % (s, rng.choice([1, 2])) if r < 0.3 else "destroy " + s if r < 0.45
                     else "invoke %s n1" % s if r < 0.70 else "invoke %s nope" % s if r < 0.78 else "fnaddr %s n1" % s)
        lines += h
        expected += [None] * len(h)
    drvs = vp.build_many([("sbx_vm", ["sbx_driver.cpp"], ["-DBK_VM"])])
    events, tpath = sx.replay(drvs["sbx_vm"], wd, "vm", lines)
    for b in sx.validate(chk, "Trace_Sbx", tpath, events, lines, "lookup-vm"):
        chk.violation("[lookup, vm backend] event %d outside the C11 Contract: %s" % (b["index"], b["event"]),
                      {"walk": b["walk"], "event": b["event"]})
    sx.drift(chk, expected, events)
    n_eval = len(events)
    # the same lookup histories on the dylib backend: incarnations dlopen two different libraries
    # exporting the same names; addresses are compared with what the dynamic loader reports
    ddrv, dlibs = sx.dylib_driver()
    dcap = sx.capacity(ddrv, dlibs)
    dlines = [("reset %s %d 0" % (l.split()[1], dcap)) if l.startswith("reset") else l for l in lines]
    devents, dtpath = sx.replay(ddrv, wd, "dylib", dlines, dlibs)
    for b in sx.validate(chk, "Trace_Sbx", dtpath, devents, dlines, "lookup-dylib"):
        chk.violation("[lookup, dylib backend] event %d outside the C11 Contract: %s" % (b["index"], b["event"]),
                      {"walk": b["walk"], "event": b["event"]})
    n_eval += len(devents)
    # (a) signature family: hand-listed + generated from spec/Sig.tla, three guest ABIs
    import sigcommon as sg
    sev, spath, ngen, sig_edges = sg.run(chk, wd, thorough)
    badcalls, ncalls = sg.judge(chk, spath, sev, "call", "CallAllowed")
    for ev in badcalls:
        chk.violation("call outside the C11 Contract: %s" % str(ev)[:600], ev)
    n_eval += ncalls
    chk.cov["signatures"] = {"hand_listed": 18, "generated": ngen, "sig_machine_edges": len(sig_edges)}
    chk.sample(([e for e in sev if e["e"] == "call"] + [{}] * 6)[5])
    # (c) trees on instances bound to different libraries
    t_vm = cc.trees(chk, wd, "vm", 3, 2, 5 if thorough else 4, False, True)
    t_nat = cc.trees(chk, wd, "native", 3, 2, 5 if thorough else 4, True, False)
    if t_vm is None or t_nat is None:
        return chk.finish()

    def script(trees):
        L = ["reset"] + cc.PREFIXES[0]
        for h in trees:
            L += cc.tree_lines(h)
        return L
    tv = [v for v in cc.VARIANTS if v[0] in ("tree_vm", "tree_dylib")]
    tdrv = {}
    for n, fl, _ in tv:
        tdrv[n] = vp.build(n, ["tree_driver.cpp"], fl, "-O1", (["-ldl", "-rdynamic"] if "dylib" in n else []))
    ntrees = 0
    for n, _, native in tv:
        ev, bad, nt = cc.run_variant(chk, wd, tdrv, n, native, script(t_vm), script(t_nat), "dispatch")
        n_eval += len(ev)
        ntrees += nt
        for b in bad:
            chk.violation("[%s] event %d outside the C11/C12 dispatch Contract: %s" % (b["variant"], b["index"], b["event"]),
                          {"variant": b["variant"], "event": b["event"], "context": b["context"]})
    sig_classes = set((e["abi"], e["sig"], e["form"], e["out"]) for e in sev if e["e"] == "call")
    chk.count(evaluations=n_eval, distinct=len(edges) + len(sig_classes) + len(t_vm) + len(t_nat),
              traces=ntrees + 1 + sum(1 for e in events if e["e"] == "reset"))
    chk.cov["exhaustive"] = True
    chk.cov["exhaustive_scope"] = "every edge of the bounded lookup model (2 instances x 2 libraries x incarnations); " \
                                  "signature family (18 hand-listed + generated from the parameter-list machine of Sig.tla: every parameter " \
                                  "kind at every position, thorough: after every kind) x one-at-a-time boundary values x 3 wrapper " \
                                  "forms x 3 guest ABIs; all " \
                                  "call trees within bounds on instances of different libraries (vm, dylib)"
    chk.assumptions += ["flag-abort build for the signature family: 'aborts before the call' is observed in the exception-"
                        "mode tree runs (poisoned argument: guest body must not start)",
                        "by-value struct arguments and results are covered by C08",
                        "static-call lookup mode (no-op backend) is exercised by C12/C13/C14 runs"]
    return chk.finish(rule="one evaluation = one recorded call / lookup / crossing event judged by TLC; distinct_nontrivial "
                           "= model edges + distinct (signature, wrapper form, outcome) + call trees")
