"""Shared pipeline for the properties decided with spec/Sbx.tla + SbxContract.tla
(C13, C14, C11-lookup): TLC design check + edge emission -> covering walks -> replay on
real objects (harness/sbx_driver.cpp, vm and no-op backends) -> TLC trace validation."""
import json
import os

import vp

ALL_ACTS = ["create", "destroy", "malloc", "free", "register", "unregister", "odestroy", "omovec", "omovea",
            "probe", "xlate", "invoke", "fnaddr"]

CFG = """SPECIFICATION MSpec
CONSTANTS
  SandboxSet = {%(sb)s}
  FuncSet = {%(fn)s}
  OwnerSet = {%(ow)s}
  Slots = %(slots)d
  NameSet = {"n1"}
  LibSet = {%(libs)s}
  MaxInc = %(maxinc)d
  Acts = {%(acts)s}
  EmitEdges = %(emit)s
VIEW View
CONSTRAINT IncBound
INVARIANTS TypeOK ContractInv TablesExact
PROPERTY Refines
ACTION_CONSTRAINT Emit
"""


def q(xs):
    return ", ".join('"%s"' % x for x in xs)


def model(chk, wd, name, sb, fn, ow, slots, libs, maxinc, acts, emit=True, workers=1, timeout=900):
    cfg = os.path.join(wd, "MC_Sbx_%s.cfg" % name)
    with open(cfg, "w") as f:
        f.write(CFG % {"sb": q(sb), "fn": q(fn), "ow": q(ow), "slots": slots,
                       "libs": ", ".join(str(x) for x in libs), "maxinc": maxinc, "acts": q(acts),
                       "emit": "TRUE" if emit else "FALSE"})
    r = vp.tlc(os.path.join(vp.SPEC, "Sbx.tla"), cfg, name="Sbx_" + name, workers=workers, timeout=timeout, xmx="8g")
    chk.add_tlc("Sbx %s (%d sandboxes, %d fns, %d owners, %d slots, inc<=%d)%s" %
                (name, len(sb), len(fn), len(ow), slots, maxinc, " +edges" if emit else ""), r,
                "Model=>Contract (Refines), TypeOK, ContractInv, TablesExact; complete bounded state space")
    if r.violated or not r.ok:
        chk.violation("design check failed: %s violated in Sbx.tla config %s" % (r.violated, name),
                      {"tlc_tail": r.out[-3000:], "cfg": open(cfg).read()})
        return None
    if not emit:
        return []
    edges = r.printed("EDGE")
    # TLC explores breadth-first from the initial state: the first emitted edge starts there
    init = edges[0]["src"] if edges else None
    return edges, init


def ev_to_line(ev):
    e = ev["e"]
    if e == "create":
        return "create %s %d %d" % (ev["s"], ev["lib"], 1 if ev["fail"] else 0)
    if e in ("destroy", "malloc", "free", "probe", "ptrrt"):
        return "%s %s" % (e, ev["s"])
    if e == "register":
        return "register %s %s %s" % (ev["s"], ev["f"], ev["o"])
    if e in ("unregister", "odestroy"):
        return "%s %s" % (e, ev["o"])
    if e in ("omovec", "omovea"):
        return "%s %s %s" % (e, ev["o"], ev["o2"])
    if e == "xlate":
        return "xlate %s %d" % (ev["s"], ev["k"])
    if e in ("invoke", "fnaddr"):
        return "%s %s %s" % (e, ev["s"], ev["name"])
    raise vp.Broken("unknown model event " + str(ev))


def walks_to_lines(walk_sets, observe=False):
    """walk_sets: list of (reset header, [walk]) -> (lines, expected events aligned to lines).
    observe: after every Model step, every created sandbox is probed (the set of reachable
    callbacks is observed). Covering walks visit every EDGE once, but the real state behind a
    Model state depends on the PATH: observing after each step makes every edge's effect visible
    on the path it was actually taken on, not only where the covering happens to probe."""
    lines, expected = [], []
    for hdr, walks in walk_sets:
        for w in walks:
            lines.append(hdr)
            expected.append(None)
            for e in w:
                lines.append(ev_to_line(e["ev"]))
                expected.append(e["ev"])
                if observe and e["ev"]["e"] != "probe":
                    for s in sorted(e["dst"]["st"]):
                        if e["dst"]["st"][s] == "cr":
                            lines.append("probe " + s)
                            expected.append(None)
    return lines, expected


def dylib_driver():
    """sbx_driver on the bundled dylib backend + the two builds of the guest library"""
    import callscommon as cc
    drv = vp.build("sbx_dylib", ["sbx_driver.cpp"], ["-DBK_DYLIB"], "-O1", ["-ldl", "-rdynamic"])
    return drv, cc.build_guestlibs()


def capacity(drv, extra=()):
    """entry points the backend offers per sandbox, measured on the real backend (distinct callbacks are
    registered on a fresh sandbox until the first refusal); a number beyond the driver's pool of functions
    is reported as 1000 (the histories of the checks never get near it)"""
    p = vp.run([drv, "--capacity"] + list(extra[:1]), timeout=120)
    if p.returncode < 0:
        # registering callbacks on a fresh sandbox until the first refusal killed the executor: an observation
        vp.exit_ok(p, "capacity probe (%s)" % os.path.basename(drv).split("-")[0])
        return 64
    words = p.stdout.split()
    if p.returncode != 0 or not words or not words[0].isdigit():
        raise vp.Broken("capacity probe failed: rc=%d %s" % (p.returncode, p.stderr[-300:]))
    n = int(words[0])
    if len(words) > 1 and words[1] == "bogus":
        # registration number n+1 came back as an owner that claims to be registered but has no entry point of its own
        # (null, or one handed out before): the table has n entries and the refusal is missing
        BOGUS.append({"backend": os.path.basename(drv).split("-")[0], "accepted_without_entry_point": n + 1})
        return n
    return n if n > 0 else 1000


# registrations accepted without an entry point of their own, seen by the capacity probe (C13: "a registration for which
# the backend has no free entry point is refused, never returned as an object that claims to be registered")
BOGUS = []


def replay(drv, wd, tag, lines, extra=()):
    """Runs the dumb executor over the action lines; if the process terminates (an abort
    escaped a noexcept member), the death is recorded as the observation of that action and
    the run resumes at the next execution."""
    wpath = os.path.join(wd, "walks_%s.txt" % tag)
    with open(wpath, "w") as f:
        f.write("\n".join(lines) + "\n")
    events = []
    first = 1
    part = 0
    while first <= len(lines):
        tpath = os.path.join(wd, "trace_%s_%d.ndjson" % (tag, part))
        p = vp.run([drv, wpath, tpath, str(first)] + list(extra), timeout=900)
        evs = vp.read_ndjson(tpath)
        events += evs
        part += 1
        if p.returncode == 0:
            break
        if p.returncode < 0:
            # the executor died on a signal while running an action against the real code: that
            # death is the observation of the action (no Contract allows it); resume afterwards
            ln = (evs[-1].get("lineno", first - 1) if evs else first - 1) + 1
            evs.append({"e": "crash", "lineno": ln, "signal": -p.returncode,
                        "action": lines[ln - 1] if ln - 1 < len(lines) else ""})
            events.append(evs[-1])
        if (p.returncode == 3 and evs and evs[-1]["e"] in ("terminate", "crash")) or p.returncode < 0:
            ln = evs[-1]["lineno"]
            nxt = None
            for i in range(ln, len(lines)):       # lines are 1-based: index ln is line ln+1
                if lines[i].startswith("reset"):
                    nxt = i + 1
                    break
            if nxt is None:
                break
            first = nxt
            continue
        raise vp.Broken("driver %s rc=%d: %s" % (os.path.basename(drv), p.returncode, p.stderr[-800:]))
    tall = os.path.join(wd, "trace_%s.ndjson" % tag)
    vp.write_ndjson(tall, events)
    return events, tall


def validate(chk, spec, tpath, events, lines, what):
    r = vp.tlc(os.path.join(vp.SPEC, spec + ".tla"), os.path.join(vp.SPEC, spec + ".cfg"),
               name=spec + "_" + what, workers=1, timeout=1200, env={"TRACE": tpath}, xmx="8g")
    res = r.printed("RESULT")
    if len(res) != 1 or res[0]["n"] != len(events):
        raise vp.Broken("trace validation did not complete (%s): %s" % (what, r.out[-1500:]))
    chk.add_tlc("%s on %s" % (spec, what), r, "trace validation of %d recorded events" % len(events))
    bad = []
    for b in res[0]["bad"]:
        i = b - 1
        s = i
        while s > 0 and events[s]["e"] != "reset":
            s -= 1
        l0 = events[s].get("lineno", 1)
        l1 = events[i].get("lineno", l0)
        bad.append({"index": b, "event": events[i], "walk": lines[l0 - 1:l1], "backend": events[s].get("backend")})
    return bad


def drift(chk, expected, events):
    """Model prediction vs observation, aligned by line number (never a verdict)."""
    by_line = {e.get("lineno"): e for e in events if "lineno" in e}
    for ln, exp in enumerate(expected, start=1):
        if exp is None or ln not in by_line:
            continue
        obs = by_line[ln]
        if obs["e"] == "skip":
            continue
        for k in ("out", "entry", "ran", "found", "ranlib", "idx"):
            if k in exp and k in obs and exp[k] != obs[k]:
                if k == "ran" and sorted(exp[k]) == sorted(obs[k]):
                    continue
                if k == "idx":
                    continue
                chk.drift({"line": ln, "field": k, "expected": exp, "observed": obs})
                break
