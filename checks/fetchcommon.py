"""Single-fetch oracle shared by C05 / C06 / C09 / C17: harness/fetch_driver.cpp runs operations
whose operand lives in sandbox memory while harness/loadwatch.hpp rewrites the cell after every
read; spec/Fetch.tla (evaluated by TLC through Trace_Fetch) accepts an outcome iff the sequential
Contract of the operation holds for ONE of the values the cell held."""
import os

import vp

ABIS = {"wasm32": [], "ilp64": ["-DABI_ILP64"], "lp16": ["-DABI_LP16"]}


def run(chk, wd, mode, abis=("wasm32", "ilp64")):
    """returns (events, bad events); a driver killed by a signal is reported as a `crash` event"""
    drvs = vp.build_many([("fetch_driver_" + a, ["fetch_driver.cpp"], ABIS[a], "-O1") for a in abis])
    events = []
    for a in abis:
        tpath = os.path.join(wd, "fetch_%s_%s.ndjson" % (mode, a))
        p = vp.run(["timeout", "300", drvs["fetch_driver_" + a], mode, tpath, str(vp.seed())], timeout=400)
        evs = vp.read_ndjson(tpath)
        for e in evs:
            e["abi"] = a
        events += evs
        if p.returncode != 0:
            if p.returncode < 0 or p.returncode >= 124:
                events.append({"e": "crash", "rc": p.returncode, "abi": a, "mode": mode})
            else:
                raise vp.Broken("fetch_driver %s/%s rc=%d %s" % (mode, a, p.returncode, p.stderr[-300:]))
    if len([e for e in events if e["e"] == "fetch"]) < 8 * len(abis):
        raise vp.Broken("fetch_driver %s produced %d events" % (mode, len(events)))
    allp = os.path.join(wd, "fetch_%s_all.ndjson" % mode)
    vp.write_ndjson(allp, events)
    r = vp.tlc(os.path.join(vp.SPEC, "Trace_Fetch.tla"), os.path.join(vp.SPEC, "Trace_Fetch.cfg"), name="Trace_Fetch_" + mode,
               workers=1, timeout=600, env={"TRACE": allp})
    res = r.printed("RESULT")
    if len(res) != 1 or res[0]["n"] != len(events):
        raise vp.Broken("Trace_Fetch did not complete: " + r.out[-1500:])
    chk.add_tlc("Trace_Fetch (%s)" % mode, r, "constant-level evaluation of Fetch.FetchAllowed on %d operations whose operand "
                "cell was rewritten after every read" % len(events))
    bad = [events[b - 1] for b in res[0]["bad"]]
    return events, bad


def pretty(ev):
    import memcommon
    d = dict(ev)
    for k in ("seen", "used", "got", "r", "after"):
        if k in d:
            d[k] = memcommon.wide(d[k])
    if "script" in d:
        d["script"] = [memcommon.wide(x) for x in d["script"]]
    return d


def design_check(chk):
    """FetchModel.tla: the read-once design satisfies the Contract under every adversary schedule; the two
    re-reading designs (D22, C17-m7) are refuted by TLC - which keeps the Model honest about what it can see."""
    spec = os.path.join(vp.SPEC, "MC_Fetch.tla")
    r = vp.tlc(spec, os.path.join(vp.SPEC, "MC_Fetch_ReadOnce.cfg"), workers=2, timeout=300)
    chk.add_tlc("MC_Fetch ReadOnce", r, "every interleaving of the three steps of a checked use with adversary writes of 11 "
                "values: one value the cell held explains the outcome (Explained)")
    if r.violated or not r.ok:
        chk.violation("design check failed: %s violated in FetchModel.tla (read-once design)" % r.violated,
                      {"tlc_tail": r.out[-3000:]})
        return False
    for v in ("ReadAtEveryMention", "ReadAgainAtTheUse"):
        r = vp.tlc(spec, os.path.join(vp.SPEC, "MC_Fetch_%s.cfg" % v), workers=1, timeout=300)
        if r.violated != "Explained":
            raise vp.Broken("FetchModel.tla no longer refutes the re-reading design %s: %s" % (v, r.out[-800:]))
    chk.cov["fetch_model_refutes_rereading_designs"] = 2
    return True


def judge(chk, wd, mode, prop, abis=("wasm32", "ilp64")):
    """runs the mode, reports violations; returns (number of events, set of distinct combinations)"""
    if "fetch_model_refutes_rereading_designs" not in chk.cov and not design_check(chk):
        return 0, set()
    events, bad = run(chk, wd, mode, abis)
    for ev in bad:
        if ev["e"] == "crash":
            chk.violation("[single fetch] the driver died (rc=%s, %s ABI) while the operand cell was being rewritten" %
                          (ev["rc"], ev["abi"]), ev)
        else:
            chk.violation("[single fetch, %s ABI] no single value of the rewritten operand cell explains the outcome (%s): %s" %
                          (ev.get("abi"), prop, pretty(ev)), pretty(ev))
    combos = set((e.get("abi"), e.get("kind"), e.get("what", e.get("op", e.get("where"))), e.get("form"), e.get("nty"), e.get("out"))
                 for e in events)
    fe = [e for e in events if e["e"] == "fetch"]
    if fe:
        chk.sample(pretty(fe[len(fe) // 3]))
    chk.cov["single_fetch_operations"] = len(fe)
    chk.cov["single_fetch_max_reads_of_the_cell"] = max([e.get("reads", 0) for e in fe] or [0])
    chk.assumptions.append("single-fetch runs: the operand cell is rewritten after every read of it (page protection + "
                           "single-stepping, x86-64 Linux); outcomes are judged against the set of values the cell held")
    return len(events), combos
