"""C12 - a callback call runs exactly the registered function with faithful arguments
(mode "dispatch" of CallsContract: cb_run must be the function registered behind the entry
point called, with the sandbox of the innermost guest frame, exactly once; arguments and
results arrive intact; the executing-sandbox TLS slot is restored after nested invokes)."""
import random

import callscommon as cc
import vp

PROP, MODE = "C12", "dispatch"


def run(tier, prop=PROP, mode=MODE):
    chk = vp.Check(prop, tier)
    rng = random.Random(vp.seed())
    wd = vp.workdir(prop.lower())
    thorough = tier == "thorough"
    if thorough:
        # deeper trees without catching callbacks, plus the quick tier's bounds with them (the
        # catch option multiplies the number of trees: both together do not fit in memory)
        nocatch = ("arg", "cbthrow", "cbret", "gthrow")
        t_vm = cc.trees(chk, wd, "vm", 4, 2, 6, False, True, aborts=nocatch)
        t_nat = cc.trees(chk, wd, "native", 4, 2, 6, True, False, aborts=nocatch)
        c_vm = cc.trees(chk, wd, "vm_catch", 3, 2, 5, False, True)
        c_nat = cc.trees(chk, wd, "native_catch", 3, 2, 5, True, False)
        if None in (t_vm, t_nat, c_vm, c_nat):
            return chk.finish()
        t_vm = t_vm + [h for h in c_vm if any(a.get("catch") for a in h)]
        t_nat = t_nat + [h for h in c_nat if any(a.get("catch") for a in h)]
    else:
        t_vm = cc.trees(chk, wd, "vm", 3, 2, 5, False, True)
        t_nat = cc.trees(chk, wd, "native", 3, 2, 5, True, False)
    if t_vm is None or t_nat is None:
        return chk.finish()
    prefixes = list(cc.PREFIXES) + [cc.random_prefix(rng) for _ in range(4 if thorough else 1)]

    def script(trees):
        L = []
        for pi, pre in enumerate(prefixes):
            L.append("reset")
            L += pre
            # every tree after the first prefix; a seeded third of them after the others (quick)
            for ti, h in enumerate(trees):
                if pi == 0 or thorough or (ti + pi + vp.seed()) % 3 == 0:
                    L += cc.tree_lines(h)
        return L

    s_vm, s_nat = script(t_vm), script(t_nat)
    jobs = [(n, ["tree_driver.cpp"], fl, "-O1", (["-ldl", "-rdynamic"] if "dylib" in n else [])) for n, fl, _ in cc.VARIANTS]
    drvs = {}
    from concurrent.futures import ThreadPoolExecutor
    with ThreadPoolExecutor(max_workers=6) as ex:
        futs = {j[0]: ex.submit(vp.build, j[0], j[1], j[2], j[3], j[4]) for j in jobs}
        for n, f in futs.items():
            drvs[n] = f.result()
    total_ev, total_trees = 0, 0
    results = []
    with ThreadPoolExecutor(max_workers=6) as ex:
        futs = [ex.submit(cc.run_variant, chk, wd, drvs, n, native, s_vm, s_nat, mode) for n, _, native in cc.VARIANTS]
        for f in futs:
            results.append(f.result())
    for events, bad, ntrees in results:
        total_ev += len(events)
        total_trees += ntrees
        for b in bad:
            chk.violation("[%s] event %d outside the %s Contract (mode %s): %s" %
                          (b["variant"], b["index"], prop, mode, b["event"]),
                          {"variant": b["variant"], "event": b["event"], "context": b["context"]})
        for ev in events[6:9]:
            chk.sample(ev)
    if mode == "dispatch":
        # argument / result fidelity of callback calls over the signature family (every parameter
        # kind, guest-side boundary values, results beyond the guest range) under three guest ABIs
        import sigcommon as sg
        sev, spath, ngen, _ = sg.run(chk, wd, thorough)
        badcb, ncb = sg.judge(chk, spath, sev, "cbcall", "CbAllowed")
        for ev in badcb:
            chk.violation("callback call outside the %s Contract: %s" % (prop, str(ev)[:600]), ev)
        chk.cov["callback_signatures"] = {"hand_listed": 17, "generated": ngen}
        total_ev += ncb
        chk.cov["callback_signature_calls"] = ncb
    chk.count(evaluations=total_ev, distinct=len(t_vm) + len(t_nat), traces=total_trees)
    chk.cov["trees_enumerated"] = {"foreign_abi": len(t_vm), "native_abi": len(t_nat)}
    chk.cov["variants"] = [v[0] for v in cc.VARIANTS]
    chk.cov["registration_prefixes"] = len(prefixes)
    chk.cov["exhaustive"] = True
    chk.cov["exhaustive_scope"] = "all call trees within the depth/width/node bounds of this tier (with at most one " \
                                  "abort, and stale-entry calls on the vm backend), each executed on every backend x TLS " \
                                  "variant after the first registration prefix"
    chk.assumptions += ["a guest calling an entry point whose callback was unregistered is outside C12 except as a "
                        "trap probe on the vm backend",
                        "argument fidelity in the trees covers the long-typed node/poison parameters and results; every "
                        "other parameter/result kind is covered by the callback signature family (17 signatures x 3 ABIs, "
                        "flag-abort build)"]
    return chk.finish(rule="one evaluation = one recorded crossing event validated by TLC against CallsContract; "
                           "distinct_nontrivial = distinct call trees enumerated by TLC and executed")
