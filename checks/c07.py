"""C07 - sandbox-memory accesses use exactly the bytes and encoding of the sandbox ABI."""
import memcommon as mc
import vp


def run(tier):
    chk = vp.Check("C07", tier)
    wd = vp.workdir("c07")
    thorough = tier == "thorough"
    drv = mc.drivers()
    # an unoptimised build as well: every conversion the source spells out is really executed there (an
    # optimiser removes exact round trips, e.g. of a float through a wider floating-point type)
    drv["mem_mask_O0"] = vp.build("mem_mask_O0", ["mem_driver.cpp"], ["-DUSE_FINDER=0"], "-O0")
    total, combos = 0, set()
    for mode in ("store", "load"):
        for tag in (("mask", "finder", "lp16", "lp16_finder", "mask_O0") if thorough else ("mask", "lp16", "mask_O0")):
            tpath = mc.record(drv["mem_" + tag], wd, mode, tag, thorough)
            events, bad = mc.validate(chk, tpath, "%s/%s" % (mode, tag))
            total += len(events)
            for e in events:
                if e["e"] in ("store", "load"):
                    combos.add((e["e"], e["path"], e["ty"], e["addr"], e["out"]))
                elif e["e"] in ("astore", "aload"):
                    combos.add((e["e"], e["shape"], e["ty"], e["addr"], e["out"]))
            for b, ev in bad:
                chk.violation("%s outside the C07 Contract: %s" % (ev["e"], mc.pretty(ev)), mc.pretty(ev))
            for ev in events[1:3]:
                chk.sample(mc.pretty(ev))
    # pointer-typed objects (cell, array element, whole array, struct field): the bytes written /
    # decoded are the ABI's pointer representation, also where it is as wide as a host pointer
    for tag in (("lp64u", "mask", "lp16") if thorough else ("lp64u",)):
        tpath = mc.record(drv["mem_" + tag], wd, "ptr", tag, thorough)
        events, bad = mc.validate(chk, tpath, "ptr/" + tag)
        total += len(events)
        for e in events:
            if e["e"] in ("ptrload", "ptrloadrun", "ptrstore"):
                combos.add((e["e"], e["pos"], tag, e["cls"], e["out"]))
        for b, ev in bad:
            chk.violation("pointer %s outside the C07 Contract [%s]: %s" % (ev["e"], tag, mc.pretty(ev)), mc.pretty(ev))
    chk.count(evaluations=total, distinct=len(combos), traces=3)
    chk.cov["exhaustive"] = False
    chk.cov["scope"] = "two foreign ABIs (wasm32; lp16 where int != long) x 17 types (+ pointer cells, arrays of pointers and pointer fields on lp64u, whose pointer representation is host-wide) + const-qualified pointees x 10 addresses (first bytes, every alignment 1..7, interior, ending at the last byte before " \
                       "the guard page) x boundary/random values x 4 surrounding byte patterns x 5 store paths / 6 load " \
                       "paths (deref, index, array element, volatile-to-volatile, to tainted, copy_and_verify on a pointer, " \
                       "copy_and_verify_range first/last element)"
    chk.assumptions += ["a read past the footprint is observed either as a dependence on neighbouring bytes (two rounds with "
                        "00/FF surroundings) or as a fault in the guard page after the region",
                        "struct-field accesses are covered by C08"]
    return chk.finish(rule="one evaluation = one store (whole-region byte diff + footprint bytes) or one load (value under "
                           "two surrounding patterns) judged by TLC (StoreAllowed / LoadAllowed); distinct_nontrivial = "
                           "distinct (kind, path, type, address, outcome) combinations")
