"""Signature family shared by C11 (invocations) and C12 (callback calls): the hand-listed 18
signatures plus the family generated from spec/Sig.tla (TLC explores the parameter-list machine
completely; covering walks = signatures), built for three guest ABIs; harness/sig_driver.cpp
records every call; spec/Invoke.tla (Trace_Invoke) judges them."""
import hashlib
import os
import sys

import vp

sys.path.insert(0, os.path.join(vp.VERIF, "gen"))
import sig_family as sgf  # noqa: E402

ABIS = ("wasm32", "lp16", "lp64u")


def family(chk, wd, thorough):
    cfg = "MC_Sig_pair" if thorough else "MC_Sig_pos"
    r = vp.tlc(os.path.join(vp.SPEC, "MC_Sig.tla"), os.path.join(vp.SPEC, cfg + ".cfg"), name=cfg, workers=1, timeout=300)
    chk.add_tlc(cfg, r, "parameter-list machine (position%s x 21 parameter kinds, up to 4 parameters), complete" %
                (", kind of the previous parameter" if thorough else ""))
    if r.violated or not r.ok:
        raise vp.Broken("Sig.tla: " + r.out[-800:])
    edges = r.printed("EDGE")
    walks = vp.cover_walks(edges, edges[0]["src"], maxlen=4)
    return sgf.family_from_walks(walks), edges


def run(chk, wd, thorough):
    """-> (events of all ABIs with e["abi"], path of the merged trace, number of generated signatures, edges)"""
    sigs, edges = family(chk, wd, thorough)
    gdir = os.path.join(wd, "siggen")
    os.makedirs(gdir, exist_ok=True)
    src = sgf.gen(sigs)
    with open(os.path.join(gdir, "sig_gen.inc"), "w") as f:
        f.write(src)
    gh = int(hashlib.sha256(src.encode()).hexdigest()[:7], 16)
    nfun = 2 * (18 + len(sigs)) + 10
    jobs = []
    for abi in ABIS:
        fl = ["-DGEN_SIGS", "-I" + gdir, "-DGENHASH=%d" % gh, "-DVM_MAX_FUNCS=%d" % nfun]
        if abi != "wasm32":
            fl.append("-DABI_" + abi.upper())
        jobs.append(("sig_driver_" + abi, ["sig_driver.cpp"], fl, "-O1"))
    drvs = vp.build_many(jobs)
    events = []
    for abi in ABIS:
        apath = os.path.join(wd, "sig_%s.ndjson" % abi)
        p = vp.run([drvs["sig_driver_" + abi], apath, str(vp.seed())], timeout=900)
        vp.exit_ok(p, "sig_driver(%s)" % abi)
        for e in vp.read_ndjson(apath):
            e["abi"] = abi
            events.append(e)
    spath = os.path.join(wd, "sig.ndjson")
    vp.write_ndjson(spath, events)
    return events, spath, len(sigs), edges


def judge(chk, spath, events, kind, what):
    cfg = "Trace_Invoke.cfg" if kind == "call" else "Trace_Invoke_cb.cfg"
    r = vp.tlc(os.path.join(vp.SPEC, "Trace_Invoke.tla"), os.path.join(vp.SPEC, cfg), workers=1,
               name="Trace_Invoke_" + kind, timeout=900, env={"TRACE": spath}, xmx="8g")
    res = r.printed("RESULT")
    if len(res) != 1 or res[0]["n"] != len(events):
        raise vp.Broken("Trace_Invoke (%s) did not complete: %s" % (kind, r.out[-1200:]))
    n = sum(1 for e in events if e["e"] == kind)
    if n == 0:
        raise vp.Broken("no %s events were recorded" % kind)
    chk.add_tlc("Trace_Invoke (%s)" % kind, r, "constant-level evaluation of the %s Contract on %d recorded calls" % (what, n))
    return [events[b - 1] for b in res[0]["bad"]], n
