"""C16 - operators on tainted numbers compute exactly what the plain operators compute."""
import os

import vp


def run(tier):
    chk = vp.Check("C16", tier)
    wd = vp.workdir("c16")
    thorough = tier == "thorough"
    drv = vp.build("op_driver", ["op_driver.cpp"], [], "-O1", timeout=1200)
    tpath = os.path.join(wd, "op.ndjson")
    p = vp.run([drv, tpath, str(vp.seed()), "1" if thorough else "0"], timeout=1100)
    vp.exit_ok(p, "op_driver")
    events = vp.read_ndjson(tpath)
    r = vp.tlc(os.path.join(vp.SPEC, "Trace_Ops.tla"), os.path.join(vp.SPEC, "Trace_Ops.cfg"), workers=1, timeout=1100,
               env={"TRACE": tpath}, xmx="12g")
    res = r.printed("RESULT")
    if len(res) != 1 or res[0]["n"] != len(events):
        raise vp.Broken("Trace_Ops did not complete: " + r.out[-1500:])
    chk.add_tlc("Trace_Ops", r, "constant-level evaluation of the Ops Contract on %d recorded events" % len(events))

    def wide(w):
        if not isinstance(w, dict) or "d" not in w:
            return w
        v = 0
        for i, d in enumerate(w["d"]):
            v += d << (8 * i)
        return -v if w["n"] else v
    for b in res[0]["bad"]:
        ev = {k: wide(v) for k, v in events[b - 1].items()}
        chk.violation("operator outside the C16 Contract: %s" % ev, ev)
    pairs = sum(e["pairs"] for e in events if e["e"] == "opsum")
    combos = set((e["e"], e["op"], e["lw"], e["rw"], e["lt"], e["rt"]) for e in events)
    chk.count(evaluations=len(events) + pairs, distinct=len(combos), traces=1)
    chk.sample({k: wide(v) for k, v in events[len(events) // 2].items()})
    chk.sample(events[0] if events else {})
    chk.cov["exhaustive_8bit_pairs_evaluated"] = pairs
    chk.cov["exhaustive"] = True
    chk.cov["exhaustive_scope"] = "all 8-bit operand pairs with defined behaviour x 16 binary/comparison operators x 8 operand-" \
                                  "wrapper combinations x 4 signedness pairs; 15-22 wider type pairs at boundary and random " \
                                  "values; compound assignments, ++/-- pre/post, unary - ~ on tainted and tainted_volatile " \
                                  "targets of rank >= int"
    chk.assumptions += ["operand pairs for which the plain expression has undefined behaviour are not evaluated",
                        "the 8-bit sweeps are summarised per combination: the driver counts, for every pair, whether the "
                        "wrapped and plain result bits and types agree, and logs disagreeing pairs individually",
                        "compound assignment / ++ / -- on types narrower than int and tainted_volatile & tainted_volatile do "
                        "not compile and are judged as program forms by C01"]
    return chk.finish(rule="one evaluation = one evaluated operand pair (8-bit sweeps via per-combination summaries), judged by "
                           "TLC (OpAllowed / OpSumAllowed / UpdAllowed); distinct_nontrivial = distinct (operator, wrappers, "
                           "types) combinations")
