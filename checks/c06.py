"""C06 - integers crossing the ABI boundary keep their value or the operation aborts.

spec/IntConv.tla: two-sided Contract ConvAllowed + Model ImplConv (transcription of
convert_type_fundamental); MC_IntConv: TLC checks Model in Contract for every pair/value of the
scaled type family, convexity lemma, emits 64-bit boundary vectors; Trace_IntConv: TLC judges
every recorded run. harness/conv_driver.cpp records direct calls (all 15x15 type pairs) and
every crossing (stores, loads, arrays, invoke arguments/results, callback results) under two
foreign ABIs."""
import os
from concurrent.futures import ThreadPoolExecutor

import vp


def validate(chk, tpath, what):
    events = vp.read_ndjson(tpath)
    r = vp.tlc(os.path.join(vp.SPEC, "Trace_IntConv.tla"), os.path.join(vp.SPEC, "Trace_IntConv.cfg"),
               name="Trace_IntConv_" + what, workers=1, timeout=900, env={"TRACE": tpath}, xmx="6g")
    res = r.printed("RESULT")
    if len(res) != 1 or res[0]["n"] != len(events):
        raise vp.Broken("trace validation did not complete (%s): %s" % (what, r.out[-1500:]))
    chk.add_tlc("Trace_IntConv on " + what, r, "constant-level evaluation of ConvAllowed on %d recorded runs" % len(events))
    return events, [(b, events[b - 1]) for b in res[0]["bad"]]


def run(tier):
    chk = vp.Check("C06", tier)
    wd = vp.workdir("c06")
    thorough = tier == "thorough"
    # 1. design check on the scaled family
    r = vp.tlc(os.path.join(vp.SPEC, "MC_IntConv.tla"), os.path.join(vp.SPEC, "MC_IntConv.cfg"), workers=1, timeout=300)
    c = r.printed("CHECK")
    chk.add_tlc("MC_IntConv", r, "Model (ImplConv) in Contract for every ordered pair and value of the scaled family")
    if len(c) != 1:
        raise vp.Broken("MC_IntConv printed no CHECK line: " + r.out[-800:])
    chk.cov["design_cases"] = c[0]["cases"]
    if not (c[0]["ModelInContract"] and c[0]["Convex"]):
        chk.violation("design check failed: transcribed convert_type_fundamental leaves the Contract: %s" % c[0], c[0])
        return chk.finish()
    # 2. record
    drv = vp.build("conv_driver", ["conv_driver.cpp"], opt="-O2")
    jobs = [("direct", [drv, "direct", os.path.join(wd, "direct.ndjson"), str(vp.seed()), "16"]),
            ("cross", [drv, "cross", os.path.join(wd, "cross.ndjson"), str(vp.seed())])]
    nsh = 16 if thorough else 0
    for i in range(nsh):
        jobs.append(("sweep32_%d" % i, [drv, "sweep32", os.path.join(wd, "sweep32_%d.ndjson" % i), str(i), str(nsh)]))

    def go(j):
        p = vp.run(j[1], timeout=1100)
        vp.exit_ok(p, "conv_driver " + j[0])
        return j[0], j[1][2]
    with ThreadPoolExecutor(max_workers=vp.NCPU) as ex:
        done = list(ex.map(go, jobs))
    # 3. judge
    total, runs_distinct = 0, set()
    with ThreadPoolExecutor(max_workers=6) as ex:
        outs = list(ex.map(lambda d: validate(chk, d[1], d[0]), done))
    for (events, bad) in outs:
        total += len(events)
        for e in events:
            runs_distinct.add((e["path"], e["from"]["n"], e["to"]["n"], e["cls"]))
        for b, ev in bad:
            chk.violation("conversion run outside the C06 Contract: path=%s %s -> %s values [%s..%s] class %s%s" %
                          (ev["path"], ev["from"]["n"], ev["to"]["n"], wide(ev["lo"]), wide(ev["hi"]), ev["cls"],
                           (" got %s" % wide(ev["got"])) if "got" in ev else ""), ev)
        for ev in events[40:42]:
            chk.sample(ev)
    # 4. sources in sandbox memory that change between reads: the value checked is the value converted
    import fetchcommon as fc
    nf, cf = fc.judge(chk, wd, "c06", "C06", ("wasm32", "ilp64", "lp16"))
    total += nf
    runs_distinct |= cf
    # the same refusals in the library's DEFAULT failure configuration (no exceptions, no custom handler): the process ends
    import abortcommon
    abortcommon.judge(chk, wd, "C06")
    chk.count(evaluations=total, distinct=len(runs_distinct), traces=len(done))
    chk.cov["exhaustive"] = True
    chk.cov["exhaustive_scope"] = ("every source value for sources <= 16 bits (all 15x15 ordered pairs)" +
                                   (", and for all 32-bit sources (sweep32)" if thorough else "") +
                                   "; 32/64-bit sources otherwise at boundary vectors, dense windows at type limits and "
                                   "seeded random values; crossings under ABIs wasm32 and lp16; converting loads and cell-to-cell stores whose source cell is rewritten after every read")
    chk.assumptions += ["flag-abort build: an abort is observed as a failed dynamic_check (RLBOX_CUSTOM_ABORT)",
                        "a run [lo,hi] is emitted only for consecutive tested values; validating its ends is sound "
                        "because representable values are convex (lemma Convex, TLC-checked on the scaled family)"]
    return chk.finish(rule="one evaluation = one run of consecutive source values with one outcome class, judged by TLC "
                           "(ConvAllowed); distinct_nontrivial = distinct (path, from, to, class) combinations")


def wide(w):
    v = 0
    for i, d in enumerate(w["d"]):
        v += d << (8 * i)
    return -v if w["n"] else v
