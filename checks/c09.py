"""C09 - verified copies are application-memory snapshots: no check/use window.

spec/Copy.tla: the copier's steps per copy_and_verify variant with an adversary that rewrites the
source at every yield point; TLC explores every interleaving (invariants TakenBefore, Terminated,
action property Stable) and prints every schedule; harness/c09_driver.cpp replays each schedule on
the real code through the RLBOX_VERIF_YIELD hook (guard ALLENABY_RLBOX_VERIF) and TLC judges what
the verifier saw (Trace_Copy, CopyAllowed)."""
import os

import vp

CFG = """SPECIFICATION Spec
CONSTANTS
  Variant = "%s"
  N = %d
  MaxWrites = %d
  Vals = {0, 1, 2}
INVARIANTS TakenBefore Terminated
PROPERTY Stable
ACTION_CONSTRAINT EmitSched
"""


def run(tier):
    chk = vp.Check("C09", tier)
    wd = vp.workdir("c09")
    thorough = tier == "thorough"
    n, w = (4, 2) if thorough else (3, 2)
    lines = []
    nsched = 0
    for variant in ("string_up", "string_std", "range", "single"):
        cfg = os.path.join(wd, "MC_Copy_%s.cfg" % variant)
        with open(cfg, "w") as f:
            f.write(CFG % (variant, n, w))
        r = vp.tlc(os.path.join(vp.SPEC, "Copy.tla"), cfg, name="Copy_" + variant, workers=1, timeout=1000, xmx="8g")
        chk.add_tlc("Copy %s (N=%d, writes<=%d)" % (variant, n, w), r,
                    "all interleavings of copier steps and adversary writes; TakenBefore, Terminated, Stable")
        if r.violated or not r.ok:
            chk.violation("design check failed: %s violated in Copy.tla (%s)" % (r.violated, variant),
                          {"tlc_tail": r.out[-3000:]})
            return chk.finish()
        for s in r.printed("SCHED"):
            ws = s["writes"]
            lines.append("%s %d %s %d %s" % (variant, n, " ".join(str(x) for x in s["mem0"]), len(ws),
                                             " ".join("%s %d %d %d" % (x["pt"], x["idx"], x["cell"], x["val"]) for x in ws)))
            nsched += 1
    spath = os.path.join(wd, "schedules.txt")
    with open(spath, "w") as f:
        f.write("\n".join(lines) + "\n")
    drv = vp.build("c09_driver", ["c09_driver.cpp"], [])
    tpath = os.path.join(wd, "c09.ndjson")
    p = vp.run([drv, spath, tpath], timeout=1100)
    vp.exit_ok(p, "c09_driver")
    events = vp.read_ndjson(tpath)
    # the "single" schedules again on the backend variant with the grant / deny interface (refusing)
    gpath, gtpath = os.path.join(wd, "schedules_gd.txt"), os.path.join(wd, "c09_gd.ndjson")
    with open(gpath, "w") as f:
        f.write("\n".join(l for l in lines if l.startswith("single ")) + "\n")
    gdrv = vp.build("c09_driver_gd", ["c09_driver.cpp"], ["-DVM_GRANT_DENY"])
    p = vp.run([gdrv, gpath, gtpath], timeout=1100)
    vp.exit_ok(p, "c09_driver_gd")
    gev = vp.read_ndjson(gtpath)
    if not gev:
        raise vp.Broken("no executions recorded on the grant/deny backend variant")
    events += gev
    vp.write_ndjson(tpath, events)
    cfgt = os.path.join(wd, "Trace_Copy.cfg")
    with open(cfgt, "w") as f:
        f.write(open(os.path.join(vp.SPEC, "Trace_Copy.cfg")).read())
    r = vp.tlc(os.path.join(vp.SPEC, "Trace_Copy.tla"), cfgt, workers=1, timeout=1100, env={"TRACE": tpath}, xmx="10g")
    res = r.printed("RESULT")
    if len(res) != 1 or res[0]["n"] != len(events):
        raise vp.Broken("Trace_Copy did not complete: " + r.out[-1500:])
    chk.add_tlc("Trace_Copy", r, "constant-level evaluation of CopyAllowed on %d recorded executions" % len(events))
    for b in res[0]["bad"]:
        chk.violation("copy outside the C09 Contract: %s" % events[b - 1], events[b - 1])
    # binding sanity: every scheduled write must have been performed at its yield point
    chk.cov["deny_refused_runs"] = len(gev)
    pc = [e for e in events if e["e"] == "pcopy"]
    if len(pc) != 8 or not all(e["redirected"] for e in pc):
        raise vp.Broken("pointer-cell runs incomplete: the range-check hook of the backend did not fire: %s" % pc)
    chk.cov["pointer_cell_runs"] = len(pc)
    unperformed = sum(1 for e in events if e.get("unperformed", 0) > 0)
    if unperformed:
        chk.drift({"what": "schedules with writes that found no yield point in the real code", "count": unperformed})
        if unperformed > len(events) // 2:
            raise vp.Broken("most schedules could not be replayed: RLBOX_VERIF_YIELD hooks missing in /repo?")
    # hook-free adversary: single cells (values, pointers, a struct field) rewritten after every read
    import fetchcommon as fc
    nf, cf = fc.judge(chk, wd, "c09", "C09", ("wasm32", "ilp64", "lp16"))
    chk.count(evaluations=len(events) + nf, distinct=nsched + len(cf), traces=len(events))
    for ev in events[100:102]:
        chk.sample(ev)
    chk.cov["schedules"] = nsched
    chk.cov["exhaustive"] = True
    chk.cov["exhaustive_scope"] = "every interleaving of the copier's steps with <= %d adversary writes over %d source cells " \
                                  "and 3 values, for the variants string/unique_ptr, string/std::string, range (short, long), " \
                                  "array, struct, copy_memory_or_deny_access; plus 4 runs in which the source POINTER lives in sandbox " \
                                  "memory and is redirected during RLBox's range check; plus copy_and_verify / copy_and_verify_address / copy_and_verify_buffer_address / UNSAFE_unverified on " \
                                  "single cells that are rewritten after every read (no hook: page protection)" % (w, n)
    chk.assumptions += ["in the schedule replays the adversary acts only at the hook points (between RLBox's own reads of sandbox memory)",
                        "strings are terminated inside the region when the call starts (the unterminated case is D17/C10)"]
    return chk.finish(rule="one evaluation = one replayed schedule on one real variant judged by TLC (CopyAllowed); "
                           "distinct_nontrivial = distinct schedules enumerated by TLC")
