"""C02 - application pointers and foreign-sandbox data cannot enter a sandbox unchecked.

Static part: the "enter"/"legal" programs of spec/Taint.tla (raw pointers, raw function pointers,
arrays of raw pointers, wrappers of another sandbox type, mismatching function-pointer types, bad
callback signatures into wrappers / sandbox calls / registrations) compiled against the real
headers and judged by TLC (FormAllowed).  Run-time part: the two checked entry points for every
address class - every byte of the own region, neighbours, two other live sandboxes, stack / data /
heap, null - recorded by harness/mem_driver.cpp and judged by TLC (Mem.EntryAllowed)."""
import c01
import memcommon as mc
import vp


def run(tier):
    chk = vp.Check("C02", tier, level="translation_validation")
    wd = vp.workdir("c02")
    thorough = tier == "thorough"
    events = c01.observe(chk, wd, False, ("enter", "legal"))
    mine = [e for e in events if e["cls"] in ("enter", "legal")]
    for ev in c01.judge(chk, wd, mine, False):
        chk.violation("program outside the C02 Contract (accepted): `%s`" % ev["text"],
                      {k: ev[k] for k in ("form", "cls", "text", "verdict", "rk")})
    legal_rejected = [e["text"] for e in mine if e["cls"] == "legal" and e["verdict"] == "reject"]
    for t in legal_rejected:
        chk.drift({"what": "a permitted entry form does not compile (inside the Contract)", "program": t})
    drv = mc.drivers()
    total = len(mine)
    combos = set((e["form"], e["verdict"]) for e in mine)
    for tag in (("mask", "finder", "lp16", "lp64u", "gd") if thorough else ("mask", "lp16", "lp64u", "gd")):
        tpath = mc.record(drv["mem_" + tag], wd, "entry", tag, thorough)
        ev, bad = mc.validate(chk, tpath, "entry/" + tag)
        total += len(ev)
        for e in ev:
            if e["e"] == "entry":
                combos.add((tag, e["api"], e["cls"], e["sb"], e["out"]))
        for b, e in bad:
            chk.violation("[%s] checked entry point outside the C02 Contract: %s" % (tag, mc.pretty(e)), mc.pretty(e))
        if len(ev) > 10:
            chk.sample(mc.pretty(ev[10]))
    chk.cov["programs"] = len(mine)
    chk.cov["disagreements_checked"] = len(mine)
    # the same refusals in the library's DEFAULT failure configuration (no exceptions, no custom handler): the process ends
    import abortcommon
    abortcommon.judge(chk, wd, "C02")
    abortcommon.judge(chk, wd, "C02", driver="nocc_driver")
    chk.count(evaluations=total, distinct=len(combos), traces=1)
    chk.sample({"program": mine[0]["text"], "verdict": mine[0]["verdict"]})
    chk.cov["exhaustive"] = True
    chk.cov["exhaustive_scope"] = "50 entry shapes that must not compile + 21 permitted controls; the three run-time entry " \
                                  "points for every offset 0..4095 of the own region, its neighbours, every 97th byte of two " \
                                  "other live sandboxes, stack/data/heap addresses and null, under two ABIs"
    chk.assumptions += ["the entry shapes are a hand-listed family over the sources named by the property"]
    return chk.finish(rule="one evaluation = one compiled entry shape or one run-time entry-point call judged by TLC; "
                           "distinct_nontrivial = distinct (shape, verdict) and (variant, api, address class, outcome)")
