"""Shared pipeline for the address-space properties decided with spec/Addr.tla
(C05 pointer arithmetic, C17 array indexing, C10 bulk ranges): scaled design check by TLC
(MC_Addr), flag-abort sweeps of the real code (harness/ptr_driver.cpp / bulk_driver.cpp),
constant-level evaluation of the Contract on every recorded event by TLC (Trace_Addr)."""
import os

import vp


def design_check(chk):
    r = vp.tlc(os.path.join(vp.SPEC, "MC_Addr.tla"), os.path.join(vp.SPEC, "MC_Addr.cfg"), workers=1, timeout=600)
    c = r.printed("CHECK")
    chk.add_tlc("MC_Addr", r, "scaled address space (2^8): transcribed pointer arithmetic with uintptr_t wrap in Contract "
                              "for every base, stride, operand; convexity lemma; documents that the unguarded "
                              "computation leaves the Contract")
    if len(c) != 1:
        raise vp.Broken("MC_Addr printed no CHECK line: " + r.out[-800:])
    chk.cov["design_cases"] = c[0]["cases"]
    chk.cov["unguarded_model_counterexamples"] = c[0]["noGuardCounterexamples"]
    if not (c[0]["PtrModelInContract"] and c[0]["PtrConvex"]):
        chk.violation("design check failed: transcribed pointer arithmetic leaves the Contract: %s" % c[0], c[0])
        return False
    return True


def validate(chk, tpath, what):
    """TLC judges every event; events matching a named deviation of an OPEN known finding are
    counted as KNOWN-FINDING observations, everything else outside the Contract is returned."""
    events = vp.read_ndjson(tpath)
    cfg = os.path.join(os.path.dirname(tpath), "Trace_Addr_%s.cfg" % what.replace("/", "_"))
    with open(cfg, "w") as f:
        f.write("SPECIFICATION Spec\nCONSTANT A = 8\nCONSTANT OpenFindings = {%s}\n" %
                ", ".join('"%s"' % k for k in sorted(chk.open)))
    r = vp.tlc(os.path.join(vp.SPEC, "Trace_Addr.tla"), cfg,
               name="Trace_Addr_" + what, workers=1, timeout=1100, env={"TRACE": tpath}, xmx="8g")
    res = r.printed("RESULT")
    if len(res) != 1 or res[0]["n"] != len(events):
        raise vp.Broken("trace validation did not complete (%s): %s" % (what, r.out[-1500:]))
    chk.add_tlc("Trace_Addr on " + what, r, "constant-level evaluation of the Contract on %d recorded events" % len(events))
    for k in res[0].get("known", []):
        chk.known(k["id"])
    return events, [(b, events[b - 1]) for b in res[0]["bad"]]


def wide(w):
    if not isinstance(w, dict):
        return w
    v = 0
    for i, d in enumerate(w["d"]):
        v += d << (8 * i)
    return -v if w["n"] else v


def pretty(ev):
    return {k: wide(v) for k, v in ev.items()}


def pretty_bulk(ev):
    e = dict(ev)
    e["ranges"] = [{"side": r["side"], "start": r["start"], "bytes": wide(r["bytes"])} for r in ev["ranges"]]
    if "bytes_max" in e:
        e["bytes_max"] = wide(e["bytes_max"])
    return e
