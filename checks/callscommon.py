"""Shared pipeline for C12 / C19: TLC enumerates every call tree within the bounds
(spec/Calls.tla, checked against spec/CallsContract.tla), the harness executes each tree on
real sandboxes (harness/tree_driver.cpp; vm / no-op / dylib backends x library / embedder TLS),
TLC validates every recorded event against the Contract (spec/Trace_Calls.tla)."""
import os

import vp

CFG = """SPECIFICATION MSpec
CONSTANTS
  Mode = "all"
  SandboxSet = {"s1", "s2"}
  FuncSet = {"f1", "f2"}
  MaxDepth = %(depth)d
  MaxWidth = %(width)d
  MaxNodes = %(nodes)d
  Fits = %(fits)s
  Aborts = {%(aborts)s}
  StaleCalls = %(stale)s
INVARIANTS StepOK TlsRestored Balanced
ACTION_CONSTRAINT EmitTree
"""


def trees(chk, wd, name, depth, width, nodes, fits, stale, aborts=("arg", "cbthrow", "cbret", "gthrow", "catch")):
    cfg = os.path.join(wd, "MC_Calls_%s.cfg" % name)
    with open(cfg, "w") as f:
        f.write(CFG % {"depth": depth, "width": width, "nodes": nodes, "fits": "TRUE" if fits else "FALSE",
                       "stale": "TRUE" if stale else "FALSE", "aborts": ", ".join('"%s"' % a for a in aborts)})
    r = vp.tlc(os.path.join(vp.SPEC, "Calls.tla"), cfg, name="Calls_" + name, workers=1, timeout=900, xmx="8g")
    chk.add_tlc("Calls %s (depth<=%d width<=%d nodes<=%d fits=%s stale=%s)" % (name, depth, width, nodes, fits, stale),
                r, "all call trees within bounds; invariants StepOK (Model => CallsContract at every step), "
                   "TlsRestored, Balanced")
    if r.violated or not r.ok:
        chk.violation("design check failed: %s violated in Calls.tla (%s)" % (r.violated, name),
                      {"tlc_tail": r.out[-3000:], "cfg": open(cfg).read()})
        return None
    return r.printed("TREE")


def tree_lines(hist):
    L = ["tree"]
    for a in hist:
        k = a["a"]
        if k == "inv":
            L.append("inv %s %d" % (a["s"], 1 if a["poison"] else 0))
        elif k == "call":
            L.append("call %s %d" % (a["f"], 1 if a.get("catch") else 0))
        elif k == "caught":
            L.append("caught")
        elif k == "cbret":
            L.append("cbret %s" % a["how"])
        elif k in ("gret", "gthrow"):
            L.append(k)
        else:
            raise vp.Broken("unknown tree action %s" % a)
    L.append("end")
    return L


PREFIXES = [
    ["reg s1 f1", "reg s1 f2", "reg s2 f2", "reg s2 f1"],
    # the application also takes the address of the sandbox function (before and between invocations)
    ["fnaddr s1", "reg s1 f1", "reg s1 f2", "reg s2 f1", "reg s2 f2", "fnaddr s2"],
    # slots shuffled by an unregister / re-register history; f3 occupies and frees entries
    ["reg s1 f2", "reg s1 f1", "unreg s1 f2", "reg s1 f3", "reg s1 f2", "unreg s1 f3", "reg s2 f3", "reg s2 f1",
     "unreg s2 f3", "reg s2 f2", "unreg s2 f1", "reg s2 f1"],
    # s1 is destroyed and re-created while the owners of its first incarnation live on; they end after
    # the new incarnation has registered the same functions (in another order)
    ["reg s1 f1", "reg s1 f2", "reg s2 f1", "reg s2 f2", "recreate s1", "reg s1 f2", "reg s1 f1", "dropstale s1"],
    # every entry point of the backend is in use (fillers occupy all but two): the callbacks of the tree live in
    # the last two entries, which are released and handed out again before the tree runs
    ["fill s1", "fill s2", "reg s1 f1", "reg s1 f2", "reg s2 f2", "reg s2 f1", "unreg s1 f2", "reg s1 f2", "unreg s1 f1",
     "reg s1 f1", "unreg s2 f1", "reg s2 f1", "unreg s2 f2", "reg s2 f2"],
    # the callbacks of the tree hold the FIRST entries, the fillers the rest; one more registration is refused
    # (no free entry point) and must leave every existing entry as it was
    ["reg s1 f1", "reg s1 f2", "reg s2 f2", "reg s2 f1", "fill s1", "fill s2", "reg s1 f3", "reg s2 f3"],
]


def random_prefix(rng):
    L = []
    reg = {"s1": set(), "s2": set()}
    for _ in range(rng.randint(4, 14)):
        s, f = rng.choice(["s1", "s2"]), rng.choice(["f1", "f2", "f3"])
        if f in reg[s]:
            L.append("unreg %s %s" % (s, f))
            reg[s].discard(f)
        else:
            L.append("reg %s %s" % (s, f))
            reg[s].add(f)
    for s in ("s1", "s2"):
        order = ["f1", "f2"]
        rng.shuffle(order)
        for f in order:
            if f not in reg[s]:
                L.append("reg %s %s" % (s, f))
    return L


VARIANTS = [("tree_vm", ["-DBK_VM"], False), ("tree_vm_etls", ["-DBK_VM", "-DTLS_EMBEDDER"], False),
            ("tree_noop", ["-DBK_NOOP"], True), ("tree_noop_etls", ["-DBK_NOOP", "-DTLS_EMBEDDER"], True),
            ("tree_dylib", ["-DBK_DYLIB"], True), ("tree_dylib_etls", ["-DBK_DYLIB", "-DTLS_EMBEDDER"], True)]


def build_guestlibs():
    """two shared libraries exporting the same names (dylib backend)"""
    d = os.path.join(vp.CACHE, "bin" + os.environ.get("VERIF_WORK_SUFFIX", ""))
    os.makedirs(d, exist_ok=True)
    outs = []
    src = os.path.join(vp.HARNESS, "guestlib.c")
    for i in (1, 2):
        o = os.path.join(d, "libguest%d.so" % i)
        if not os.path.exists(o) or os.path.getmtime(o) < os.path.getmtime(src):
            # built under a private name and renamed: variants run in threads (and checks in
            # separate processes) and must never dlopen a half-written library
            import threading
            tmp = "%s.tmp.%d.%d" % (o, os.getpid(), threading.get_ident())
            p = vp.run(["gcc", "-shared", "-fPIC", "-O1", "-fexceptions", "-DLIBID=%d" % i, src, "-o", tmp])
            if p.returncode != 0:
                raise vp.Broken("guestlib build failed: " + p.stderr[-500:])
            os.replace(tmp, o)
        outs.append(o)
    return outs


def run_variant(chk, wd, drvs, name, native, script_vm, script_native, mode):
    script = script_native if native else script_vm
    spath = os.path.join(wd, "script_%s.txt" % name)
    tpath = os.path.join(wd, "trace_%s.ndjson" % name)
    with open(spath, "w") as f:
        f.write("\n".join(script) + "\n")
    cmd = [drvs[name], spath, tpath]
    if "dylib" in name:
        cmd += build_guestlibs()
    p = vp.run(cmd, timeout=900)
    if p.returncode != 0:
        # a crash of the executor is an observation: validate what was recorded, then flag it
        vp.log("[%s] driver exited with %d" % (name, p.returncode))
    events = vp.read_ndjson(tpath)
    r = vp.tlc(os.path.join(vp.SPEC, "Trace_Calls.tla"), os.path.join(vp.SPEC, "Trace_Calls_%s.cfg" % mode),
               name="Trace_Calls_" + name, workers=1, timeout=1200, env={"TRACE": tpath}, xmx="8g")
    res = r.printed("RESULT")
    if len(res) != 1 or res[0]["n"] != len(events):
        raise vp.Broken("trace validation did not complete (%s): %s" % (name, r.out[-1500:]))
    chk.add_tlc("Trace_Calls[%s] on %s" % (mode, name), r, "trace validation of %d recorded events" % len(events))
    bad = []
    for b in res[0]["bad"]:
        i = b - 1
        s = i
        while s > 0 and events[s]["e"] not in ("timing", "reset"):
            s -= 1
        bad.append({"variant": name, "index": b, "event": events[i], "context": events[max(s, i - 25):i + 1]})
    if p.returncode != 0:
        bad.append({"variant": name, "index": len(events), "event": {"e": "driver-crash", "rc": p.returncode},
                    "context": events[-15:]})
    ntrees = sum(1 for e in events if e["e"] == "timing")
    return events, bad, ntrees
