"""Registry of the checks that MANIFEST.json claims (bin/mkmanifest renders it)."""

NOTES = ("Model-based verification with explicit TLA+ specifications (spec/): every property is decided by a "
         "Contract written in TLA+ and evaluated by TLC, on the Model's state space (design check, enumeration) "
         "and on traces recorded from the real headers in /repo/code/include (conformance). See DESIGN.md.")

ENGINES = [
    {"name": "tlc", "path": "/opt/veriftools/tla/tla2tools.jar", "serves_properties": [],
     "kind_free_text": "TLC 1.8.0 explicit-state model checker: design checks (Model => Contract, invariants), "
                       "edge emission for replay, trace validation of recorded ndjson events"},
    {"name": "harness", "path": "/verif/harness", "serves_properties": [],
     "kind_free_text": "C++17 conformance drivers built against /repo/code/include with -DALLENABY_RLBOX_VERIF; "
                       "foreign-ABI backend rlbox_vm_sandbox (32/16-bit offset pointers, table-index function "
                       "pointers, invoke + callbacks)"},
]

NOT_CLAIMED = {}

CHECKS = {
    "C15": {
        "technique": "TLA+ Contract/Model (AppPtr.tla), TLC complete state space per limit, every Model edge "
                     "replayed on the real app_pointer_map/app_pointer, TLC trace validation of the recording",
        "text": "TLC explores the complete state space of the transcribed token allocator for every limit up to the "
                "stated bound and proves Model => Contract plus the uniqueness/boundedness/no-leak invariants; every "
                "edge of those graphs is replayed on the real app_pointer_map<uint8_t> and on real app_pointer "
                "owners of a foreign-ABI sandbox, and TLC validates the recorded events (with results) against the "
                "Contract; directed exhaustion/wrap-around histories for limits up to 254 and random histories with "
                "16/32/64-bit token types are validated the same way.",
        "note": "Complete exploration only up to the stated limit (2^L*L states); larger limits by directed and "
                "random histories. Trusted: TLC, the dumb executor harness/c15_driver.cpp, g++ 12.",
    },
}
for k in CHECKS:
    pass
