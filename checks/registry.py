"""Registry of the checks that MANIFEST.json claims (bin/mkmanifest renders it)."""

NOTES = ("Model-based verification with explicit TLA+ specifications (spec/): every property is decided by a "
         "Contract written in TLA+ and evaluated by TLC, on the Model's state space (design check, enumeration) "
         "and on traces recorded from the real headers in /repo/code/include (conformance). See DESIGN.md.")

ENGINES = [
    {"name": "tlc", "path": "/opt/veriftools/tla/tla2tools.jar", "serves_properties": [],
     "kind_free_text": "TLC 1.8.0 explicit-state model checker: design checks (Model => Contract, invariants), "
                       "edge emission for replay, trace validation of recorded ndjson events"},
    {"name": "harness", "path": "/verif/harness", "serves_properties": [],
     "kind_free_text": "C++17 conformance drivers built against /repo/code/include with -DALLENABY_RLBOX_VERIF; "
                       "foreign-ABI backend rlbox_vm_sandbox (32/16-bit offset pointers, table-index function "
                       "pointers, invoke + callbacks)"},
]

NOT_CLAIMED = {}

CHECKS = {
    "C15": {
        "technique": "TLA+ Contract/Model (AppPtr.tla), TLC complete state space per limit, every Model edge "
                     "replayed on the real app_pointer_map/app_pointer, TLC trace validation of the recording",
        "text": "TLC explores the complete state space of the transcribed token allocator for every limit up to the "
                "stated bound and proves Model => Contract plus the uniqueness/boundedness/no-leak invariants; every "
                "edge of those graphs is replayed on the real app_pointer_map<uint8_t> and on real app_pointer "
                "owners of a foreign-ABI sandbox, and TLC validates the recorded events (with results) against the "
                "Contract; directed exhaustion/wrap-around histories for limits up to 254 and random histories with "
                "16/32/64-bit token types are validated the same way.",
        "note": "Complete exploration only up to the stated limit (2^L*L states); larger limits by directed and "
                "random histories. Trusted: TLC, the dumb executor harness/c15_driver.cpp, g++ 12.",
    },
}
CHECKS["C13"] = {
    "technique": "TLA+ Contract/Model (SbxContract/Sbx), TLC Model=>Contract + TablesExact, every Model edge replayed "
                 "on real sandbox_callback owners (vm + no-op backends) with forked reachability probes, TLC trace "
                 "validation",
    "text": "TLC explores the bounded ownership models (register/unregister/destroy/move-construct/move-assign/"
            "destroy+re-create sandbox; 1-2 sandboxes, 2-3 functions, 2-3 owners, 1-2 entry points) completely, checks "
            "Model => Contract and that the code's key list and slot table equal the Contract's registered set; every "
            "edge is replayed on real sandbox_callback objects in harness-managed storage on the foreign-ABI vm backend "
            "and the bundled no-op and dylib backends, reachability being probed after EVERY step by calling every entry "
            "point ever handed out in a forked child; TLC validates every recorded call (result + owner projection) against the Contract; "
            "capacity histories (2 and 64 entry points) and random histories are validated the same way.",
    "note": "Bounded models; reachability is observed through forked probe calls. Trusted: TLC, harness/sbx_driver.cpp, "
            "guestlib.c, vm backend, g++ 12.",
}
CHECKS["C14"] = {
    "technique": "TLA+ Contract/Model (SbxContract/Sbx), TLC complete bounded state space, every edge replayed on up "
                 "to three real rlbox_sandbox objects (finder-based vm backend, no-op), TLC trace validation",
    "text": "TLC explores lifecycle models with create(ok/fail)/destroy/malloc/free/register/unregister/invoke-by-name/"
            "function-address/example-translation on 1-3 sandbox objects and up to 3 incarnations, proves Model => "
            "Contract and that the live list equals the set of created sandboxes and nothing survives an incarnation; "
            "every edge is replayed on real objects (vm backend whose example-based translation walks the registry, "
            "two libraries exporting the same names; no-op backend for the lifecycle part) and every recorded call is "
            "validated by TLC against the Contract; random histories on three objects beyond the bound.",
    "note": "Calls into a sandbox that is not created are undefined and never made; a create after a failed create "
            "may abort. Trusted: TLC, harness/sbx_driver.cpp, vm backend, g++ 12.",
}

CHECKS["C12"] = {
    "technique": "TLA+ Contract/Model (CallsContract/Calls): TLC enumerates every call tree within bounds and checks "
                 "each step against the Contract; every tree executed on real sandboxes (vm/no-op/dylib x library/"
                 "embedder TLS); TLC trace validation (dispatch mode)",
    "text": "TLC enumerates all trees of nested invoke/callback/invoke chains within the depth/width/node bounds "
            "(two sandboxes, two callbacks registered on both, stale-entry calls, at most one abort), proving the "
            "transcribed interceptor/TLS logic against the Contract at every step; each tree is executed on real "
            "rlbox_sandbox objects on three backends and both TLS configurations after several register/unregister "
            "histories, and TLC validates every recorded crossing: the callback that ran is the one registered behind "
            "the entry called, it received the executing sandbox, ran exactly once, arguments/results intact.",
    "note": "Bounded tree shapes; argument/result fidelity of every other parameter kind through a callback signature "
            "family (17 signatures x 3 guest ABIs, Invoke.tla CbAllowed). Trusted: TLC, harness/tree_driver.cpp, "
            "sig_driver.cpp, guestlib.c, vm backend, g++ 12.",
}
CHECKS["C19"] = {
    "technique": "TLA+ Contract/Model (CallsContract/Calls): grammar of transition notifications as a stack machine; "
                 "TLC enumerates all trees x abort positions; every tree executed with hooks and timing enabled; TLC "
                 "trace validation (hooks mode)",
    "text": "TLC enumerates every call tree within bounds with an abort injected at every argument-conversion, guest-"
            "body, callback-body and callback-result-conversion position and checks the transcribed scope-exit logic "
            "against the Contract; each tree is executed on real sandboxes built with RLBOX_TRANSITION_ACTION_IN/OUT "
            "and RLBOX_MEASURE_TRANSITION_TIMES (vm, no-op, dylib; both TLS configurations) and TLC validates that "
            "every notification appears at its grammar position with the right kind, function identity and "
            "per-sandbox state, that every crossing is closed exactly once also when unwinding, and that the timing "
            "records equal the completed crossings per sandbox.",
    "note": "Argument-conversion aborts exist only on the foreign-ABI backend (native backends: callback-body and "
            "guest-body aborts). Trusted: TLC, harness/tree_driver.cpp, vm backend, g++ 12.",
}

CHECKS["C06"] = {
    "technique": "TLA+ Contract/Model (IntConv): TLC checks the transcribed convert_type_fundamental against the two-sided "
                 "Contract for every pair/value of a scaled type family; exhaustive/interval-summarised sweeps of the real "
                 "code judged by TLC (Trace_IntConv) over exact wide integers",
    "text": "TLC proves on a scaled family (1-6 bit types, all 81 ordered pairs, every value) that the transcribed branch "
            "structure of convert_type_fundamental yields exactly 'same value iff representable, abort otherwise', and "
            "that representable values are convex; the real code is swept for all 225 ordered pairs of the 15 integer "
            "types - every source value up to 16 bits (32 bits in the thorough tier), boundary vectors, dense windows "
            "at type limits and seeded random values beyond - directly and through every crossing (stores, loads, "
            "arrays, invoke arguments/results, callback results) under two foreign ABIs; runs of equal outcome are "
            "judged by TLC with exact wide arithmetic. Operands that are themselves read from sandbox memory are covered by the single-fetch runs: the operand cell is rewritten after every read (page protection + single stepping, no hook) and TLC (Fetch.tla) accepts an outcome only if the sequential Contract holds for ONE of the values the cell held.",
    "note": "64-bit sources are not exhaustive. Flag-abort build observes aborts as failed dynamic_checks. Trusted: TLC, "
            "harness/conv_driver.cpp (records outcome classes mechanically), vm backend, g++ 12.",
}

CHECKS["C05"] = {
    "technique": "TLA+ Contract/Model (Addr): exact-arithmetic Contract vs transcribed uintptr_t computation checked by TLC "
                 "on a scaled address space; exhaustive/interval-summarised sweeps of the real operators judged by TLC "
                 "(Trace_Addr) with exact wide integers",
    "text": "TLC checks on a 2^8-byte address space that the transcribed address computation (with its modular arithmetic "
            "and the overflow guard) returns exactly p+-n*s iff that lies in p's region and aborts otherwise, for every "
            "base, stride and operand, and that accepted operands are convex; the real operators + - += -= ++ -- [] &[] are "
            "swept on a foreign-ABI sandbox for 11 pointee kinds (guest stride differs from the host's), first/last/interior/"
            "null bases, all operand types plain/tainted/tainted_volatile - 8/16-bit operands exhaustively, wider ones at "
            "boundary and wrap-prone values - and every run is judged by TLC in exact arithmetic. Operands that are themselves read from sandbox memory are covered by the single-fetch runs: the operand cell is rewritten after every read (page protection + single stepping, no hook) and TLC (Fetch.tla) accepts an outcome only if the sequential Contract holds for ONE of the values the cell held.",
    "note": "32/64-bit operands not exhaustive; strides come from the harness' own tables of the three guest ABIs (wasm32, lp16, lp64u). Trusted: TLC, "
            "harness/ptr_driver.cpp, vm backend, g++ 12.",
}
CHECKS["C17"] = {
    "technique": "TLA+ Contract (Addr.IndexAllowed) evaluated by TLC on exhaustive/interval-summarised sweeps of operator[] "
                 "on tainted<T[N]> and tainted_volatile<T[N]>",
    "text": "Every 8-bit (and per tier 16-bit) index value, and boundary/aliasing values of 32/64-bit index types, plain "
            "and tainted, are applied to fixed-size arrays of 6 element types and 6-10 lengths living in application "
            "memory and in sandbox memory (guest element size), plus a 2-D shape; TLC judges every run: abort iff the "
            "index is negative or >= length (mathematically, whatever the index type), otherwise exactly element idx "
            "under the layout of the memory the array lives in. Operands that are themselves read from sandbox memory are covered by the single-fetch runs: the operand cell is rewritten after every read (page protection + single stepping, no hook) and TLC (Fetch.tla) accepts an outcome only if the sequential Contract holds for ONE of the values the cell held.",
    "note": "Index types wider than 16 bits are not exhaustive. Trusted: TLC, harness/ptr_driver.cpp, g++ 12.",
}

CHECKS["C11"] = {
    "technique": "TLA+ Contracts Invoke (argument/result fidelity), SbxContract (per-instance/per-incarnation symbol "
                 "lookup, function-address stability) and CallsContract (own-library dispatch); TLC-enumerated lookup "
                 "histories and call trees replayed on vm and dylib backends; TLC trace validation",
    "text": "TLC explores every history of create/destroy/invoke-by-name/get-function-address over two instances bound "
            "to different libraries exporting the same names (and re-creation against the other library) and every edge "
            "is replayed on the foreign-ABI backend whose invoke address and function-pointer representation differ; a "
            "family of 18 signatures (0-12 parameters; every integer kind, floats, data pointers, callbacks; every return "
            "kind) is invoked with one-at-a-time boundary values in plain/tainted/opaque form and TLC judges what the "
            "guest function observed (values in the guest ABI, exactly once) and what came back; all call trees within "
            "bounds run on two instances created from different libraries (vm and real dlopen) and the function that runs "
            "must be the one of the instance's own library.",
    "note": "By-value structs are in C08. Signature family is hand-listed (18), not generated. Flag-abort build for the "
            "family. Trusted: TLC, harness/sig_driver.cpp, sbx_driver.cpp, tree_driver.cpp, vm backend, g++ 12.",
}

CHECKS["C07"] = {
    "technique": "TLA+ Contract (Mem.StoreAllowed / LoadAllowed: footprint + two's-complement little-endian encoding over "
                 "exact wide integers) evaluated by TLC on whole-region byte diffs recorded from the real accessors under two "
                 "foreign ABIs",
    "text": "For 17 primitive types plus const-qualified pointees, every alignment, first/interior/last-byte positions (the "
            "region ends at a guard page), boundary and random values and four surrounding byte patterns, each store path "
            "(deref of plain/tainted/tainted_volatile values, index, array element) is recorded as a diff of the whole "
            "region and each load path (to tainted, deref, index, copy_and_verify on a pointer, copy_and_verify_range "
            "first/last element) as the value obtained under two different surroundings; TLC checks that changed bytes are "
            "exactly the guest footprint, that they encode exactly the value, and that loads decode exactly those bytes.",
    "note": "Values are sampled (boundaries + random), not exhaustive. Struct fields are C08's. Trusted: TLC, "
            "harness/mem_driver.cpp (its own table of guest types per ABI), vm backend, g++ 12.",
}
CHECKS["C04"] = {
    "technique": "TLA+ Contracts Mem.PtrLoadAllowed/PtrStoreAllowed and SbxContract (PtrRT over registry histories): TLC "
                 "enumerates all create/destroy orders of three sandboxes; exhaustive offset and representation sweeps through "
                 "every pointer-carrying position on mask- and finder-based backends; TLC validation",
    "text": "Every offset of the 4 KiB region (and null) is stored through cell, array element, struct field and whole-struct "
            "copy and the representation written must be the offset (0 for null); every representation below 2^16 (2^20) "
            "plus boundary/random ones is read back through 12 positions with three live sandboxes and must yield null for "
            "0 and the same offset inside the own sandbox otherwise; both translation paths (sandbox context, example "
            "address via mask or via the live-sandbox list) and three guest ABIs (wasm32, lp16, lp64u); TLC enumerates every create/destroy order of three "
            "sandboxes and pointer round trips are replayed in every live sandbox of every registry state.",
    "note": "4 GiB geometry is not instantiated (representations above the region size are reduced by the backend). Trusted: "
            "TLC, harness/mem_driver.cpp, sbx_driver.cpp, vm backend, g++ 12.",
}
CHECKS["C03"] = {
    "technique": "TLA+ Contract (Mem.NeverOut / PtrLoadAllowed) evaluated by TLC on representation sweeps through every "
                 "pointer position and on a depth-bounded exhaustive DFS over chains of pointer-producing operations",
    "text": "Guest representations (all below 2^16/2^20, boundaries to 2^32-1, other sandboxes' base bits, random) are placed "
            "in every position a pointer can occupy and the tainted pointer obtained must be null or inside the sandbox it "
            "came from; all chains up to depth 3 (4) over 16 pointer-producing operations (in-range, out-of-range and "
            "address-space-wrapping arithmetic, indexing, casts through wider pointees, opaque round trip, reload through "
            "memory, memset return) from null/first/last/interior seeds, allocation incl. a misbehaving allocator, "
            "app_pointer::to_tainted and the checked raw-pointer entry points for every address class are executed and "
            "every result judged by TLC. Operands that are themselves read from sandbox memory are covered by the single-fetch runs: the operand cell is rewritten after every read (page protection + single stepping, no hook) and TLC (Fetch.tla) accepts an outcome only if the sequential Contract holds for ONE of the values the cell held.",
    "note": "Chain depth and operand sets are bounded; function pointers excluded by the property. Trusted: TLC, "
            "harness/mem_driver.cpp, vm backend, g++ 12.",
}

CHECKS["C10"] = {
    "technique": "TLA+ Contract (Addr.RangeOpAllowed: legality of every given range in exact wide arithmetic, two-sided) "
                 "evaluated by TLC on recorded bulk operations (whole-region diffs, red zones, guard pages); named deviation "
                 "for the open finding D17",
    "text": "memset, memcpy (application, tainted, straddling and other-sandbox sources), memcmp, copy_and_verify_range / "
            "unverified_safe_pointer_because (element sizes 1,2,4,8), copy_and_verify_buffer_address, "
            "copy_and_verify_string (terminated inside, at the last byte, unterminated), copy_memory_or_grant_access and "
            "copy_memory_or_deny_access are run for null/first/last/interior starts and extents from 0 past the region size "
            "up to 2^64-1, with plain and tainted size operands; every run records the outcome, the interval of region bytes "
            "that changed, red zones of application buffers and whether the effect is exact; TLC checks that an operation "
            "proceeds only if every range is wholly legal, touches only its destination range, and that every satisfiable "
            "non-empty request is carried out. Operands that are themselves read from sandbox memory are covered by the single-fetch runs: the operand cell is rewritten after every read (page protection + single stepping, no hook) and TLC (Fetch.tla) accepts an outcome only if the sequential Contract holds for ONE of the values the cell held.",
    "note": "Exact same-sandbox backend variant (mask-based plugins may refuse more). Extent grid is sampled in the quick tier "
            "(every 61st + boundaries), complete 0..4098 in the thorough tier. D17 (strlen overrun) is an open known "
            "finding. Trusted: TLC, harness/bulk_driver.cpp, vm backend, g++ 12.",
}

CHECKS["C08"] = {
    "technique": "TLA+ layout state machine (Layout.tla) explored completely by TLC, covering struct family generated from "
                 "its transitions; Contracts LayoutAllowed/SStoreAllowed/SLoadAllowed evaluated by TLC on recorded images",
    "text": "TLC explores the layout state machine (offset mod 8, maximal alignment) x 20 field kinds (every integer "
            "width/signedness, bool, enum, float/double, object pointer, function pointer, char/int/long/pointer arrays, "
            "nested struct) and emits all 640 transitions; a generator turns covering walks into a struct family per guest ABI "
            "(wasm32 232, lp64u 264, lp16 162 structs; 12 + 6 + 6 in the quick tier) with RLBox reflection macros; for every struct the driver records the offsets, "
            "size and alignment RLBox uses, the sandbox image after whole-struct stores and by-value arguments, and the field "
            "values after loads and by-value results, with distinguishable values per slot and boundary/non-representable "
            "values one slot at a time; TLC recomputes the ABI layout and checks every slot of every image.",
    "note": "Quick tier covers a sample of the family; const fields excluded. Trusted: TLC, gen/struct_family.py, "
            "harness/c08_driver.cpp, vm backend, g++ 12.",
}

CHECKS["C09"] = {
    "technique": "TLA+ Model of the copier's steps vs an adversary (Copy.tla), all interleavings by TLC; every schedule "
                 "replayed on the real copy_and_verify family through the RLBOX_VERIF_YIELD hook; TLC trace validation "
                 "(CopyAllowed)",
    "text": "TLC explores every interleaving of the transcribed steps of each copy_and_verify variant (strlen, range check, "
            "per-element reads, forced terminator, verifier) with up to two adversary writes over 3-4 source cells, proves "
            "that what the verifier sees was taken before it started, is stable, and that strings are terminated within the "
            "range-checked length; every schedule (tens of thousands) is replayed on the real code - the installed hook "
            "performs exactly the scripted writes at the scripted points on real sandbox memory - for string (unique_ptr "
            "and std::string verifiers), range (short, long), array, struct and copy_memory_or_deny_access, and TLC judges "
            "the address class, content, and post-overwrite content of the object the verifier received. Operands that are themselves read from sandbox memory are covered by the single-fetch runs: the operand cell is rewritten after every read (page protection + single stepping, no hook) and TLC (Fetch.tla) accepts an outcome only if the sequential Contract holds for ONE of the values the cell held.",
    "note": "Interleavings are controlled only at the hook points between RLBox's own reads. Needs the verif-hook commit "
            "(guard ALLENABY_RLBOX_VERIF). Trusted: TLC, harness/c09_driver.cpp, vm backend, g++ 12.",
}

CHECKS["C18"] = {
    "technique": "TLA+ Contract/Model (ThreadsContract/Threads): all interleavings of 2-3 threads by TLC with Model => "
                 "Contract; every edge replayed as a schedule on real threads under a deterministic cooperative scheduler "
                 "(custom-lock seam + RLBOX_VERIF_EVENT hook + guest/callback yields); TLC trace validation of the step log",
    "text": "TLC explores every interleaving of threads that each create, look up (example-based), invoke (yield in the "
            "guest, callback) and destroy their own sandbox at the granularity of the code's synchronisation points, proving "
            "reader/writer exclusion, that list elements are only visited while fully created, and isolation; every edge of "
            "the 2-thread graph (3-thread in the thorough tier) is replayed on real threads: exactly one runs at a time and "
            "the controller grants each lock operation, list access, backend creation/destruction, guest yield and callback "
            "step in schedule order, logging it; seeded random schedules with up to 8 (16) threads on the vm backend and on "
            "the bundled no-op backend; TLC folds the Contract over every log: an unguarded or wrongly guarded list access, a "
            "list element visited before its backend exists or after it is gone, a callback or lookup that sees another "
            "thread's sandbox are all outside it.",
    "note": "Interleaving control only at synchronisation points; no hardware memory-model effects. Needs the verif-hook "
            "commits. Trusted: TLC, harness/thr_driver.cpp (scheduler), vm backend, g++ 12.",
}

CHECKS["C16"] = {
    "technique": "TLA+ Contract (Ops: OpAllowed / OpSumAllowed / UpdAllowed incl. the OperandUpdate rule with the permitted "
                 "abort of sandbox-memory targets) evaluated by TLC on wrapped-vs-plain evaluations recorded in one "
                 "translation unit; exhaustive 8-bit operand pairs",
    "text": "Every binary arithmetic/bitwise/shift/comparison operator is evaluated for every operand-wrapper combination "
            "(tainted, tainted_volatile, plain on either side) on all 8-bit operand pairs with defined behaviour (~30 "
            "million evaluations, summarised per combination with disagreeing pairs logged) and on 15-22 wider type pairs at "
            "boundary/random values; compound assignments, ++/-- pre/post and unary - ~ are evaluated on tainted and "
            "tainted_volatile targets; each wrapped result is compared with the plain C++ expression evaluated next to it "
            "(value bits, C++ result type, operand afterwards, returned value) and TLC checks the relation, allowing an "
            "abort only for a sandbox-memory target whose new value does not fit the stored sandbox type.",
    "note": "Reference semantics come from the same compiler (g++ 12) evaluating the plain expression. Forms that do not "
            "compile are C01's. Trusted: TLC, harness/op_driver.cpp, vm backend.",
}
CHECKS["C20"] = {
    "technique": "TLA+ Contract (Casts: OpaqueAllowed / CastAllowed / BoundaryAllowed) evaluated by TLC on sandbox casts and "
                 "opaque round trips recorded next to the plain C++ casts",
    "text": "to_opaque/from_opaque round trips (object representation and value) for primitive, pointer, array and struct "
            "types; opaque versus tainted values as callback results and invocation arguments observed on the guest side "
            "(incl. values that must abort); sandbox_static_cast / sandbox_reinterpret_cast / sandbox_const_cast on tainted "
            "and tainted_volatile sources for 31 accepted (source, target) pairs with boundary/random values and "
            "null/first/interior/last pointers, compared with the plain cast evaluated in the same translation unit; for "
            "pointers the designated sandbox offset must be unchanged.",
    "note": "Hand-listed pair family; values sampled. Trusted: TLC, harness/cast_driver.cpp, vm backend (mask-based example "
            "translation, so a wrong example address is visible), g++ 12.",
}

CHECKS["C01"] = {
    "category": "translation_validation",
    "technique": "TLA+ type-discipline spec (Taint.tla): program space enumerated by TLC, every program compiled against "
                 "the headers (verdict + type of the expression), Contract FormAllowed evaluated by TLC on every observation; "
                 "closure lemma for chains",
    "text": "The space forms x wrapper operands x right operands (about 9 000 programs in the quick tier, 16 000 in the "
            "thorough tier: every operator, every conversion context, wrapper conversions, casts, named unwrappers, private "
            "members) is defined in TLA+ and enumerated by TLC; each program is rendered as a function body against the real "
            "headers and compiled (batches, accepted programs re-confirmed so that once-per-TU template diagnostics cannot "
            "hide a rejection); TLC checks for every observation that a plain value of sandbox origin appears only after a "
            "named unwrapper or the null test of a tainted pointer, that comparisons involving sandbox-memory data or hints "
            "yield hints, and that hints are not accepted by verifiers; depth-k chains follow by the closure lemma.",
    "note": "One compiler (g++ 12). Memory punning is outside the domain. Trusted: TLC, gen/taint_corpus.py (syntax "
            "templates and diagnostic attribution), harness/taint_prelude.hpp.",
}
CHECKS["C02"] = {
    "category": "translation_validation",
    "technique": "TLA+ spec (Taint.tla enter/legal forms, Mem.EntryAllowed): entry shapes compiled against the headers under "
                 "three sandbox ABIs; run-time entry points swept over every address class; TLC judges verdicts and events",
    "text": "65 shapes by which a raw pointer, raw function pointer, array / std::array of raw pointers, wrapper of another "
            "sandbox type, mismatching function-pointer type or ill-formed callback signature could enter a wrapper, a "
            "sandbox call or a registration (on 32-bit-offset, 16-bit-offset and host-width integer pointer ABIs) must all be "
            "rejected by the compiler, 23 permitted controls are recorded; assign_raw_pointer (tainted and tainted_volatile) "
            "and UNSAFE_accept_pointer are called for every byte of the own region, its neighbours, two other live "
            "sandboxes, stack/data/heap and null, and must accept exactly addresses inside that sandbox, storing the address "
            "resp. its representation.",
    "note": "Shape family is hand-listed. Trusted: TLC, gen/taint_corpus.py, harness/mem_driver.cpp, vm backend, g++ 12.",
}

# additions of the later rounds (DESIGN.md sections 6 and 10), appended to the texts above
ADDENDA = {
    "C01": "The same rejections are also observed as run-time failures: harness/nocc_driver.cpp (RLBOX_NO_COMPILE_CHECKS without "
           "exceptions) runs each forbidden use in a forked child, which must end with SIGABRT (Abort.tla).",
    "C02": "Raw pointers of two and more levels, to void and to const are among the entry programs; the rejections are also observed "
           "as run-time failures in the RLBOX_NO_COMPILE_CHECKS configuration without exceptions (nocc_driver, Abort.tla).",
    "C04": "Pointer cells of one and of two live sandboxes compared with == / != are equal iff they designate the same object (cellcmp).",
    "C05": "One more build runs the sweeps on a 1 KiB sandbox in the middle of a host page (leaving the sandbox is not leaving the page).",
    "C13": "Every event also carries the representation each owner would hand to the sandbox: an owner that reports is_unregistered() "
           "hands out 0.",
    "C15": "Random owner histories include owners destroyed by stack unwinding and the sandbox object destroyed and created again under "
           "live owners; every owner history runs in a second incarnation of the sandbox object, after get_total_memory() was asked in "
           "the first.",
    "C16": "The operand of a refused (single) update in sandbox memory is read back and must still hold its old value.",
    "C17": "For a 2-D and a 3-D shape the size and position of what the first index designates (a row) are judged as well (RowAllowed).",
    "C18": "With the library's own locks (lock_driver on the vm, no-op and dylib backends) sandboxes created - and invoked once with a "
           "callback - by the main thread are handed to other threads, used there (example-based lookups, invocations with callbacks) "
           "and destroyed (handoff events); RegistryScope.tla proves the process-wide list design and refutes a per-thread list.",
    "C19": "Every callback body of every tree creates and destroys one more sandbox of the backend before it goes on (a step of the "
           "Model and of the Contract).",
    "C12": "Every callback body of every tree creates and destroys one more sandbox of the backend before it goes on.",
}
for _k, _v in ADDENDA.items():
    CHECKS[_k]["text"] += " " + _v
