"""Shared pipeline for the sandbox-memory properties decided with spec/Mem.tla (C07, C04, C03):
harness/mem_driver.cpp records byte-level effects of stores/loads and the application addresses
obtained from pointer-typed positions; TLC evaluates the Contract on every event (Trace_Mem)."""
import os

import vp


def drivers():
    return vp.build_many([("mem_mask", ["mem_driver.cpp"], ["-DUSE_FINDER=0"]),
                          ("mem_finder", ["mem_driver.cpp"], ["-DUSE_FINDER=1"]),
                          ("mem_lp16", ["mem_driver.cpp"], ["-DUSE_FINDER=0", "-DABI_LP16"]),
                          ("mem_lp16_finder", ["mem_driver.cpp"], ["-DUSE_FINDER=1", "-DABI_LP16"]),
                          ("mem_lp64u", ["mem_driver.cpp"], ["-DUSE_FINDER=0", "-DABI_LP64U"]),
                          # the backend variant that offers the grant / deny interface (and refuses)
                          ("mem_gd", ["mem_driver.cpp"], ["-DUSE_FINDER=0", "-DVM_GRANT_DENY"]),
                          # a bounded sandbox whose data pointers are host addresses (nothing is added or masked by
                          # the backend: only RLBox's own checks keep a pointer inside)
                          ("mem_hostptr", ["mem_driver.cpp"], ["-DUSE_FINDER=0", "-DABI_LP64U", "-DVM_HOST_POINTERS"])])


def record(drv, wd, mode, tag, thorough):
    tpath = os.path.join(wd, "%s_%s.ndjson" % (mode, tag))
    p = vp.run([drv, mode, tpath, str(vp.seed()), "1" if thorough else "0"], timeout=1100)
    vp.exit_ok(p, "mem_driver %s/%s" % (mode, tag), crash_codes=(11,))
    return tpath


def validate(chk, tpath, what):
    events = vp.read_ndjson(tpath)
    cfg = os.path.join(os.path.dirname(tpath), "Trace_Mem_%s.cfg" % what.replace("/", "_"))
    with open(cfg, "w") as f:
        f.write("SPECIFICATION Spec\nCONSTANT OpenFindings = {%s}\n" % ", ".join('"%s"' % k for k in sorted(chk.open)))
    r = vp.tlc(os.path.join(vp.SPEC, "Trace_Mem.tla"), cfg,
               name="Trace_Mem_" + what, workers=1, timeout=1100, env={"TRACE": tpath}, xmx="10g")
    res = r.printed("RESULT")
    if len(res) != 1 or res[0]["n"] != len(events):
        raise vp.Broken("trace validation did not complete (%s): %s" % (what, r.out[-1500:]))
    chk.add_tlc("Trace_Mem on " + what, r, "constant-level evaluation of the Contract on %d recorded events" % len(events))
    for k in res[0].get("known", []):
        chk.known(k["id"])
    return events, [(b, events[b - 1]) for b in res[0]["bad"]]


def wide(w):
    if not isinstance(w, dict) or "d" not in w:
        return w
    v = 0
    for i, d in enumerate(w["d"]):
        v += d << (8 * i)
    return -v if w["n"] else v


def pretty(ev):
    return {k: wide(v) for k, v in ev.items()}
