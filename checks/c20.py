"""C20 - opaque wrappers and sandbox casts preserve bits, designation and taint."""
import os

import vp


def run(tier):
    chk = vp.Check("C20", tier)
    wd = vp.workdir("c20")
    drv = vp.build("cast_driver", ["cast_driver.cpp"], [])
    events = []
    tpath = os.path.join(wd, "cast.ndjson")
    seeds = [vp.seed()] + ([vp.seed() + k for k in range(1, 8)] if tier == "thorough" else [])
    allp = os.path.join(wd, "all.ndjson")
    for sd in seeds:
        p = vp.run([drv, tpath, str(sd)], timeout=600)
        if p.returncode != 0:
            raise vp.Broken("cast_driver rc=%d %s" % (p.returncode, p.stderr[-300:]))
        events += vp.read_ndjson(tpath)
    vp.write_ndjson(allp, events)
    r = vp.tlc(os.path.join(vp.SPEC, "Trace_Casts.tla"), os.path.join(vp.SPEC, "Trace_Casts.cfg"), workers=1, timeout=600,
               env={"TRACE": allp})
    res = r.printed("RESULT")
    if len(res) != 1 or res[0]["n"] != len(events):
        raise vp.Broken("Trace_Casts did not complete: " + r.out[-1500:])
    chk.add_tlc("Trace_Casts", r, "constant-level evaluation of the Casts Contract on %d recorded events" % len(events))
    for b in res[0]["bad"]:
        chk.violation("event outside the C20 Contract: %s" % events[b - 1], events[b - 1])
    combos = set((e["e"], e.get("cast", e.get("ty", e.get("what"))), e.get("from"), e.get("to"), e.get("src", e.get("form")))
                 for e in events)
    chk.count(evaluations=len(events), distinct=len(combos), traces=len(seeds))
    chk.sample(events[10])
    chk.sample([e for e in events if e["e"] == "cast"][5])
    chk.cov["exhaustive"] = False
    chk.cov["scope"] = "opaque round trips for 15 primitive/pointer types, a registered struct and an array; opaque vs tainted " \
                       "values as callback results and invocation arguments (incl. values that must abort); 17 static, 9 " \
                       "reinterpret and 5 const cast pairs on tainted and tainted_volatile sources with boundary/random values " \
                       "and null/first/interior/last pointers"
    chk.assumptions += ["the accepted (source, target) pairs are a hand-listed family; rejected pairs are program forms (C01)",
                        "a pointer to offset 0 of the region is not storable in sandbox memory as a non-null pointer (its "
                        "representation is null's)"]
    return chk.finish(rule="one evaluation = one cast / round trip / boundary crossing compared with its plain reference by TLC; "
                           "distinct_nontrivial = distinct (kind, cast, source type, target type, source wrapper) combinations")
