"""C20 - opaque wrappers and sandbox casts preserve bits, designation and taint."""
import os

import vp


def run(tier):
    chk = vp.Check("C20", tier)
    wd = vp.workdir("c20")
    # compile-time side: (tainted form, opaque form) program pairs, verdicts from the compiler
    from concurrent.futures import ThreadPoolExecutor
    src = os.path.join(vp.HARNESS, "c20_forms.cpp")
    text = open(src).read()
    forms = {}
    import re
    for m in re.finditer(r"#(?:el)?if FORM == (\d+)\n((?:  [^\n]*\n)+)", text):
        forms[int(m.group(1))] = " ".join(l.strip() for l in m.group(2).splitlines())

    def verdict(f):
        p = vp.run([vp.CXX] + vp.BASE_FLAGS + ["-fsyntax-only", "-DFORM=%d" % f, src], timeout=300)
        err = [l for l in p.stderr.splitlines() if " error: " in l]
        return f, ("accept" if p.returncode == 0 else "reject"), (err[0][-200:] if err else "")
    with ThreadPoolExecutor(max_workers=12) as ex:
        verdicts = {f: (v, why) for f, v, why in ex.map(verdict, sorted(forms))}
    if len(forms) < 28 or all(v == "reject" for v, _ in verdicts.values()):
        raise vp.Broken("c20_forms.cpp: no form compiles: %s" % verdicts.get(0, ("", ""))[1])
    pair_events = []
    for k in range(len(forms) // 2):
        pair_events.append({"e": "formpair", "pair": k, "tainted_form": forms[2 * k], "opaque_form": forms[2 * k + 1],
                            "tainted": verdicts[2 * k][0], "opaque": verdicts[2 * k + 1][0],
                            "why": verdicts[2 * k][1] or verdicts[2 * k + 1][1]})
    dflags = []
    if any(verdicts[f][0] == "reject" for f in (3, 5)) and verdicts[1][0] == "accept":
        dflags = ["-DC20_NO_OPAQUE_PTR_INVOKE"]     # keep observing the rest of the run-time behaviour
    if verdicts[25][0] == "reject" and verdicts[24][0] == "accept":
        dflags.append("-DC20_NO_OPAQUE_ARRAY")
    disagree = [e for e in pair_events if e["tainted"] != e["opaque"]]
    try:
        drv = vp.build("cast_driver", ["cast_driver.cpp"], dflags)
    except vp.Broken:
        if not disagree:
            raise
        # the run-time driver uses the very forms the compiler just rejected: judge the pairs alone
        drv = None
    events = list(pair_events)
    tpath = os.path.join(wd, "cast.ndjson")
    seeds = [vp.seed()] + ([vp.seed() + k for k in range(1, 8)] if tier == "thorough" else [])
    allp = os.path.join(wd, "all.ndjson")
    for sd in (seeds if drv else []):
        p = vp.run([drv, tpath, str(sd)], timeout=600)
        if p.returncode < 0:
            # the executor died on a signal while exercising the real headers: an observation
            events += vp.read_ndjson(tpath)
            events.append({"e": "crash", "signal": -p.returncode, "seed": sd})
            break
        if p.returncode != 0:
            raise vp.Broken("cast_driver rc=%d %s" % (p.returncode, p.stderr[-300:]))
        events += vp.read_ndjson(tpath)
    if drv:
        # the casts and round trips again under guest ABIs whose pointers are 16-bit, or as wide as
        # the host's while still being offsets from the sandbox base
        fdrvs = vp.build_many([("cast_driver_lp64u", ["cast_driver.cpp"], dflags + ["-DABI_LP64U"], "-O1"),
                               ("cast_driver_lp16", ["cast_driver.cpp"], dflags + ["-DABI_LP16"], "-O1"),
                               # unoptimised: every conversion the source spells out is really executed (an
                               # optimiser removes exact round trips, e.g. through a wider floating-point type)
                               ("cast_driver_O0", ["cast_driver.cpp"], dflags, "-O0")])
        for nm, fd in sorted(fdrvs.items()):
            fpath = os.path.join(wd, nm + ".ndjson")
            p = vp.run([fd, fpath, str(seeds[0])], timeout=600)
            if p.returncode < 0:
                events += vp.read_ndjson(fpath)
                events.append({"e": "crash", "signal": -p.returncode, "seed": seeds[0], "abi": nm})
                continue
            if p.returncode != 0:
                raise vp.Broken("%s rc=%d %s" % (nm, p.returncode, p.stderr[-300:]))
            for e in vp.read_ndjson(fpath):
                e["abi"] = nm[len("cast_driver_"):]
                events.append(e)
    vp.write_ndjson(allp, events)
    r = vp.tlc(os.path.join(vp.SPEC, "Trace_Casts.tla"), os.path.join(vp.SPEC, "Trace_Casts.cfg"), workers=1, timeout=600,
               env={"TRACE": allp})
    res = r.printed("RESULT")
    if len(res) != 1 or res[0]["n"] != len(events):
        raise vp.Broken("Trace_Casts did not complete: " + r.out[-1500:])
    chk.add_tlc("Trace_Casts", r, "constant-level evaluation of the Casts Contract on %d recorded events" % len(events))
    for b in res[0]["bad"]:
        chk.violation("event outside the C20 Contract: %s" % events[b - 1], events[b - 1])
    combos = set((e["e"], e.get("abi"), e.get("cast", e.get("ty", e.get("what"))), e.get("from"), e.get("to"), e.get("src", e.get("form")))
                 for e in events)
    chk.count(evaluations=len(events), distinct=len(combos), traces=len(seeds))
    if drv and len(events) > len(pair_events) + 10:
        chk.sample(events[len(pair_events) + 10])
    chk.sample(pair_events[2])
    chk.cov["form_pairs"] = len(pair_events)
    if drv and len([e for e in events if e["e"] == "cast"]) > 5:
        chk.sample([e for e in events if e["e"] == "cast"][5])
    chk.cov["exhaustive"] = False
    chk.cov["scope"] = "14 (tainted form, opaque form) program pairs judged by compile verdict; opaque round trips for 15 primitive/pointer types, a registered struct and an array; opaque vs tainted " \
                       "values as callback results and invocation arguments (incl. values that must abort); 17 static, 9 " \
                       "reinterpret and 5 const cast pairs on tainted and tainted_volatile sources with boundary/random values " \
                       "and null/first/interior/last pointers, under the wasm32, lp16 and lp64u guest ABIs"
    chk.assumptions += ["the accepted (source, target) pairs are a hand-listed family; rejected pairs are program forms (C01)",
                        "a pointer to offset 0 of the region is not storable in sandbox memory as a non-null pointer (its "
                        "representation is null's)"]
    return chk.finish(rule="one evaluation = one cast / round trip / boundary crossing compared with its plain reference by TLC; "
                           "distinct_nontrivial = distinct (kind, cast, source type, target type, source wrapper) combinations")
