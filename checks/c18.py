"""C18 - distinct sandboxes can be used from distinct threads without interference.

spec/ThreadsContract.tla (lock discipline, guarded accesses, no racy read, isolation),
spec/Threads.tla (Model at the granularity of the code's synchronisation points; TLC explores all
interleavings of 2 (3) threads, checks Model => Contract, emits every edge),
harness/thr_driver.cpp (real threads under a deterministic cooperative scheduler driven through
the custom-lock seam, the RLBOX_VERIF_EVENT hook and yields in guest code / callbacks),
harness/lock_driver.cpp (the library's OWN lock macros: at the reported accesses to the live list a helper
thread that needs the list exclusively must not get through),
spec/Trace_Threads.tla (TLC folds the Contract over the scheduler's step log)."""
import os
import random

import vp

CFG = """SPECIFICATION MSpec
CONSTANTS
  Threads = {%s}
  EmitEdges = %s
VIEW MView
INVARIANTS Exclusion NoRacyRead ListExact
PROPERTY Refines
ACTION_CONSTRAINT Emitter
"""


def run(tier):
    chk = vp.Check("C18", tier)
    wd = vp.workdir("c18")
    thorough = tier == "thorough"
    rng = random.Random(vp.seed())

    def model(threads, emit):
        cfg = os.path.join(wd, "MC_Threads_%d.cfg" % len(threads))
        with open(cfg, "w") as f:
            f.write(CFG % (", ".join('"%s"' % t for t in threads), "TRUE" if emit else "FALSE"))
        r = vp.tlc(os.path.join(vp.SPEC, "Threads.tla"), cfg, name="Threads_%d" % len(threads), workers=1 if emit else 8,
                   timeout=1000, xmx="10g")
        chk.add_tlc("Threads %d threads%s" % (len(threads), " +edges" if emit else ""), r,
                    "all interleavings; Model => Contract (Refines), Exclusion, NoRacyRead, ListExact")
        if r.violated or not r.ok:
            chk.violation("design check failed: %s violated in Threads.tla" % r.violated, {"tlc_tail": r.out[-3000:]})
            return None
        return r.printed("EDGE") if emit else []
    edges = model(["t1", "t2"], True)
    if edges is None:
        return chk.finish()
    e3 = model(["t1", "t2", "t3"], thorough)
    if e3 is None:
        return chk.finish()
    lines = []
    for w in vp.cover_walks(edges, edges[0]["src"], maxlen=200):
        lines.append("sched 2 1 %d %s" % (rng.randrange(1 << 30), " ".join(e["ev"]["t"] for e in w)))
    nmodel = len(lines)
    if thorough and e3:
        for w in vp.cover_walks(e3, e3[0]["src"], maxlen=300)[:4000]:
            lines.append("sched 3 1 %d %s" % (rng.randrange(1 << 30), " ".join(e["ev"]["t"] for e in w)))
    # seeded random schedules with more threads and repeated programs
    for _ in range(600 if thorough else 120):
        n = rng.choice([2, 3, 4, 8] + ([12, 16] if thorough else []))
        lines.append("sched %d %d %d" % (n, rng.choice([1, 2]), rng.randrange(1 << 30)))
    spath = os.path.join(wd, "schedules.txt")
    with open(spath, "w") as f:
        f.write("\n".join(lines) + "\n")
    drv = vp.build("thr_driver", ["thr_driver.cpp"], [])
    drvn = vp.build("thr_driver_noop", ["thr_driver.cpp"], ["-DBK_NOOP"])
    tpath = os.path.join(wd, "c18.ndjson")
    p = vp.run(["timeout", "900", drv, spath, tpath], timeout=1000)
    events = vp.read_ndjson(tpath)
    if p.returncode not in (0, 7):
        # a crash / hang of the threaded run is an observation: validate what was logged, then flag it
        vp.log("thr_driver rc=%d" % p.returncode)
    # bundled no-op backend (thread-local "current sandbox" of rlbox_noop_sandbox.hpp): random schedules
    npath = os.path.join(wd, "schedules_noop.txt")
    with open(npath, "w") as f:
        f.write("\n".join(l for l in lines[nmodel:] if len(l.split()) == 4) + "\n")
    tn = os.path.join(wd, "c18_noop.ndjson")
    pn = vp.run(["timeout", "900", drvn, npath, tn], timeout=1000)
    nev = vp.read_ndjson(tn)
    if pn.returncode not in (0, 7):
        vp.log("thr_driver_noop rc=%d" % pn.returncode)
    events += nev
    if pn.returncode not in (0, 7):
        p = pn
    # the same backends with embedder-provided per-thread records (RLBOX_EMBEDDER_PROVIDES_TLS_STATIC_VARIABLES)
    import callscommon as cc
    glib = cc.build_guestlibs()[0]
    for nm, flags, sp in (("thr_driver_noop_etls", ["-DBK_NOOP", "-DTLS_EMBEDDER"], npath),
                          ("thr_driver_etls", ["-DTLS_EMBEDDER"], spath),
                          # the bundled dylib backend (statically linked guest), library and embedder TLS
                          ("thr_driver_dylib", ["-DBK_DYLIB"], npath),
                          ("thr_driver_dylib_etls", ["-DBK_DYLIB", "-DTLS_EMBEDDER"], npath)):
        d = vp.build(nm, ["thr_driver.cpp"], flags, "-O1", ["-ldl"] if "dylib" in nm else [])
        te = os.path.join(wd, nm + ".ndjson")
        pe = vp.run(["timeout", "900", d, sp, te] + ([glib] if "dylib" in nm else []), timeout=1000)
        events += vp.read_ndjson(te)
        if pe.returncode not in (0, 7):
            vp.log("%s rc=%d" % (nm, pe.returncode))
            if p.returncode in (0, 7):
                p = pe
    # the library's own lock macros (no scheduler): is the list lock really held at every list access?
    nprobe = 0
    for nm, flags in (("lock_driver", []), ("lock_driver_noop", ["-DBK_NOOP"]), ("lock_driver_dylib", ["-DBK_DYLIB", "-ldl"])):
        d = vp.build(nm, ["lock_driver.cpp"], flags)
        tl = os.path.join(wd, nm + ".ndjson")
        pl = vp.run(["timeout", "300", d, tl] + ([glib] if "dylib" in nm else []), timeout=400)
        lev = vp.read_ndjson(tl)
        if pl.returncode == 3:
            raise vp.Broken("%s: the exclusion probe cannot get through even when nothing is locked (overloaded machine?)" % nm)
        if pl.returncode != 0:
            # plain sequential use of three sandboxes ended abnormally in the real code: an observation
            chk.violation("%s: sequential create / use / destroy of three sandboxes ended abnormally (rc=%d): %s" %
                          (nm, pl.returncode, pl.stderr[-200:].strip()), {"rc": pl.returncode, "events": lev[-10:]})
        elif len([e for e in lev if e["e"] == "lockprobe"]) < 10:
            raise vp.Broken("%s: %d events only" % (nm, len(lev)))
        nprobe += len(lev)
        events += lev
    chk.cov["lock_probes"] = nprobe
    # design level, behind the hand-off events: the list of live sandboxes is process-wide. TLC proves that with
    # such a list every lookup / destroy by the current user of a sandbox finds it, and refutes a list per thread
    rs = os.path.join(vp.SPEC, "RegistryScope.tla")
    r = vp.tlc(rs, os.path.join(vp.SPEC, "RegistryScope_Process.cfg"), name="RegistryScope_process", workers=1, timeout=300)
    chk.add_tlc("RegistryScope (process-wide list)", r, "create / hand over / look up / destroy of 2 sandboxes by 2 threads: "
                "AloneResults, Exact")
    if r.violated or not r.ok:
        chk.violation("design check failed: %s violated in RegistryScope.tla (process-wide list)" % r.violated,
                      {"tlc_tail": r.out[-3000:]})
    r = vp.tlc(rs, os.path.join(vp.SPEC, "RegistryScope_Thread.cfg"), name="RegistryScope_thread", workers=1, timeout=300)
    if r.violated != "AloneResults":
        raise vp.Broken("RegistryScope.tla no longer refutes the per-thread list: " + r.out[-800:])
    chk.cov["registry_scope_refutes_per_thread_list"] = 1
    vp.write_ndjson(tpath, events)
    r = vp.tlc(os.path.join(vp.SPEC, "Trace_Threads.tla"), os.path.join(vp.SPEC, "Trace_Threads.cfg"), workers=1,
               timeout=1100, env={"TRACE": tpath}, xmx="10g")
    res = r.printed("RESULT")
    if len(res) != 1 or res[0]["n"] != len(events):
        raise vp.Broken("Trace_Threads did not complete: " + r.out[-1500:])
    chk.add_tlc("Trace_Threads", r, "fold of the Contract over %d scheduler steps" % len(events))
    for b in res[0]["bad"]:
        s = b - 1
        while s > 0 and events[s]["e"] != "reset":
            s -= 1
        chk.violation("step %d outside the C18 Contract: %s" % (b, events[b - 1]),
                      {"event": events[b - 1], "execution": events[s:b][-40:]})
    if p.returncode not in (0, 7) and not res[0]["bad"]:
        chk.violation("threaded run ended abnormally (rc=%d) after: %s" % (p.returncode, events[-1] if events else None),
                      {"tail": events[-20:]})
    nexec = sum(1 for e in events if e["e"] == "reset")
    div = sum(e.get("divergences", 0) for e in events if e["e"] == "summary")
    if div:
        chk.drift({"what": "schedule entries that named a thread which was not enabled (model/real step mismatch)", "count": div})
    chk.count(evaluations=len(events), distinct=len(edges) + (len(e3) if e3 else 0), traces=nexec)
    for ev in events[3:6]:
        chk.sample(ev)
    chk.cov["model_schedules"] = nmodel
    chk.cov["exhaustive"] = True
    chk.cov["exhaustive_scope"] = "every edge of the 2-thread interleaving graph replayed as a schedule%s; the 3-thread graph " \
                                  "is model-checked%s; seeded random schedules with 2..%d threads" % (
                                      "", " and its edges replayed (first 4000 walks)" if thorough else "", 16 if thorough else 8)
    chk.assumptions += ["interleavings are controlled at lock operations, list accesses, backend creation/destruction, guest "
                        "yields, callback bodies and API begin/end; hardware memory-model effects are out of reach",
                        "exactly one thread runs at a time: data races are detected as unguarded accesses in the log, not by "
                        "racing",
                        "RLBOX_SINGLE_THREADED_INVOCATIONS is defined (each sandbox is used by one thread), as the property "
                        "states"]
    return chk.finish(rule="one evaluation = one scheduler step judged by TLC (ThAllowed); distinct_nontrivial = distinct "
                           "edges of the interleaving graphs explored by TLC")
