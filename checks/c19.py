"""C19 - transition notifications bracket every boundary crossing and stay balanced
(mode "hooks" of CallsContract: a hook event is allowed only at its grammar position with the
kind / identity / per-sandbox state of the crossing on top of the stack, every crossing is
closed exactly once also when an abort unwinds it, one timing record per crossing)."""
import c12


def run(tier):
    return c12.run(tier, prop="C19", mode="hooks")
