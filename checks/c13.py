"""C13 - callback registrations have exactly one owner and end when that owner does.

spec/SbxContract.tla (Allowed/Apply/Registered/CInv), spec/Sbx.tla (Model, TablesExact,
Refines, edge emission), spec/Trace_Sbx.tla (oracle), harness/sbx_driver.cpp (vm, no-op, dylib)."""
import os
import random

import sbxcommon as sx
import vp

CB_ACTS = ["create", "register", "unregister", "odestroy", "omovec", "omovea", "probe"]


def capacity_history(slots):
    """fill the backend's entry-point table, check the refusal, free the last / first /
    middle entry, re-register, and probe reachability after every step"""
    L = ["reset 1 %d %d" % (slots, slots + 2), "create s1 1 0"]
    for i in range(slots):
        L.append("register s1 f%d b%d" % (10 + i, i))
    L += ["probe s1", "register s1 f%d b%d" % (10 + slots, slots), "probe s1"]
    for k in (slots - 1, 0, slots // 2):
        L += ["odestroy b%d" % k, "probe s1", "register s1 f%d b%d" % (10 + slots, slots + 1), "probe s1",
              "register s1 f%d b%d" % (10 + k, k), "unregister b%d" % (slots + 1), "probe s1",
              "odestroy b%d" % (slots + 1), "register s1 f%d b%d" % (10 + k, k), "probe s1"]
    L += ["destroy s1"] + ["odestroy b%d" % i for i in range(0, slots, max(1, slots // 5))]
    return L


def random_history(rng, slots, n, with_destroy):
    L = ["reset 2 %d 0" % slots]
    sbs, fns, ows = ["s1", "s2"], ["f1", "f2", "f3"], ["o1", "o2", "o3"]
    L += ["create s1 1 0"]
    for _ in range(n):
        r = rng.random()
        s, f, o, o2 = rng.choice(sbs), rng.choice(fns), rng.choice(ows), rng.choice(ows)
        if r < 0.28:
            L.append("register %s %s %s" % (s, f, o))
        elif r < 0.38:
            L.append("unregister " + o)
        elif r < 0.50:
            L.append("odestroy " + o)
        elif r < 0.60:
            L.append("omovec %s %s" % (o, o2))
        elif r < 0.72:
            L.append("omovea %s %s" % (o, o2))
        elif r < 0.90:
            L.append("probe " + s)
        elif r < 0.95:
            L.append("create %s 1 0" % s)
        elif with_destroy:
            L.append("destroy " + s)
    return L


def run(tier):
    chk = vp.Check("C13", tier)
    rng = random.Random(vp.seed())
    wd = vp.workdir("c13")
    thorough = tier == "thorough"
    sets = []
    n_edges = 0
    cfgs = [("A", ["s1"], ["f1", "f2", "f3"], ["o1", "o2", "o3"], 2, [1], 1, CB_ACTS, "reset 1 2 0"),
            ("B", ["s1"], ["f1", "f2"], ["o1", "o2"], 2, [1], 2, CB_ACTS + ["destroy"], "reset 1 2 0")]
    if thorough:
        cfgs.append(("D", ["s1", "s2"], ["f1", "f2", "f3"], ["o1", "o2", "o3"], 2, [1], 1, CB_ACTS + ["destroy"],
                     "reset 2 2 0"))
    else:
        cfgs.append(("D1", ["s1", "s2"], ["f1", "f2"], ["o1", "o2"], 1, [1], 1, CB_ACTS, "reset 2 1 0"))
    for (name, sb, fn, ow, slots, libs, maxinc, acts, hdr) in cfgs:
        m = sx.model(chk, wd, name, sb, fn, ow, slots, libs, maxinc, acts, emit=True)
        if m is None:
            return chk.finish()
        edges, init = m
        n_edges += len(edges)
        sets.append((hdr, vp.cover_walks(edges, init, maxlen=300)))
    lines, expected = sx.walks_to_lines(sets, observe=True)
    n_model_lines = len(lines)
    extra = []
    extra.append(capacity_history(2))
    for _ in range(150 if thorough else 30):
        extra.append(random_history(rng, 2, 60, True))
    for h in extra:
        lines += h
        expected += [None] * len(h)

    drv = vp.build_many([("sbx_vm", ["sbx_driver.cpp"], ["-DBK_VM"]), ("sbx_noop", ["sbx_driver.cpp"], ["-DBK_NOOP"])])
    # vm backend: everything
    events, tpath = sx.replay(drv["sbx_vm"], wd, "vm", lines)
    bad = sx.validate(chk, "Trace_Sbx", tpath, events, lines, "vm")
    sx.drift(chk, expected, events)
    n_ev = len(events)
    n_exec = sum(1 for e in events if e["e"] == "reset")
    # no-op backend (64 entry points): same walks with the Contract's capacity set to 64,
    # plus the capacity history for 64
    # (the number of entry points is measured on the backend, not assumed; the capacity history needs two
    # more owners than entry points and the driver has 72 spare owners / 70 spare functions)
    def native_lines(cap):
        L = [l.replace("reset 1 2 ", "reset 1 %d " % cap).replace("reset 2 2 ", "reset 2 %d " % cap).replace("reset 2 1 ", "reset 2 %d " % cap)
             if l.startswith("reset") else l for l in lines[:n_model_lines if not thorough else len(lines)]]
        if cap <= 68:
            L += capacity_history(cap)
        else:
            chk.assumptions.append("backend with %d entry points per sandbox: the table-full history is not run (driver pool: 68)" % cap)
        return L
    ncap = sx.capacity(drv["sbx_noop"])
    chk.cov["entry_points_noop"] = ncap
    nlines = native_lines(ncap)
    nevents, ntpath = sx.replay(drv["sbx_noop"], wd, "noop", nlines)
    bad += sx.validate(chk, "Trace_Sbx", ntpath, nevents, nlines, "noop")
    n_ev += len(nevents)
    n_exec += sum(1 for e in nevents if e["e"] == "reset")
    # dylib backend (64 entry points, real dlopen'ed guest library): the same script
    ddrv, dlibs = sx.dylib_driver()
    dcap = sx.capacity(ddrv, dlibs)
    chk.cov["entry_points_dylib"] = dcap
    nlines = native_lines(dcap)
    devents, dtpath = sx.replay(ddrv, wd, "dylib", nlines, dlibs)
    bad += sx.validate(chk, "Trace_Sbx", dtpath, devents, nlines, "dylib")
    n_ev += len(devents)
    n_exec += sum(1 for e in devents if e["e"] == "reset")
    for g in sx.BOGUS:
        chk.violation("[%s] registration number %d on a fresh sandbox was accepted although no entry point was left: the owner "
                      "claims to be registered but has no entry point of its own" % (g["backend"], g["accepted_without_entry_point"]), g)
    del sx.BOGUS[:]
    for b in bad:
        chk.violation("[%s backend] event %d outside the C13 Contract: %s" % (b["backend"], b["index"], b["event"]),
                      {"backend": b["backend"], "walk": b["walk"], "event": b["event"]})
    # the same refusals in the library's DEFAULT failure configuration (no exceptions, no custom handler): the process ends
    import abortcommon
    abortcommon.judge(chk, wd, "C13")
    chk.count(evaluations=n_ev, distinct=n_edges, traces=n_exec)
    for ev in events[5:8] + nevents[-3:-1]:
        chk.sample(ev)
    chk.cov["model_edges_replayed"] = n_edges
    chk.cov["exhaustive"] = True
    chk.cov["exhaustive_scope"] = "every edge of the bounded Sbx models %s replayed on vm, no-op and dylib backends; " \
                                  "capacity and random histories beyond" % [c[0] for c in cfgs]
    chk.assumptions += ["reachability is probed by calling every entry point ever handed out, each in a forked child",
                        "on the native backends (no-op, dylib) reachability goes through the trampolines' addresses"]
    return chk.finish(rule="one evaluation = one recorded API call (with result and owner projection) validated by TLC "
                           "against SbxContract; distinct_nontrivial = distinct Model edges replayed")
