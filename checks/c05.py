"""C05 - tainted pointer arithmetic stays in the sandbox and uses the sandbox stride."""
import os

import addrcommon as ac
import fetchcommon as fc
import vp


def run(tier):
    chk = vp.Check("C05", tier)
    wd = vp.workdir("c05")
    thorough = tier == "thorough"
    if not ac.design_check(chk):
        return chk.finish()
    drvs = vp.build_many([("ptr_driver", ["ptr_driver.cpp"], [], "-O2"),
                          ("ptr_driver_lp16", ["ptr_driver.cpp"], ["-DABI_LP16"], "-O2"),
                          ("ptr_driver_lp64u", ["ptr_driver.cpp"], ["-DABI_LP64U"], "-O2"),
                          # backends whose range check compares the OWNERS of the two addresses (three-argument
                          # impl_is_in_same_sandbox, owner found by walking the live-sandbox list)
                          ("ptr_driver_exact", ["ptr_driver.cpp"], ["-DVM_EXACT_SAME_SANDBOX"], "-O2"),
                          ("ptr_driver_exact_last", ["ptr_driver.cpp"], ["-DVM_EXACT_SAME_SANDBOX", "-DSBX_LAST"], "-O2"),
                          # ... and when the sandbox under test is the only live sandbox of its type
                          ("ptr_driver_exact_alone", ["ptr_driver.cpp"], ["-DVM_EXACT_SAME_SANDBOX", "-DSBX_ALONE"], "-O2"),
                          # a sandbox of 1 KiB in the middle of a host page: leaving the sandbox does not mean leaving the page
                          ("ptr_driver_small", ["ptr_driver.cpp"], ["-DREGION_BITS=10"], "-O2")])
    from concurrent.futures import ThreadPoolExecutor

    def one(abi):
        drv = drvs["ptr_driver" + ("" if abi == "wasm32" else "_" + abi)]
        tpath = os.path.join(wd, "c05_%s.ndjson" % abi)
        p = vp.run([drv, "c05", tpath, str(vp.seed()), "1" if thorough else "0"], timeout=1100)
        vp.exit_ok(p, "ptr_driver c05/%s" % abi)
        evs, bd = ac.validate(chk, tpath, "c05_" + abi)
        for e in evs:
            e["abi"] = abi
        return evs, bd
    with ThreadPoolExecutor(max_workers=7) as ex:
        res = list(ex.map(one, ("wasm32", "lp16", "lp64u", "exact", "exact_last", "exact_alone", "small")))
    events = [e for evs, _ in res for e in evs]
    bad = [b for _, bd in res for b in bd]
    combos = set()
    for e in events:
        combos.add((e["op"], e["pt"], e["nty"], e["w"], e["base"], e.get("cls", e.get("out"))))
    for b, ev in bad:
        chk.violation("pointer operation outside the C05 Contract: %s" % ac.pretty(ev), ac.pretty(ev))
    for ev in events[0:2] + events[len(events) // 2:len(events) // 2 + 2]:
        chk.sample(ac.pretty(ev))
    # the operand itself lives in sandbox memory and changes between reads
    nf, cf = fc.judge(chk, wd, "c05", "C05", ("wasm32", "ilp64", "lp16"))
    nf2, cf2 = fc.judge(chk, wd, "c03", "C05", ("wasm32", "ilp64", "lp16"))      # ... and so does the pointer
    nf, cf = nf + nf2, cf | cf2
    # the same refusals in the library's DEFAULT failure configuration (no exceptions, no custom handler): the process ends
    import abortcommon
    abortcommon.judge(chk, wd, "C05")
    chk.count(evaluations=len(events) + nf, distinct=len(combos) + len(cf), traces=1)
    chk.cov["exhaustive"] = True
    chk.cov["exhaustive_scope"] = "8/16-bit operands exhaustively (run-summarised) for + - += -= [] &[] on 11 pointee kinds " \
                                  "x 3 bases, 3 guest ABIs, mask-based and owner-comparing range checks (pointer of the first created of three live sandboxes; of the last created after the oldest was destroyed; of the only live sandbox); 32/64-bit operands at boundary values (accepted-interval ends, type limits, " \
                                  "operands whose byte offset crosses 2^16..2^64) and seeded random values; plain, tainted " \
                                  "and tainted_volatile operands; null bases; ++/-- pre/post; operands read from a sandbox-memory cell that is rewritten after every read"
    chk.assumptions += ["flag-abort build; strides are the harness' own statement of the wasm32 sizes",
                        "32/64-bit operands are not exhaustive"]
    return chk.finish(rule="one evaluation = one single operation or one run of consecutive operands with one outcome, "
                           "judged by TLC (PtrOpAllowed / PtrRunAllowed, exact arithmetic); distinct_nontrivial = distinct "
                           "(op, pointee, operand type, wrapper, base, outcome) combinations")
