"""C05 - tainted pointer arithmetic stays in the sandbox and uses the sandbox stride."""
import os

import addrcommon as ac
import vp


def run(tier):
    chk = vp.Check("C05", tier)
    wd = vp.workdir("c05")
    thorough = tier == "thorough"
    if not ac.design_check(chk):
        return chk.finish()
    drv = vp.build("ptr_driver", ["ptr_driver.cpp"], opt="-O2")
    tpath = os.path.join(wd, "c05.ndjson")
    p = vp.run([drv, "c05", tpath, str(vp.seed()), "1" if thorough else "0"], timeout=1100)
    if p.returncode != 0:
        raise vp.Broken("ptr_driver c05 rc=%d %s" % (p.returncode, p.stderr[-300:]))
    events, bad = ac.validate(chk, tpath, "c05")
    combos = set()
    for e in events:
        combos.add((e["op"], e["pt"], e["nty"], e["w"], e["base"], e.get("cls", e.get("out"))))
    for b, ev in bad:
        chk.violation("pointer operation outside the C05 Contract: %s" % ac.pretty(ev), ac.pretty(ev))
    for ev in events[0:2] + events[len(events) // 2:len(events) // 2 + 2]:
        chk.sample(ac.pretty(ev))
    chk.count(evaluations=len(events), distinct=len(combos), traces=1)
    chk.cov["exhaustive"] = True
    chk.cov["exhaustive_scope"] = "8/16-bit operands exhaustively (run-summarised) for + - += -= [] &[] on 11 pointee kinds " \
                                  "x 3 bases; 32/64-bit operands at boundary values (accepted-interval ends, type limits, " \
                                  "operands whose byte offset crosses 2^16..2^64) and seeded random values; plain, tainted " \
                                  "and tainted_volatile operands; null bases; ++/-- pre/post"
    chk.assumptions += ["flag-abort build; strides are the harness' own statement of the wasm32 sizes",
                        "32/64-bit operands are not exhaustive"]
    return chk.finish(rule="one evaluation = one single operation or one run of consecutive operands with one outcome, "
                           "judged by TLC (PtrOpAllowed / PtrRunAllowed, exact arithmetic); distinct_nontrivial = distinct "
                           "(op, pointee, operand type, wrapper, base, outcome) combinations")
