"""C17 - indexing a tainted fixed-size array is bounds-checked for every index type."""
import os

import addrcommon as ac
import fetchcommon as fc
import vp


def run(tier):
    chk = vp.Check("C17", tier)
    wd = vp.workdir("c17")
    thorough = tier == "thorough"
    drvs = vp.build_many([("ptr_driver", ["ptr_driver.cpp"], [], "-O2"),
                          ("ptr_driver_lp16", ["ptr_driver.cpp"], ["-DABI_LP16"], "-O2"),
                          ("ptr_driver_lp64u", ["ptr_driver.cpp"], ["-DABI_LP64U"], "-O2"),
                          ("ptr_driver_ilp64", ["ptr_driver.cpp"], ["-DABI_ILP64"], "-O2")])
    from concurrent.futures import ThreadPoolExecutor

    def one(abi):
        drv = drvs["ptr_driver" + ("" if abi == "wasm32" else "_" + abi)]
        tpath = os.path.join(wd, "c17_%s.ndjson" % abi)
        p = vp.run([drv, "c17", tpath, str(vp.seed()), "1" if thorough else "0"], timeout=1100)
        vp.exit_ok(p, "ptr_driver c17/%s" % abi)
        evs, bd = ac.validate(chk, tpath, "c17_" + abi)
        for e in evs:
            e["abi"] = abi
        return evs, bd
    with ThreadPoolExecutor(max_workers=4) as ex:
        res = list(ex.map(one, ("wasm32", "lp16", "lp64u", "ilp64")))
    events = [e for evs, _ in res for e in evs]
    bad = [b for _, bd in res for b in bd]
    combos = set()
    for e in events:
        if e["e"] == "row":
            combos.add(("row", e["kind"], e["rows"], e["cols"], e["es"], e["i"]))
            continue
        combos.add((e["kind"], e["el"], e["ity"], e["w"], e["len"], e["cls"]))
    for b, ev in bad:
        chk.violation("array indexing outside the C17 Contract: %s" % ac.pretty(ev), ac.pretty(ev))
    for ev in events[0:3]:
        chk.sample(ac.pretty(ev))
    # the index itself lives in sandbox memory and changes between reads
    nf, cf = fc.judge(chk, wd, "c17", "C17", ("wasm32", "ilp64", "lp16"))
    # the same refusals in the library's DEFAULT failure configuration (no exceptions, no custom handler): the process ends
    import abortcommon
    abortcommon.judge(chk, wd, "C17")
    chk.count(evaluations=len(events) + nf, distinct=len(combos) + len(cf), traces=1)
    chk.cov["exhaustive"] = True
    chk.cov["exhaustive_scope"] = "every 8-bit index and (per tier) every 16-bit index for lengths {1,2,3,5,8,16}(+{4,7,9,15}) x " \
                                  "6 element types x application/sandbox memory x plain/tainted index; 32/64-bit indices at " \
                                  "-1, length, type limits and values aliasing a valid index after truncation; one 2-D shape and the rows of a 2-D and a 3-D shape (size and position of what the first index designates); lengths 300 " \
                                  "and 40000 (longer than the range of 8-/16-bit index types) with every 8- and 16-bit index; indices read from a sandbox-memory cell that is rewritten after every read (8 index types x 9 arrays x scripts of valid / invalid values, 3 ABIs)"
    chk.assumptions += ["flag-abort build; element offsets are measured with std::addressof on the returned reference"]
    return chk.finish(rule="one evaluation = one run of consecutive indices with one outcome, judged by TLC "
                           "(IndexRunAllowed); distinct_nontrivial = distinct (memory kind, element, index type, wrapper, "
                           "length, outcome) combinations")
