"""The default failure configuration (shared by the checks of the properties that say "aborts"):
harness/abort_driver.cpp is built with neither RLBOX_USE_EXCEPTIONS nor RLBOX_CUSTOM_ABORT and runs
operations the property's Contract refuses, one per forked child; TLC (Abort.tla via Trace_Abort)
requires that each such child ends with SIGABRT and each control ends normally."""
import os

import vp


def judge(chk, wd, prop, driver="abort_driver"):
    """driver: abort_driver (default failure configuration) or nocc_driver (RLBOX_NO_COMPILE_CHECKS without
    exceptions: what the default build refuses to compile must end the process)"""
    drv = vp.build(driver, [driver + ".cpp"], [], "-O1")
    tpath = os.path.join(wd, "%s_%s.ndjson" % (driver, prop))
    p = vp.run(["timeout", "120", drv, tpath, prop], timeout=200)
    vp.exit_ok(p, driver)
    events = vp.read_ndjson(tpath)
    if p.returncode == 0 and len(events) < 3:
        raise vp.Broken("%s recorded %d probes for %s" % (driver, len(events), prop))
    r = vp.tlc(os.path.join(vp.SPEC, "Trace_Abort.tla"), os.path.join(vp.SPEC, "Trace_Abort.cfg"),
               name="Trace_Abort_%s_%s" % (driver, prop), workers=1, timeout=300, env={"TRACE": tpath})
    res = r.printed("RESULT")
    if len(res) != 1 or res[0]["n"] != len(events):
        raise vp.Broken("Trace_Abort did not complete: " + r.out[-1500:])
    chk.add_tlc("Trace_Abort (%s)" % prop, r, "%d refused operations / controls in the default failure configuration, one forked "
                "child each" % len(events))
    for b in res[0]["bad"]:
        ev = events[b - 1]
        chk.violation(("[default failure configuration: neither exceptions nor a custom abort handler] " if driver == "abort_driver" else
                       "[RLBOX_NO_COMPILE_CHECKS without exceptions: compile-time rejections end the process] ") + "%s: the child ended with "
                      "'%s' where the Contract of %s says %s" % (ev["what"], ev["outcome"], prop,
                                                                "the operation aborts" if ev["expect"] == "abort" else "it succeeds"), ev)
    chk.cov["default_abort_configuration_probes" if driver == "abort_driver" else "no_compile_checks_probes"] = len(events)
    return len(events)
