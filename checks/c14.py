"""C14 - sandbox lifecycle is a strict state machine; the live-sandbox registry is exact.

Same specification family as C13 (SbxContract / Sbx / Trace_Sbx): here the configurations
exercise create(ok/fail) / destroy / malloc / free / register / unregister / invoke by name /
function address / example-based translation on up to three sandbox objects, including
re-creation against another library (incarnations)."""
import random

import sbxcommon as sx
import vp

LIFE = ["create", "destroy", "malloc", "free", "register", "unregister", "probe", "xlate", "invoke", "fnaddr"]


def random_history(rng, n):
    L = ["reset 3 2 0"]
    sbs, fns, ows = ["s1", "s2", "s3"], ["f1", "f2"], ["o1", "o2"]
    for _ in range(n):
        r = rng.random()
        s, f, o = rng.choice(sbs), rng.choice(fns), rng.choice(ows)
        if r < 0.22:
            L.append("create %s %d %d" % (s, rng.choice([1, 2]), 1 if rng.random() < 0.12 else 0))
        elif r < 0.36:
            L.append("destroy " + s)
        elif r < 0.44:
            L.append("malloc " + s)
        elif r < 0.48:
            L.append("free " + s)
        elif r < 0.60:
            L.append("register %s %s %s" % (s, f, o))
        elif r < 0.66:
            L.append("unregister " + o)
        elif r < 0.72:
            L.append("odestroy " + o)
        elif r < 0.80:
            L.append("probe " + s)
        elif r < 0.88:
            L.append("xlate %s %d" % (s, rng.randint(1, 3)))
        elif r < 0.95:
            L.append("invoke %s n1" % s)
        else:
            L.append("fnaddr %s n1" % s)
    return L


def run(tier):
    chk = vp.Check("C14", tier)
    rng = random.Random(vp.seed())
    wd = vp.workdir("c14")
    thorough = tier == "thorough"
    cfgs = [("E2", ["s1"], ["f1"], ["o1"], 1, [1, 2], 3, sx.ALL_ACTS, "reset 1 1 0"),
            ("E3", ["s1", "s2", "s3"], ["f1"], ["o1"], 1, [1], 1,
             ["create", "destroy", "malloc", "register", "unregister", "xlate"], "reset 3 1 0"),
            ("E4", ["s1", "s2", "s3"], ["f1"], [], 1, [1], 1,
             ["create", "destroy", "malloc", "free", "xlate", "invoke"], "reset 3 1 0")]
    # owners that outlive their incarnation next to owners of the new one (same function)
    cfgs.append(("E5", ["s1"], ["f1", "f2"], ["o1", "o2"], 2, [1], 2,
                 ["create", "destroy", "register", "unregister", "odestroy", "probe"], "reset 1 2 0"))
    if thorough:
        cfgs.append(("E1", ["s1", "s2"], ["f1"], ["o1"], 1, [1, 2], 2, LIFE, "reset 2 1 0"))
    sets = []
    n_edges = 0
    for (name, sb, fn, ow, slots, libs, maxinc, acts, hdr) in cfgs:
        m = sx.model(chk, wd, name, sb, fn, ow, slots, libs, maxinc, acts, emit=True)
        if m is None:
            return chk.finish()
        edges, init = m
        n_edges += len(edges)
        sets.append((hdr, vp.cover_walks(edges, init, maxlen=300)))
    lines, expected = sx.walks_to_lines(sets, observe=True)
    n_model_lines = len(lines)
    for _ in range(300 if thorough else 60):
        h = random_history(rng, 70)
        lines += h
        expected += [None] * len(h)
    drv = vp.build_many([("sbx_vm", ["sbx_driver.cpp"], ["-DBK_VM"]), ("sbx_noop", ["sbx_driver.cpp"], ["-DBK_NOOP"])])
    events, tpath = sx.replay(drv["sbx_vm"], wd, "vm", lines)
    bad = sx.validate(chk, "Trace_Sbx", tpath, events, lines, "vm")
    sx.drift(chk, expected, events)
    # no-op backend: lifecycle/registration part (identity translation hides the registry)
    ncap = sx.capacity(drv["sbx_noop"])
    nlines = [("reset %s %d 0" % (l.split()[1], ncap)) if l.startswith("reset") else l for l in lines]
    nevents, ntpath = sx.replay(drv["sbx_noop"], wd, "noop", nlines)
    bad += sx.validate(chk, "Trace_Sbx", ntpath, nevents, nlines, "noop")
    # dylib backend: the same script; incarnations are created from two different libraries
    ddrv, dlibs = sx.dylib_driver()
    dcap = sx.capacity(ddrv, dlibs)
    nlines = [("reset %s %d 0" % (l.split()[1], dcap)) if l.startswith("reset") else l for l in lines]
    devents, dtpath = sx.replay(ddrv, wd, "dylib", nlines, dlibs)
    bad += sx.validate(chk, "Trace_Sbx", dtpath, devents, nlines, "dylib")
    nevents = nevents + devents
    for b in bad:
        chk.violation("[%s backend] event %d outside the C14 Contract: %s" % (b["backend"], b["index"], b["event"]),
                      {"backend": b["backend"], "walk": b["walk"], "event": b["event"]})
    n_exec = sum(1 for e in events + nevents if e["e"] == "reset")
    # the same refusals in the library's DEFAULT failure configuration (no exceptions, no custom handler): the process ends
    import abortcommon
    abortcommon.judge(chk, wd, "C14")
    chk.count(evaluations=len(events) + len(nevents), distinct=n_edges, traces=n_exec)
    for ev in events[3:6] + [e for e in events if e["e"] == "xlate"][:2]:
        chk.sample(ev)
    chk.cov["model_edges_replayed"] = n_edges
    chk.cov["exhaustive"] = True
    chk.cov["exhaustive_scope"] = "every edge of the bounded Sbx models %s replayed (vm backend with finder-based " \
                                  "example translation; no-op backend for the lifecycle part); random histories on 3 " \
                                  "sandbox objects beyond" % [c[0] for c in cfgs]
    chk.assumptions += ["example-based lookup is observed through get_unsandboxed_pointer_no_ctx with an address of "
                        "every region the object ever had (destroyed regions stay reserved, so addresses are unique)",
                        "calls into a sandbox that is not created (invoke, probe) are undefined and never made",
                        "a second create_sandbox after a failed one may succeed or abort (only a necessary condition "
                        "is stated by the property)"]
    return chk.finish(rule="one evaluation = one recorded API call validated by TLC against SbxContract; "
                           "distinct_nontrivial = distinct Model edges replayed")
