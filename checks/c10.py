"""C10 - bulk memory operations never straddle or leave the sandbox."""
import os

import addrcommon as ac
import vp


def run(tier):
    chk = vp.Check("C10", tier)
    wd = vp.workdir("c10")
    thorough = tier == "thorough"
    drv = vp.build("bulk_driver", ["bulk_driver.cpp"], ["-DVM_EXACT_SAME_SANDBOX"])
    tpath = os.path.join(wd, "bulk.ndjson")
    p = vp.run([drv, tpath, str(vp.seed()), "1" if thorough else "0"], timeout=1100)
    vp.exit_ok(p, "bulk_driver", crash_codes=(11,))
    # the grant / deny operations again on a backend that offers that interface (and accepts in a second pass)
    gdrv = vp.build("bulk_driver_gd", ["bulk_driver.cpp"], ["-DVM_EXACT_SAME_SANDBOX", "-DVM_GRANT_DENY"])
    gpath = os.path.join(wd, "bulk_gd.ndjson")
    p = vp.run([gdrv, gpath, str(vp.seed()), "1" if thorough else "0"], timeout=1100)
    vp.exit_ok(p, "bulk_driver_gd", crash_codes=(11,))
    allev = vp.read_ndjson(tpath) + vp.read_ndjson(gpath)
    vp.write_ndjson(tpath, allev)
    events, bad = ac.validate(chk, tpath, "c10")
    combos = set()
    for e in events:
        combos.add((e["op"], e["variant"], e["out"], e["ranges"][0]["start"]))
    for b, ev in bad:
        chk.violation("bulk operation outside the C10 Contract: %s" % ac.pretty_bulk(ev), ac.pretty_bulk(ev))
    for ev in events[3:5]:
        chk.sample(ac.pretty_bulk(ev))
    # the extent itself is read from sandbox memory and rewritten after every read
    import fetchcommon as fc
    nf, cf = fc.judge(chk, wd, "c10", "C10", ("wasm32", "lp16"))
    # the same refusals in the library's DEFAULT failure configuration (no exceptions, no custom handler): the process ends
    import abortcommon
    abortcommon.judge(chk, wd, "C10")
    chk.count(evaluations=len(events) + nf, distinct=len(combos) + len(cf), traces=1)
    chk.cov["exhaustive"] = thorough
    chk.cov["scope"] = "9 operations x 7 start classes (null, first/last bytes, interior) x extents 0..region+2 (every 61st; all in " \
                       "the thorough tier) and 2^31, 2^32, 2^63 (+-1), 2^64-k x plain/tainted size operands x element sizes " \
                       "1,2,4,8; raw sources straddling the region's start and end or inside another sandbox; strings ending " \
                       "inside, at the last byte and unterminated; red zones around application buffers, guard pages around " \
                       "the region"
    chk.assumptions += ["the backend variant used here answers is_in_same_sandbox exactly (three-argument form); mask-based "
                        "plugins may refuse application ranges that cross an aligned block, which is the plugin's choice",
                        "copy_and_verify_buffer_address is given a byte count on char-sized pointees",
                        "unverified_safe_pointer_because: the elements counted are elements of the raw pointer type handed "
                        "back (host size); must succeed once count elements of the larger of host/guest size fit"]
    return chk.finish(rule="one evaluation = one bulk operation (outcome, changed-byte interval of the whole region, red zones, "
                           "effect) judged by TLC (RangeOpAllowed); distinct_nontrivial = distinct (operation, variant, outcome, "
                           "start) combinations")
