"""C04 - pointer representation conversion is faithful, null-preserving and per-sandbox.

 (a) spec/Mem.tla PtrLoadAllowed / PtrStoreAllowed on harness/mem_driver.cpp "ptr" mode: every
     offset of the 4 KiB region stored through every pointer-carrying position and read back,
     2^16 (2^20) + boundary + random guest representations read through every position, with
     three live sandboxes, under both translation paths (mask / finder) and three foreign ABIs
     (wasm32, lp16, and lp64u whose pointers are as wide as the host's but are offsets).
 (b) spec/Sbx.tla with the PtrRT action: every create/destroy order of up to three sandboxes
     (TLC), pointer round trips in every live sandbox of every registry state, replayed on the
     finder-based vm backend; TLC validates (Trace_Sbx)."""
import memcommon as mc
import sbxcommon as sx
import vp


def run(tier, prop="C04"):
    chk = vp.Check(prop, tier)
    wd = vp.workdir(prop.lower())
    thorough = tier == "thorough"
    drv = mc.drivers()
    total, combos = 0, set()
    tags = ("mask", "finder", "lp16", "lp16_finder", "lp64u") if thorough else ("mask", "finder", "lp16", "lp64u")
    from concurrent.futures import ThreadPoolExecutor

    def one(tag):
        tpath = mc.record(drv["mem_" + tag], wd, "ptr", tag, thorough)
        return tag, mc.validate(chk, tpath, "ptr/" + tag)
    with ThreadPoolExecutor(max_workers=5) as ex:
        results = list(ex.map(one, tags))
    for tag, (events, bad) in results:
        total += len(events)
        for e in events:
            if e["e"] in ("ptrload", "ptrloadrun", "ptrstore"):
                combos.add((tag, e["e"], e["pos"], e["cls"]))
        for b, ev in bad:
            chk.violation("[%s] pointer position outside the %s Contract: %s" % (tag, prop, mc.pretty(ev)), mc.pretty(ev))
        if len(events) > 5:
            chk.sample(mc.pretty(events[5]))
    # (b) registry histories
    m = sx.model(chk, wd, "R3", ["s1", "s2", "s3"], ["f1"], [], 1, [1], 2 if thorough else 1,
                 ["create", "destroy", "ptrrt", "xlate"], emit=True)
    if m is None:
        return chk.finish()
    edges, init = m
    lines, expected = sx.walks_to_lines([("reset 3 1 0", vp.cover_walks(edges, init, maxlen=300))])
    sdrv = vp.build("sbx_vm", ["sbx_driver.cpp"], ["-DBK_VM"])
    events, tpath = sx.replay(sdrv, wd, "vm", lines)
    for b in sx.validate(chk, "Trace_Sbx", tpath, events, lines, "registry-vm"):
        chk.violation("[registry history, finder backend] event %d outside the %s Contract: %s" % (b["index"], prop, b["event"]),
                      {"walk": b["walk"], "event": b["event"]})
    sx.drift(chk, expected, events)
    total += len(events)
    chk.count(evaluations=total, distinct=len(combos) + len(edges), traces=len(tags) + sum(1 for e in events if e["e"] == "reset"))
    chk.cov["exhaustive"] = True
    chk.cov["exhaustive_scope"] = "every offset 0..4095 and null stored through cell / array element / struct field / whole-" \
                                  "struct copy; every representation below 2^16 (2^20 thorough) plus boundary and random " \
                                  "32-bit (16-bit) representations read through 12 positions; every create/destroy order of " \
                                  "3 sandboxes with round trips in every live sandbox"
    chk.assumptions += ["representations >= region size are reduced modulo the region size by the backend (C03 requires only "
                        "that the result stays inside the own sandbox; faithfulness is required for valid representations)"]
    return chk.finish(rule="one evaluation = one pointer store/load through a pointer-carrying position (or one registry-"
                           "history step) judged by TLC; distinct_nontrivial = distinct (variant, kind, position, class) + "
                           "model edges")
