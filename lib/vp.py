"""Shared machinery for the /verif checks: building harness binaries against /repo's
working tree, running TLC under timeouts, walking TLC-emitted edge graphs, evidence
files, known findings and the VIOLATION protocol.

Verdict classes (DESIGN.md section 5):
  conforming / DRIFT (exit 0) / KNOWN-FINDING (exit 0) / VIOLATION (exit 1) / broken (exit 2)
"""
import hashlib
import json
import os
import re
import shutil
import subprocess
import sys
import time

VERIF = os.path.dirname(os.path.dirname(os.path.abspath(__file__)))
REPO = os.environ.get("VERIF_REPO", "/repo")
INC = os.path.join(REPO, "code", "include")
# self-tests run the checks against scratch trees (VERIF_REPO) concurrently with normal use: they
# get their own scratch and evidence directories so that nothing registered is overwritten
WORK = os.path.join(VERIF, ".work" + os.environ.get("VERIF_WORK_SUFFIX", ""))
CACHE = os.path.join(VERIF, ".cache")
SPEC = os.path.join(VERIF, "spec")
HARNESS = os.path.join(VERIF, "harness")
EVID = os.environ.get("VERIF_EVIDENCE_DIR", os.path.join(VERIF, "evidence"))
GUARD = "ALLENABY_RLBOX_VERIF"
NCPU = min(16, os.cpu_count() or 4)
TLA_JAR = "/opt/veriftools/tla/tla2tools.jar:/opt/veriftools/tla/CommunityModules-deps.jar"


class Broken(Exception):
    """Machinery failure (exit 2): never reported as a violation."""


def log(*a):
    print(*a, file=sys.stderr, flush=True)


def seed():
    try:
        return int(os.environ.get("VERIF_SEED", "1"))
    except ValueError:
        return 1


RUN_TAG = ""          # "<property>.<tier>" (set by bin/check): scratch of concurrent runs never overlaps
_run_lock = None


def begin_run(tag):
    """Scratch space of this run is .work/<tag>/...; a second concurrent run with the same tag waits."""
    global RUN_TAG, _run_lock
    import fcntl
    RUN_TAG = tag
    os.makedirs(WORK, exist_ok=True)
    _run_lock = open(os.path.join(WORK, tag + ".lock"), "w")
    fcntl.flock(_run_lock, fcntl.LOCK_EX)


def workdir(name):
    d = os.path.join(WORK, RUN_TAG, name) if RUN_TAG else os.path.join(WORK, name)
    shutil.rmtree(d, ignore_errors=True)
    os.makedirs(d, exist_ok=True)
    return d


def _hash_files(paths, extra=""):
    h = hashlib.sha256()
    h.update(extra.encode())
    for p in sorted(paths):
        h.update(p.encode())
        try:
            with open(p, "rb") as f:
                h.update(f.read())
        except OSError:
            h.update(b"<missing>")
    return h.hexdigest()[:20]


def include_files():
    out = []
    for root, _, files in os.walk(INC):
        for f in files:
            out.append(os.path.join(root, f))
    return out


def harness_headers():
    return [os.path.join(HARNESS, f) for f in os.listdir(HARNESS) if f.endswith((".hpp", ".h"))]


CXX = os.environ.get("CXX", "g++")
BASE_FLAGS = ["-std=c++17", "-D" + GUARD, "-DRLBOX_SINGLE_THREADED_INVOCATIONS",
              "-I" + INC, "-I" + HARNESS, "-pthread", "-w"]


def build(name, sources, flags=(), opt="-O1", libs=(), timeout=900):
    """Compile sources (paths) into a cached binary. The cache key covers every header in
    /repo/code/include, every harness header, the sources and the flags, so a check
    rebuilds from /repo's current working tree exactly when something changed."""
    sources = [s if os.path.isabs(s) else os.path.join(HARNESS, s) for s in sources]
    key = _hash_files(include_files() + harness_headers() + sources,
                      extra=" ".join(list(flags) + [opt] + list(libs)) + REPO)
    d = os.path.join(CACHE, "bin" + os.environ.get("VERIF_WORK_SUFFIX", ""))
    os.makedirs(d, exist_ok=True)
    out = os.path.join(d, "%s-%s" % (name, key))
    if os.path.exists(out):
        return out
    # drop stale binaries of the same name (never another run's temporary output)
    for f in os.listdir(d):
        # (never another run's temporary output, nor a binary a concurrent run may be about to start)
        if f.startswith(name + "-") and ".tmp." not in f and time.time() - os.path.getmtime(os.path.join(d, f)) > 7200:
            try:
                os.remove(os.path.join(d, f))
            except OSError:
                pass
    import threading
    tmp = "%s.tmp.%d.%d" % (out, os.getpid(), threading.get_ident())
    cmd = [CXX] + BASE_FLAGS + [opt] + list(flags) + sources + ["-o", tmp] + list(libs)
    t0 = time.time()
    try:
        p = subprocess.run(cmd, capture_output=True, text=True, timeout=timeout)
    except subprocess.TimeoutExpired:
        raise Broken("harness build timed out for %s" % name)
    if p.returncode != 0:
        raise Broken("harness build failed for %s:\n%s" % (name, p.stderr[-4000:]))
    os.replace(tmp, out)      # atomic: concurrent runs building the same key replace it with identical content
    log("[build] %s %.1fs" % (name, time.time() - t0))
    return out


def build_many(jobs):
    """jobs: list of (name, sources, flags, opt). Builds in parallel; returns {name: path}."""
    from concurrent.futures import ThreadPoolExecutor
    res = {}
    with ThreadPoolExecutor(max_workers=NCPU) as ex:
        futs = {j[0]: ex.submit(build, *j) for j in jobs}
        for n, f in futs.items():
            res[n] = f.result()
    return res


# executors that died on a signal while driving the real headers (an observation, not a machinery
# failure): turned into violations by Check.finish()
DEATHS = []


def exit_ok(p, name, crash_codes=()):
    """0 -> True; killed by a signal -> recorded as a death (what the executor logged before is still
    judged), False; any other exit code -> broken machinery. crash_codes: exit codes by which this
    executor's own fault handler reports a signal (mem / bulk drivers: 11 for a SIGSEGV outside a guarded step)."""
    if p.returncode == 0:
        return True
    if p.returncode in crash_codes:
        DEATHS.append({"executor": name, "signal": p.returncode, "stderr": (p.stderr or "")[-300:].strip()})
        log("[death] %s reported signal %d" % (name, p.returncode))
        return False
    if p.returncode < 0:
        DEATHS.append({"executor": name, "signal": -p.returncode, "stderr": (p.stderr or "")[-300:].strip()})
        log("[death] %s died on signal %d" % (name, -p.returncode))
        return False
    raise Broken("%s rc=%d %s" % (name, p.returncode, (p.stderr or "")[-300:]))


def _cpu_seconds(pid):
    """user + system CPU time of a live process (0 if it cannot be read)"""
    try:
        f = open("/proc/%d/stat" % pid).read().rsplit(")", 1)[1].split()
        return (int(f[11]) + int(f[12])) / float(os.sysconf("SC_CLK_TCK"))
    except Exception:
        return 0.0


def run(cmd, timeout=600, env=None, cwd=None, input=None):
    e = dict(os.environ)
    if env:
        e.update(env)
    proc = subprocess.Popen(cmd, stdin=subprocess.PIPE if input is not None else None, stdout=subprocess.PIPE,
                            stderr=subprocess.PIPE, text=True, env=e, cwd=cwd)
    try:
        out, err = proc.communicate(input, timeout=timeout)
    except subprocess.TimeoutExpired:
        cpu = _cpu_seconds(proc.pid)
        proc.kill()
        proc.communicate()
        # An executor of the harness (a binary from the build cache) that was BUSY for most of its time limit
        # did not terminate: on the unchanged tree each of them finishes in a fraction of its limit, so this is
        # an observation about the code under test (recorded like a death). A process that was merely starved
        # of CPU, and every tool that is not an executor (TLC, the compiler), stays broken machinery.
        if cpu >= 0.6 * timeout and os.path.dirname(os.path.abspath(cmd[0])).startswith(CACHE):
            DEATHS.append({"executor": os.path.basename(cmd[0]).split("-")[0], "signal": 0,
                           "stderr": "did not terminate: busy for %.0f s of CPU within its limit of %s s" % (cpu, timeout)})
            log("[hang] %s busy for %.0fs" % (os.path.basename(cmd[0]), cpu))
        raise Broken("timeout after %ss: %s" % (timeout, " ".join(cmd)[:200]))
    return subprocess.CompletedProcess(cmd, proc.returncode, out, err)


# ----------------------------------------------------------------------------- TLC

class TLCResult:
    def __init__(self, out, rc):
        self.out = out
        self.rc = rc
        m = re.search(r"(\d+) states generated, (\d+) distinct states found", out)
        self.generated = int(m.group(1)) if m else 0
        self.distinct = int(m.group(2)) if m else 0
        self.violated = None
        m = re.search(r"Error: Invariant (\S+) is violated", out)
        if m:
            self.violated = m.group(1)
        m = re.search(r"Error: Action property (\S+) is violated", out)
        if m:
            self.violated = m.group(1)
        m = re.search(r"Error: Temporal properties were violated", out)
        if m:
            self.violated = "temporal"
        self.ok = (rc == 0 and "Model checking completed. No error has been found" in out) or \
                  (rc == 0 and "Finished in" in out and "Error:" not in out)

    def printed(self, tag):
        """Values printed with PrintT(<<"TAG", ToJson(x)>>) -> list of parsed JSON."""
        res = []
        pat = re.compile(r'^<<"%s", "(.*)">>$' % re.escape(tag))
        for line in self.out.splitlines():
            m = pat.match(line.strip())
            if m:
                s = m.group(1).encode().decode("unicode_escape") if "\\" in m.group(1) else m.group(1)
                try:
                    res.append(json.loads(s))
                except json.JSONDecodeError:
                    raise Broken("unparseable TLC print: " + line[:300])
        return res

    def coverage(self):
        """-coverage 1 output: {action: (taken, generated)}"""
        cov = {}
        for m in re.finditer(r"<(\w+) line \d+, col \d+ to line \d+, col \d+ of module (\w+)>: (\d+):(\d+)",
                             self.out):
            cov[m.group(1)] = (int(m.group(3)), int(m.group(4)))
        return cov


def tlc(spec, cfg, name=None, workers=4, timeout=600, env=None, simulate=None, depth=None,
        coverage=False, xmx="4g", deadlock=False, extra=()):
    """Run TLC on spec (module file in spec/) with cfg. Every run has its own metadir under
    .work and runs under timeout. Exit codes: 0 ok, 12/13 safety/liveness violation."""
    name = name or os.path.splitext(os.path.basename(cfg))[0]
    md = workdir("tlc-" + name)
    cmd = ["timeout", str(timeout), "java", "-XX:+UseParallelGC", "-Xmx" + xmx, "-cp", TLA_JAR, "tlc2.TLC",
           "-workers", str(workers), "-metadir", md, "-noGenerateSpecTE", "-config", cfg]
    if not deadlock:
        cmd += ["-deadlock"]
    if simulate:
        cmd += ["-simulate", "num=%d" % simulate]
        if depth:
            cmd += ["-depth", str(depth)]
    if coverage:
        cmd += ["-coverage", "1"]
    cmd += list(extra) + [spec]
    t0 = time.time()
    p = run(cmd, timeout=timeout + 30, env=env, cwd=SPEC)
    shutil.rmtree(md, ignore_errors=True)
    if p.returncode == 124:
        raise Broken("TLC timeout (%ss) on %s" % (timeout, name))
    out = p.stdout + p.stderr
    r = TLCResult(out, p.returncode)
    r.wall = time.time() - t0
    if p.returncode not in (0, 12, 13):
        # parse / semantic / evaluation errors are machinery failures
        raise Broken("TLC failed rc=%d on %s:\n%s" % (p.returncode, name, out[-3000:]))
    return r


# ----------------------------------------------------------------------------- edge graphs

def cover_walks(edges, init, key=lambda s: json.dumps(s, sort_keys=True), maxlen=400):
    """edges: list of dicts with src, dst (abstract view states), act, args[, expect].
    Returns a list of walks (lists of edge dicts), each starting at init, that together
    traverse every edge at least once (greedy Chinese-postman style: follow an unvisited
    out-edge while one exists, otherwise BFS to the nearest state that has one)."""
    from collections import defaultdict, deque
    # intern the state keys once (serialising a state on every BFS step dominates otherwise)
    ids = {}

    def sid(st):
        k = key(st)
        v = ids.get(k)
        if v is None:
            v = ids[k] = len(ids)
        return v
    srck = [sid(e["src"]) for e in edges]
    dstk = [sid(e["dst"]) for e in edges]
    out = defaultdict(list)
    for i in range(len(edges)):
        out[srck[i]].append(i)
    unvisited = set(range(len(edges)))
    un_out = {k: set(v) for k, v in out.items()}
    walks = []
    k0 = sid(init)

    def bfs(start):
        # shortest path (list of edge idx) from start to a state with an unvisited out-edge
        seen = {start: None}
        dq = deque([start])
        while dq:
            s = dq.popleft()
            if un_out.get(s):
                path = []
                while seen[s] is not None:
                    ps, ei = seen[s]
                    path.append(ei)
                    s = ps
                return list(reversed(path))
            for ei in out.get(s, ()):
                d = dstk[ei]
                if d not in seen:
                    seen[d] = (s, ei)
                    dq.append(d)
        return None

    while unvisited:
        cur = k0
        walk = []
        while len(walk) < maxlen:
            cand = un_out.get(cur)
            if cand:
                ei = min(cand)
            else:
                path = bfs(cur)
                if path is None:
                    break
                if len(walk) + len(path) >= maxlen and walk:
                    break
                for pi in path:
                    walk.append(edges[pi])
                    cur = dstk[pi]
                continue
            cand.discard(ei)
            unvisited.discard(ei)
            walk.append(edges[ei])
            cur = dstk[ei]
        if not walk:
            # unreachable leftovers (should not happen: every emitted edge is reachable)
            raise Broken("edge cover: %d edges unreachable from init" % len(unvisited))
        walks.append(walk)
    return walks


# ----------------------------------------------------------------------------- findings / verdicts

def load_findings(prop):
    p = os.path.join(VERIF, "known_findings.json")
    with open(p) as f:
        data = json.load(f)
    return [e for e in data.get("findings", []) if e.get("property") == prop]


class Check:
    """Collects the outcome of one check run and writes evidence/<id>.json."""

    def __init__(self, prop, tier, level="model_checking"):
        self.prop = prop
        self.tier = tier if tier in ("quick", "thorough") else "quick"
        self.level = level
        self.t0 = time.time()
        self.cov = {"states": 0, "transitions": 0, "traces_validated_against_impl": 0, "samples": [],
                    "evaluations": 0, "distinct_nontrivial": 0, "drift": 0, "drift_samples": [],
                    "tlc_runs": [], "exhaustive": False}
        self.assumptions = []
        self.violations = []
        self.known_hits = {}
        self.findings = load_findings(prop)
        self.open = {e["id"]: e for e in self.findings if e.get("status") == "open"}

    # -- accounting
    def add_tlc(self, name, r, note=""):
        self.cov["states"] += r.distinct
        self.cov["transitions"] += r.generated
        self.cov["tlc_runs"].append({"name": name, "distinct": r.distinct, "generated": r.generated,
                                     "wall_s": round(getattr(r, "wall", 0), 2), "note": note})

    def sample(self, s, cap=6):
        if len(self.cov["samples"]) < cap:
            self.cov["samples"].append(s)

    def drift(self, what):
        self.cov["drift"] += 1
        if len(self.cov["drift_samples"]) < 10:
            self.cov["drift_samples"].append(what)

    def count(self, evaluations=0, distinct=0, traces=0):
        self.cov["evaluations"] += evaluations
        self.cov["distinct_nontrivial"] += distinct
        self.cov["traces_validated_against_impl"] += traces

    # -- verdicts
    def known(self, fid, detail=None):
        self.known_hits.setdefault(fid, 0)
        self.known_hits[fid] += 1

    def violation(self, what, replay):
        """what: short text; replay: JSON-serialisable object that re-creates the case."""
        self.violations.append((what, replay))

    def finish(self, rule="", explanation=""):
        os.makedirs(os.path.join(EVID, "replay"), exist_ok=True)
        for fid, e in self.open.items():
            n = self.known_hits.get(fid, 0)
            print("KNOWN-FINDING: property=%s %s [%s; observed %d time(s) in this run]" %
                  (self.prop, e["what"], fid, n))
        for d in DEATHS:
            if d["signal"] == 0:
                self.violation("executor %s %s (never on the unchanged tree)" % (d["executor"], d["stderr"]), d)
                continue
            self.violation("executor %s died on signal %d while driving the real headers (never on the unchanged tree): %s" %
                           (d["executor"], d["signal"], d["stderr"].replace("\n", " ")[-200:]), d)
        del DEATHS[:]
        paths = []
        for i, (what, replay) in enumerate(self.violations[:20]):
            path = os.path.join(EVID, "replay", "%s-%d.json" % (self.prop, i))
            with open(path, "w") as f:
                json.dump({"property": self.prop, "what": what, "replay": replay}, f, indent=1)
            paths.append(path)
            print("VIOLATION property=%s replay=%s" % (self.prop, path))
            log("  -> " + what[:500])
        cov = dict(self.cov)
        cov["rule"] = rule
        if explanation:
            cov["explanation"] = explanation
        cov["known_findings_observed"] = self.known_hits
        ev = {"property_id": self.prop, "tier": self.tier, "seed": seed(), "level": self.level,
              "coverage": cov, "assumptions": self.assumptions,
              "wall_s": round(time.time() - self.t0, 2), "violations": len(self.violations)}
        with open(os.path.join(EVID, self.prop + ".json"), "w") as f:
            json.dump(ev, f, indent=1, default=str)
        log("[%s] %s: states=%d transitions=%d traces=%d evals=%d drift=%d violations=%d wall=%.1fs" % (
            self.prop, self.tier, cov["states"], cov["transitions"], cov["traces_validated_against_impl"],
            cov["evaluations"], cov["drift"], len(self.violations), ev["wall_s"]))
        return 1 if self.violations else 0


def write_ndjson(path, events):
    with open(path, "w") as f:
        for e in events:
            f.write(json.dumps(e, separators=(",", ":")) + "\n")


def read_ndjson(path):
    """Reads an ndjson trace. A truncated last line (the executor died mid-write) is dropped
    and the file rewritten without it, so that TLC reads exactly the events returned here."""
    out = []
    lines = []
    with open(path) as f:
        raw = [l.strip() for l in f if l.strip()]
    for i, line in enumerate(raw):
        try:
            out.append(json.loads(line))
            lines.append(line)
        except json.JSONDecodeError:
            if i == len(raw) - 1:
                break
            raise Broken("malformed trace line %d in %s" % (i + 1, path))
    if len(lines) != len(raw):
        with open(path, "w") as f:
            f.write("\n".join(lines) + "\n")
    return out
