"""Generates the C08 struct family: C declarations, RLBox reflection macros and a driver per
struct from the covering walks of the layout state machine (spec/Layout.tla edges).
The driver only records (offsets, sandbox images, field values); all judging is TLC's."""

# kind -> (C declarator template with {n} = field name, descriptor for the Contract, slots)
# descriptor: prim(gs, ga, sg, cls) | arr(el, n) | struct(fields)


def prim(gs, ga, sg, cls):
    return {"k": "prim", "gs": gs, "ga": ga, "sg": sg, "cls": cls}


INNER_FIELDS = [("a", "char"), ("b", "long")]

ABIS = {"wasm32": {"int": 4, "long": 4, "ptr": 4},
        "lp64u": {"int": 4, "long": 8, "ptr": 8},
        "lp16": {"int": 2, "long": 4, "ptr": 2}}


def kinds_for(abi="wasm32"):
    """kind -> (declarator, descriptor under the guest ABI, C type): the harness' own statement of
    the guest size / alignment of every field kind (cross-checked against spec/MC_Layout*.tla)."""
    a = ABIS[abi]
    i_, l_, p_ = a["int"], a["long"], a["ptr"]
    return {
        "char": ("char {n}", prim(1, 1, True, "i"), "char"),
        "uchar": ("unsigned char {n}", prim(1, 1, False, "i"), "unsigned char"),
        "bool": ("bool {n}", prim(1, 1, False, "b"), "bool"),
        "short": ("short {n}", prim(2, 2, True, "i"), "short"),
        "ushort": ("unsigned short {n}", prim(2, 2, False, "i"), "unsigned short"),
        "int": ("int {n}", prim(i_, i_, True, "i"), "int"),
        "uint": ("unsigned {n}", prim(i_, i_, False, "i"), "unsigned"),
        "long": ("long {n}", prim(l_, l_, True, "i"), "long"),
        "ulong": ("unsigned long {n}", prim(l_, l_, False, "i"), "unsigned long"),
        "llong": ("long long {n}", prim(8, 8, True, "i"), "long long"),
        "float": ("float {n}", prim(4, 4, False, "f"), "float"),
        "double": ("double {n}", prim(8, 8, False, "f"), "double"),
        "enum": ("genEnum {n}", prim(4, 4, False, "i"), "genEnum"),
        "ptr": ("int* {n}", prim(p_, p_, False, "p"), "int*"),
        "fnptr": ("GenFn {n}", prim(p_, p_, False, "c"), "GenFn"),
        "carr3": ("char {n}[3]", {"k": "arr", "el": prim(1, 1, True, "i"), "n": 3}, "char[3]"),
        "iarr2": ("int {n}[2]", {"k": "arr", "el": prim(i_, i_, True, "i"), "n": 2}, "int[2]"),
        "larr2": ("long {n}[2]", {"k": "arr", "el": prim(l_, l_, True, "i"), "n": 2}, "long[2]"),
        "parr2": ("int* {n}[2]", {"k": "arr", "el": prim(p_, p_, False, "p"), "n": 2}, "int*[2]"),
        # multi-dimensional arrays: element width kept (char, int on wasm32/lp64u) or changed (long, int on lp16)
        "carr2x2": ("char {n}[2][2]", {"k": "arr", "el": {"k": "arr", "el": prim(1, 1, True, "i"), "n": 2}, "n": 2}, "char[2][2]"),
        "iarr2x2": ("int {n}[2][2]", {"k": "arr", "el": {"k": "arr", "el": prim(i_, i_, True, "i"), "n": 2}, "n": 2}, "int[2][2]"),
        "larr2x2": ("long {n}[2][2]", {"k": "arr", "el": {"k": "arr", "el": prim(l_, l_, True, "i"), "n": 2}, "n": 2}, "long[2][2]"),
        "inner": ("GenInner {n}", {"k": "struct", "fs": [prim(1, 1, True, "i"), prim(l_, l_, True, "i")]}, "GenInner"),
        # a nested struct that holds pointers (object and function): their translation inside a whole-struct
        # copy goes through the nested converter
        "innerp": ("GenInnerP {n}", {"k": "struct", "fs": [prim(p_, p_, False, "p"), prim(2, 2, True, "i"), prim(p_, p_, False, "c")]}, "GenInnerP"),
    }


KINDS = kinds_for("wasm32")


def size_align(desc):
    """(size, alignment) of a descriptor under the usual C layout rule (for the cross-check only)"""
    if desc["k"] == "prim":
        return desc["gs"], desc["ga"]
    if desc["k"] == "arr":
        s, a = size_align(desc["el"])
        return s * desc["n"], a
    off, ma = 0, 1
    for f in desc["fs"]:
        s, a = size_align(f)
        off = (off + a - 1) // a * a + s
        ma = max(ma, a)
    return (off + ma - 1) // ma * ma, ma

# primitive C type of each slot class, for value materialisation
SLOT_CTYPE = {"char": "char", "uchar": "unsigned char", "bool": "bool", "short": "short", "ushort": "unsigned short",
              "int": "int", "uint": "unsigned", "long": "long", "ulong": "unsigned long", "llong": "long long",
              "float": "float", "double": "double", "enum": "genEnum", "ptr": "int*", "fnptr": "GenFn"}


def slots_of(kind, fname):
    """[(access expression suffix on the struct, slot kind name)] in declaration order"""
    if kind == "carr3":
        return [("%s[%d]" % (fname, i), "char") for i in range(3)]
    if kind == "iarr2":
        return [("%s[%d]" % (fname, i), "int") for i in range(2)]
    if kind == "larr2":
        return [("%s[%d]" % (fname, i), "long") for i in range(2)]
    if kind == "parr2":
        return [("%s[%d]" % (fname, i), "ptr") for i in range(2)]
    if kind in ("carr2x2", "iarr2x2", "larr2x2"):
        sk = {"carr2x2": "char", "iarr2x2": "int", "larr2x2": "long"}[kind]
        return [("%s[%d][%d]" % (fname, i, j), sk) for i in range(2) for j in range(2)]
    if kind == "inner":
        return [("%s.a" % fname, "char"), ("%s.b" % fname, "long")]
    if kind == "innerp":
        return [("%s.p" % fname, "ptr"), ("%s.s" % fname, "short"), ("%s.fn" % fname, "fnptr")]
    return [(fname, kind)]


def gen(structs, abi="wasm32"):
    KINDS = kinds_for(abi)
    """structs: list of lists of kind names. Returns C++ source text (included by c08_driver.cpp)."""
    import json
    o = []
    o.append("// GENERATED by gen/struct_family.py - do not edit")
    o.append("enum genEnum { GE0, GE1, GE2 = 70000 };")
    o.append("using GenFn = int (*)(int);")
    o.append("struct GenInner { char a; long b; };")
    o.append("struct GenInnerP { int* p; short s; GenFn fn; };")
    for si, kinds in enumerate(structs):
        o.append("struct GS%d {" % si)
        for fi, k in enumerate(kinds):
            o.append("  " + KINDS[k][0].format(n="f%d" % fi) + ";")
        o.append("};")
    # reflection macros
    o.append("#define sandbox_fields_reflection_gen_class_GenInner(f, g, ...) \\")
    o.append("  f(char, a, FIELD_NORMAL, ##__VA_ARGS__) g() f(long, b, FIELD_NORMAL, ##__VA_ARGS__) g()")
    o.append("#define sandbox_fields_reflection_gen_class_GenInnerP(f, g, ...) \\")
    o.append("  f(int*, p, FIELD_NORMAL, ##__VA_ARGS__) g() f(short, s, FIELD_NORMAL, ##__VA_ARGS__) g() f(GenFn, fn, FIELD_NORMAL, ##__VA_ARGS__) g()")
    for si, kinds in enumerate(structs):
        o.append("#define sandbox_fields_reflection_gen_class_GS%d(f, g, ...) \\" % si)
        parts = []
        for fi, k in enumerate(kinds):
            parts.append("f(%s, f%d, FIELD_NORMAL, ##__VA_ARGS__) g()" % (KINDS[k][2], fi))
        o.append("  " + " ".join(parts))
    o.append("#define sandbox_fields_reflection_gen_allClasses(f, ...) \\")
    o.append("  f(GenInner, gen, ##__VA_ARGS__) f(GenInnerP, gen, ##__VA_ARGS__) " + " ".join("f(GS%d, gen, ##__VA_ARGS__)" % si for si in range(len(structs))))
    o.append("rlbox_load_structs_from_library(gen);")
    # per-struct drivers
    for si, kinds in enumerate(structs):
        desc = json.dumps([KINDS[k][1] for k in kinds], separators=(",", ":")).replace("true", "true")
        slots = []
        for fi, k in enumerate(kinds):
            slots += slots_of(k, "f%d" % fi)
        o.append("template<> struct GenInfo<GS%d> {" % si)
        o.append("  static constexpr const char* name = \"GS%d\";" % si)
        o.append("  static constexpr const char* fields = R\"J(%s)J\";" % desc)
        o.append("  static constexpr int nslots = %d;" % len(slots))
        o.append("  static constexpr int nfields = %d;" % len(kinds))
        # offsets of top-level fields through tainted pointers
        o.append("  static void offsets(tainted<GS%d*, Sbx> p, long* out) {" % si)
        for fi in range(len(kinds)):
            o.append("    out[%d] = (long)(reinterpret_cast<uintptr_t>(std::addressof(p->f%d)) - reinterpret_cast<uintptr_t>(p.UNSAFE_unverified()));" % (fi, fi))
        o.append("  }")
        # set slots of a tainted struct
        o.append("  static void set(tainted<GS%d, Sbx>& s, const W* v) {" % si)
        for j, (acc, sk) in enumerate(slots):
            o.append("    set_slot<%s>(s.%s, v[%d]);" % (SLOT_CTYPE[sk], acc, j))
        o.append("  }")
        o.append("  template<typename TS> static void get(TS& s, W* v) {")
        for j, (acc, sk) in enumerate(slots):
            o.append("    v[%d] = get_slot<%s>(s.%s);" % (j, SLOT_CTYPE[sk], acc))
        o.append("  }")
        o.append("  static void get_raw(const GS%d& s, W* v) {" % si)
        for j, (acc, sk) in enumerate(slots):
            o.append("    v[%d] = raw_slot<%s>(s.%s);" % (j, SLOT_CTYPE[sk], acc))
        o.append("  }")
        o.append("  static constexpr const char* slotkinds[%d] = {%s};" % (len(slots), ", ".join('"%s"' % sk for _, sk in slots)))
        o.append("};")
    o.append("static void run_all(std::mt19937_64& rng) {")
    for si in range(len(structs)):
        o.append("  run_struct<GS%d>(rng);" % si)
    o.append("}")
    o.append("static void register_all() {")
    for si in range(len(structs)):
        o.append("  register_echo<GS%d>(\"echo_GS%d\");" % (si, si))
    o.append("}")
    return "\n".join(o) + "\n"


def family_from_walks(walks, limit=None):
    """one struct per covering walk (walks are produced with maxlen = max fields per struct)"""
    structs = [[e["ev"]["kind"] for e in w] for w in walks]
    return structs[:limit] if limit else structs
