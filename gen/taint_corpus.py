"""Renders the program space enumerated by TLC from spec/Taint.tla (PROGRAM records) as C++
function bodies against harness/taint_prelude.hpp, compiles them in batches with g++
-fsyntax-only -fdiagnostics-format=json (one function per source line, so every diagnostic maps to
its program), and returns the observed verdict and result kind of every program.
No RLBox knowledge here: templates are syntax only; judging is TLC's (Taint.FormAllowed)."""
import json
import os
import re
import subprocess
from concurrent.futures import ThreadPoolExecutor

# 'E': expression form - the type of the expression is reported; 'S': statement form.
UNARY = {
    "memcmp_with_raw": ("E", "rlbox::memcmp(e.sb, {x}, e.r_ptr, 4u)"),
    "memcmp_raw_first": ("E", "rlbox::memcmp(e.sb, e.r_ptr, {x}, 4u)"),
    "memcmp_with_self": ("E", "rlbox::memcmp(e.sb, {x}, {x}, 4u)"),
    "memcmp_tainted_len": ("E", "rlbox::memcmp(e.sb, {x}, e.r_ptr, e.t_int)"),
    "neg": ("E", "-{x}"), "compl": ("E", "~{x}"), "not": ("E", "!{x}"), "deref": ("E", "*{x}"), "addr": ("E", "&{x}"),
    "arrow": ("E", "{x}.operator->()"), "preinc": ("E", "++{x}"), "postinc": ("E", "{x}++"), "predec": ("E", "--{x}"),
    "postdec": ("E", "{x}--"),
    "if": ("S", "if ({x}) {{ }}"), "while": ("S", "while ({x}) {{ break; }}"), "ternary": ("S", "int n = {x} ? 1 : 2; (void)n;"),
    "init_bool": ("S", "bool b = {x}; (void)b;"), "cast_bool": ("S", "bool b = static_cast<bool>({x}); (void)b;"),
    "andand_plain": ("S", "bool b = e.r_bool && {x}; (void)b;"),
    "switch": ("S", "switch ({x}) {{ default: break; }}"), "subscript_use": ("S", "int n = raw_arr[{x}]; (void)n;"),
    "init_int": ("S", "int n = {x}; (void)n;"), "init_long": ("S", "long n = {x}; (void)n;"),
    "init_double": ("S", "double d = {x}; (void)d;"), "init_ptr": ("S", "int* q = {x}; (void)q;"),
    "init_voidp": ("S", "const void* q = {x}; (void)q;"), "init_fn": ("S", "Fn f = {x}; (void)f;"),
    "init_struct": ("S", "PS s = {x}; (void)s;"), "assign_int": ("S", "int n; n = {x}; (void)n;"),
    "static_cast_int": ("S", "int n = static_cast<int>({x}); (void)n;"), "c_cast_long": ("S", "long n = (long){x}; (void)n;"),
    "c_cast_ptr": ("S", "int* q = (int*){x}; (void)q;"),
    "reinterpret_long": ("S", "long n = reinterpret_cast<long>({x}); (void)n;"),
    "arg_int": ("S", "take_int({x});"), "arg_cref": ("S", "take_cref({x});"), "arg_ptr": ("S", "take_ptr({x});"),
    "arg_cptr": ("S", "take_cptr({x});"), "arg_fn": ("S", "take_fn({x});"), "arg_struct": ("S", "take_ps({x});"),
    "brace_int": ("S", "int n{{{x}}}; (void)n;"),
    "return_int": ("S", "auto f = [&]() -> int {{ return {x}; }}; (void)f;"),
    "return_ptr": ("S", "auto f = [&]() -> const void* {{ return {x}; }}; (void)f;"),
    "printf_like": ("S", "long n = 0; n += {x}; (void)n;"), "plain_plus": ("S", "long n = 5L + {x}; (void)n;"),
    "ptr_diff": ("S", "long n = {x} - e.r_ptr; (void)n;"), "std_string": ("S", "std::string s({x}); (void)s;"),
    "memcpy_raw": ("S", "std::memcpy(raw_arr, {x}, 4);"),
    "UNSAFE_unverified": ("E", "{x}.UNSAFE_unverified()"), "UNSAFE_sandboxed": ("E", "{x}.UNSAFE_sandboxed(e.sb)"),
    "unverified_safe_because": ("E", "{x}.unverified_safe_because(\"r\")"),
    "unverified_safe_pointer_because": ("E", "{x}.unverified_safe_pointer_because(1, \"r\")"),
    "copy_and_verify": ("E", "{x}.copy_and_verify([](auto v) {{ return 1; }})"),
    "copy_and_verify_range": ("E", "{x}.copy_and_verify_range([](auto v) {{ return 1; }}, 1)"),
    "copy_and_verify_string": ("E", "{x}.copy_and_verify_string([](std::string v) {{ return 1; }})"),
    "copy_and_verify_address": ("E", "{x}.copy_and_verify_address([](uintptr_t v) {{ return 1; }})"),
    "copy_and_verify_buffer_address": ("E", "{x}.copy_and_verify_buffer_address([](uintptr_t v) {{ return 1; }}, 1)"),
    "INTERNAL_unverified_safe": ("E", "{x}.INTERNAL_unverified_safe()"),
    "to_tainted_same": ("E", "tainted<detail::rlbox_remove_wrapper_t<std::remove_reference_t<decltype({x})>>, S>({x})"),
    "to_tainted_long": ("E", "tainted<long, S>({x})"), "to_opaque": ("E", "{x}.to_opaque()"),
    "from_opaque": ("E", "from_opaque({x})"), "static_cast_long": ("E", "sandbox_static_cast<long>({x})"),
    "reinterpret_charp": ("E", "sandbox_reinterpret_cast<char*>({x})"),
    "const_cast_same": ("E", "sandbox_const_cast<const int*>({x})"),
    "copy_wrapper": ("S", "auto c = {x}; (void)c;"), "member_a": ("E", "{x}.a"),
    "get_raw_private": ("S", "auto n = {x}.get_raw_value(); (void)n;"), "data_private": ("S", "auto n = {x}.data; (void)n;"),
}
BINSYM = {"add": "+", "sub": "-", "mul": "*", "div": "/", "mod": "%", "xor": "^", "and": "&", "or": "|", "shl": "<<", "shr": ">>",
          "andand": "&&", "oror": "||", "eq": "==", "ne": "!=", "lt": "<", "le": "<=", "gt": ">", "ge": ">="}
REV = {"radd": "+", "rsub": "-", "rmul": "*", "rshl": "<<", "req": "==", "rlt": "<"}
COMPOUND = {"addeq": "+=", "subeq": "-=", "muleq": "*=", "shleq": "<<="}

FIXED = {
    # ---- C02 entries that must be rejected
    "taint_ctor_rawptr": "tainted<int*, S> z(e.r_ptr);", "taint_init_rawptr": "tainted<int*, S> z = e.r_ptr;",
    "taint_assign_rawptr": "e.t_ptr = e.r_ptr;", "vol_assign_rawptr": "e.v_ptr = e.r_ptr;", "vol_assign_rawfn": "e.v_fn = e.r_fn;",
    "vol_assign_arr_rawptr": "e.v_arrp = e.r_arrp;", "taint_assign_rawfn": "e.t_fn = e.r_fn;",
    "taint_ctor_rawcharp": "tainted<const char*, S> z(e.r_charp);", "vol_assign_rawvoidp": "*e.t_pp = (int*)e.r_voidp;",
    # raw pointers of two and more levels, to const, to void: the entry is closed for every pointer type
    "taint_ctor_rawpp": "tainted<int**, S> z(e.r_pp);", "taint_init_rawpp": "tainted<int**, S> z = e.r_pp;",
    "taint_assign_rawpp": "e.t_pp = e.r_pp;", "taint_ctor_rawvpp": "tainted<void**, S> z(e.r_vpp);",
    "taint_ctor_rawccpp": "tainted<const char* const*, S> z(e.r_ccpp);", "taint_ctor_rawvoidp": "tainted<void*, S> z(e.r_voidp);",
    "invoke_rawptr": "e.sb.invoke_sandbox_function(lib_ptr, e.r_ptr);",
    "invoke_rawfn": "e.sb.invoke_sandbox_function(lib_fn, e.r_fn);",
    "invoke_plain_struct": "e.sb.invoke_sandbox_function(lib_ps, e.r_ps);",
    "invoke_foreign_tainted": "e.sb.invoke_sandbox_function(lib_int, e.t2_int);",
    "invoke_foreign_ptr": "e.sb.invoke_sandbox_function(lib_ptr, e.t2_ptr);",
    "invoke_foreign_callback": "e.sb.invoke_sandbox_function(lib_fn, e.cb_s2);",
    "invoke_wrong_arity": "e.sb.invoke_sandbox_function(lib_int, e.t_int, e.t_int);",
    "invoke_callback_wrong_type": "e.sb.invoke_sandbox_function(lib_fn, e.cb2);",
    "invoke_tainted_fn_wrong_type": "e.sb.invoke_sandbox_function(lib_fn, e.t_fn2);",
    "invoke_arr_rawptr": "e.sb.invoke_sandbox_function(lib_ptr, e.r_arrp);",
    "invoke_rawcharp": "e.sb.invoke_sandbox_function(lib_charp, e.r_charp);",
    "register_no_sandbox": "auto c = e.sb.register_callback(cb_no_sandbox);",
    "register_nothing": "auto c = e.sb.register_callback(cb_nothing);",
    "register_wrong_first": "auto c = e.sb.register_callback(cb_wrong_first);",
    "register_other_sandbox_ref": "auto c = e.sb.register_callback(cb_other_sandbox_ref);",
    "register_plain_param": "auto c = e.sb.register_callback(cb_plain_param);",
    "register_plain_ptr_param": "auto c = e.sb.register_callback(cb_plain_ptr_param);",
    "register_volatile_param": "auto c = e.sb.register_callback(cb_volatile_param);",
    "register_array_param": "auto c = e.sb.register_callback(cb_array_param);",
    "register_foreign_param": "auto c = e.sb.register_callback(cb_foreign_param);",
    "register_plain_ret": "auto c = e.sb.register_callback(cb_plain_ret);",
    "register_plain_ptr_ret": "auto c = e.sb.register_callback(cb_plain_ptr_ret);",
    "vol_assign_callback_wrong_type": "e.v_fn = e.cb2;", "vol_assign_tainted_fn_wrong_type": "e.v_fn = e.t_fn2;",
    "vol_assign_tainted_ptr_wrong_type": "e.v_ptr = e.t_charp;", "vol_assign_tainted_fn_to_dataptr": "e.v_ptr = e.t_fn;",
    "vol_assign_tainted_dataptr_to_fn": "e.v_fn = e.t_ptr;", "taint_assign_callback": "tainted<Fn, S> z = e.cb;",
    "tainted_number_plus_rawptr": "tainted<int*, S> z = e.t_int + e.r_ptr;",
    "volatile_number_plus_rawptr": "auto z = e.v_int + e.r_ptr;", "volatile_pluseq_rawptr": "e.v_long += e.r_ptr;",
    "int_plus_tainted_ptr": "auto z = 1000000 + e.t_ptr;",
    "assign_raw_pointer_wrong_type": "e.t_ptr.assign_raw_pointer(e.sb, e.r_charp);",
    "accept_pointer_nonpointer": "auto z = e.sb.UNSAFE_accept_pointer(e.r_int);",
    "taint_from_foreign": "tainted<int, S> z = e.t2_int;", "vol_assign_foreign": "e.v_int = e.t2_int;",
    "reinterpret_fn_to_data": "auto z = sandbox_reinterpret_cast<char*>(e.t_fn);",
    "reinterpret_data_to_fn": "auto z = sandbox_reinterpret_cast<Fn>(e.t_ptr);",
    "free_foreign": "e.sb.free_in_sandbox(e.t2_ptr);", "memcpy_dest_raw": "rlbox::memcpy(e.sb, e.r_ptr, e.t_ptr, 4);",
    "app_ptr_as_callback": "e.v_fn = e.ap;",
    # callbacks whose signature mixes tainted parameters with a plain one
    "register_mixed_ptr": "auto c = e.sb.register_callback(cb_mixed_ptr);",
    "register_mixed_struct": "auto c = e.sb.register_callback(cb_mixed_struct);",
    "register_mixed_ref": "auto c = e.sb.register_callback(cb_mixed_ref);",
    "register_mixed_fn": "auto c = e.sb.register_callback(cb_mixed_fn);",
    "register_mixed_int_last": "auto c = e.sb.register_callback(cb_mixed_int_last);",
    "register_mixed_first_plain": "auto c = e.sb.register_callback(cb_mixed_first_plain);",
    # function-pointer types that coincide only under the guest ABI
    "vol_assign_callback_abi_equal_long": "e.v_fn = e.cb_l;", "vol_assign_callback_abi_equal_int": "e.v_fnl = e.cb;",
    "vol_assign_callback_abi_equal_ptr": "e.v_fncp = e.cb_ip;", "vol_assign_callback_abi_equal_uint": "e.v_fnu = e.cb_ip;",
    "vol_assign_tainted_fn_abi_equal_long": "e.v_fn = e.t_fnl;", "vol_assign_tainted_fn_abi_equal_ptr": "e.v_fncp = e.t_fnip;",
    "taint_assign_tainted_fn_abi_equal": "tainted<Fn, S> z = e.t_fnl;",
    "invoke_callback_abi_equal": "e.sb.invoke_sandbox_function(lib_fn, e.cb_l);",
    "invoke_tainted_fn_abi_equal": "e.sb.invoke_sandbox_function(lib_fn, e.t_fnl);",
    "vol_assign_stdarray_rawptr": "e.v_arrp = e.r_stdarrp;",
    "vol64_assign_rawptr": "e.v3_ptr = e.r_ptr;", "vol64_assign_arr_rawptr": "e.v3_arrp = e.r_arrp;",
    "vol64_assign_stdarray_rawptr": "e.v3_arrp = e.r_stdarrp;", "vol64_assign_rawfn": "e.v3_fn = e.r_fn;",
    "vol64_assign_rawptr_as_long": "e.v3_long = e.r_ptr;", "taint64_assign_rawptr": "e.t3_ptr = e.r_ptr;",
    "invoke64_rawptr": "e.sb3.invoke_sandbox_function(lib_ptr, e.r_ptr);",
    "vol64_assign_foreign_ptr": "e.v3_ptr = e.t_ptr;",
    # ---- permitted / checked entries (controls)
    "taint_nullptr": "tainted<int*, S> z = nullptr;", "vol_assign_nullptr": "e.v_ptr = nullptr;",
    "vol_assign_tainted_ptr": "e.v_ptr = e.t_ptr;", "vol_assign_callback": "e.v_fn = e.cb;", "vol_assign_callback_long": "e.v_fnl = e.cb_l;",
    "vol_assign_callback_intp": "e.v_fnip = e.cb_ip;", "vol_assign_tainted_fn": "e.v_fn = e.t_fn;",
    "invoke_ok_int": "e.sb.invoke_sandbox_function(lib_int, 5);", "invoke_ok_tainted": "e.sb.invoke_sandbox_function(lib_ptr, e.t_ptr);",
    "invoke_ok_nullptr": "e.sb.invoke_sandbox_function(lib_ptr, nullptr);",
    "invoke_ok_callback": "e.sb.invoke_sandbox_function(lib_fn, e.cb);",
    "invoke_ok_opaque": "e.sb.invoke_sandbox_function(lib_ptr, e.o_ptr);",
    "invoke_ok_volatile": "e.sb.invoke_sandbox_function(lib_int, e.v_int);",
    "invoke_ok_app_pointer": "e.sb.invoke_sandbox_function(lib_ptr, e.ap);",
    "register_ok": "auto c = e.sb.register_callback(cb_ok);", "register_ok_ptr": "auto c = e.sb.register_callback(cb_ok_ptr);",
    "register_ok_void": "auto c = e.sb.register_callback(cb_ok_void);",
    "register_ok_opaque": "auto c = e.sb.register_callback(cb_ok_opaque);",
    "assign_raw_pointer_ok": "e.t_ptr.assign_raw_pointer(e.sb, e.r_ptr);",
    "accept_pointer_ok": "auto z = e.sb.UNSAFE_accept_pointer(e.r_ptr);",
    "vol_assign_raw_pointer_ok": "e.v_ptr.assign_raw_pointer(e.sb, e.r_ptr);", "vol_assign_plain_int": "e.v_int = 5;",
    "vol_assign_plain_arr": "e.v_arr = e.r_arr;", "vol_assign_plain_stdarray": "e.v_arr = e.r_stdarr;",
    "vol64_assign_tainted_ptr": "e.v3_ptr = e.t3_ptr;",
}


def render(p):
    """p: program record from TLC -> (kind 'E'/'S', C++ text)"""
    f = p["form"]
    x, y = p["x"]["v"], p["y"]["v"]
    if f in UNARY:
        k, t = UNARY[f]
        return k, t.format(x=x)
    if f in BINSYM:
        return "E", "%s %s %s" % (x, BINSYM[f], y)
    if f in REV:
        return "E", "%s %s %s" % (y, REV[f], x)
    if f in COMPOUND:
        return "E", "%s %s %s" % (x, COMPOUND[f], y)
    if f == "index":
        return "E", "%s[%s]" % (x, y)
    if f in FIXED:
        return "S", FIXED[f]
    raise KeyError(f)


def classify(ty):
    """type string reported by the compiler -> result kind"""
    t = ty.strip()
    t = re.sub(r"\s*(&&|&)\s*$", "", t)
    t = re.sub(r"^const\s+", "", t)
    if re.search(r"\*\s*(const)?\s*$", t) and re.search(r"rlbox::(tainted|tainted_volatile|tainted_opaque|sandbox_callback|app_pointer)", t) \
            and not t.startswith("rlbox::"):
        return "WP"
    for pat, k in (("rlbox::tainted_volatile<", "TV"), ("rlbox::tainted_opaque<", "O"), ("rlbox::tainted_boolean_hint", "BH"),
                   ("rlbox::tainted_int_hint", "IH"), ("rlbox::sandbox_callback<", "CB"), ("rlbox::app_pointer<", "AP"),
                   ("rlbox::tainted<", "T")):
        if t.startswith(pat):
            # a pointer to a wrapper object is still wrapped
            return "WP" if re.search(r">\s*\*+\s*(const)?$", t) else k
    if t == "void":
        return "V"
    return "P"


def compile_corpus(programs, inc, prelude_dir, workdir, batch=60, jobs=16):
    """Returns list of dicts {verdict, rk, type, diag} aligned with programs."""
    os.makedirs(workdir, exist_ok=True)
    pch_dir = os.path.join(workdir, "pch")
    os.makedirs(pch_dir, exist_ok=True)
    hdr = os.path.join(pch_dir, "taint_prelude.hpp")
    with open(hdr, "w") as f:
        f.write(open(os.path.join(prelude_dir, "taint_prelude.hpp")).read())
    flags = ["-std=c++17", "-DALLENABY_RLBOX_VERIF", "-I" + inc, "-I" + prelude_dir, "-w"]
    p = subprocess.run(["g++"] + flags + ["-x", "c++-header", hdr, "-o", hdr + ".gch"], capture_output=True, text=True)
    if p.returncode != 0:
        raise RuntimeError("prelude does not compile:\n" + p.stderr[-3000:])
    rendered = [render(pr) for pr in programs]

    def run_group(tag, idxs):
        """compiles the programs idxs in one TU; returns {i: result} (see below for soundness)"""
        src = os.path.join(workdir, "%s.cpp" % tag)
        with open(src, "w") as f:
            for n, i in enumerate(idxs):
                kind, text = rendered[i]
                if kind == "E":
                    body = "auto&& r = (%s); Report<decltype(r)> q;" % text
                else:
                    body = "%s Report<struct Accepted> q;" % text
                f.write("void program_%d(Env& e) { %s }\n" % (n, body))
        cmd = ["g++"] + flags + ["-fsyntax-only", "-fmax-errors=0", "-fno-diagnostics-show-caret",
                                 "-fdiagnostics-color=never", "-ftemplate-backtrace-limit=0", "-include", hdr, src]
        p = subprocess.run(cmd, capture_output=True, text=True)
        per = {n: [] for n in range(len(idxs))}
        unattributed = 0
        base = os.path.basename(src)
        ctx = None
        loc_re = re.compile(r"^(.*?):(\d+):(\d+): (.*)$")
        for line in p.stderr.splitlines():
            m = loc_re.match(line)
            if not m:
                continue
            fname, ln, rest = m.group(1), int(m.group(2)), m.group(4)
            in_tu = os.path.basename(fname) == base
            rl = rest.lstrip()
            if rl.startswith("required from") or rl.startswith("required by") or "in 'constexpr' expansion" in rest or \
                    rl.startswith("recursively required"):
                if in_tu:
                    ctx = ln
                continue
            if rest.startswith("error:") or rest.startswith("fatal error:"):
                msg = rest.split("error:", 1)[1].strip()
                tl = ln if in_tu else ctx
                if tl is not None and 1 <= tl <= len(idxs):
                    per[tl - 1].append(msg)
                else:
                    unattributed += 1
        res = {}
        for n, i in enumerate(idxs):
            msgs = per[n]
            rep = [m for m in msgs if "Report<" in m and "incomplete type" in m]
            other = [m for m in msgs if m not in rep]
            if rep and not other:
                kind = rendered[i][0]
                ty = ""
                m = re.search(r"Report<(.*)>\s+q", rep[0])
                if m:
                    ty = m.group(1).strip()
                res[i] = {"verdict": "accept", "type": ty if kind == "E" else "", "rk": classify(ty) if kind == "E" else "V"}
            elif msgs:
                res[i] = {"verdict": "reject", "type": "", "rk": "", "diag": other[0][:160] if other else rep[0][:160]}
            else:
                raise RuntimeError("program without any diagnostic (%s #%d): %s" % (tag, n, rendered[i][1]))
        clean = unattributed == 0 and all(r["verdict"] == "accept" for r in res.values())
        return res, clean

    # Phase 1: batches. g++ reports an error inside a template instantiation only ONCE per TU (with
    # the first instantiation context), so in a batch a rejection is always genuine for the program
    # it is attributed to, but an "accept" may hide a shared hard error.
    results = {}
    batches = [list(range(i, min(i + batch, len(programs)))) for i in range(0, len(programs), batch)]
    with ThreadPoolExecutor(max_workers=jobs) as ex:
        for r, _ in ex.map(lambda bi: run_group("b%d" % bi, batches[bi]), range(len(batches))):
            results.update(r)
    # Phase 2: the accepted programs are re-compiled among themselves; a batch without a single hard
    # error confirms all its members (any hidden hard error would surface at least once); members of
    # any other batch are compiled one per TU.
    acc = [i for i in range(len(programs)) if results[i]["verdict"] == "accept"]
    abatches = [acc[i:i + batch] for i in range(0, len(acc), batch)]
    singles = []
    with ThreadPoolExecutor(max_workers=jobs) as ex:
        for (r, clean), idxs in zip(ex.map(lambda bi: run_group("a%d" % bi, abatches[bi]), range(len(abatches))), abatches):
            if clean:
                results.update(r)
            else:
                singles += idxs
    with ThreadPoolExecutor(max_workers=jobs) as ex:
        for r, _ in ex.map(lambda i: run_group("s%d" % i, [i]), singles):
            results.update(r)
    stats = {"batches": len(batches), "confirm_batches": len(abatches), "single_compiles": len(singles)}
    return [dict(results[i], text=rendered[i][1]) for i in range(len(programs))], stats
